"""eth_getLogs' filter decided by abstract execution of get_logs (helpers read in place), independent of how the filter is spelt
(flag and break, predicate closures, a filter struct with early returns, labelled continue).

A *scenario* fixes what the filter and the log look like at every position; `terms.explore_under` then runs the body with every
test the scenario decides taking its edge and every other test forking.  The verdict is whether a block that stores a log into
the result (`push` / `extend` of a value drawn from the receipt's logs) is reachable.

  scenario                                                    a log is kept
  absent+value   log has no topic at the position, filter position is a single value      never
  absent+list    log has no topic at the position, filter position is a list              never
  absent+null    log has no topic at the position, filter position is null                possible
  address-diff   the address test says "different", no topics filter                      never
  address-same   the address test says "equal", no topics filter                          possible
  topic-diff     topic present, single value, the equality says "different"              never
  topic-same     topic present, single value, the equality says "equal"                  possible

`never` is the safety half (a mismatch is never returned), `possible` keeps the scenario from being vacuous (the path to the
store exists at all).  What is decided: comparisons between the position index and the log's topic count (the position is the
first absent one: idx == len), `log.topics.get(idx)` (None / Some), Option adapters over it, the kind of the filter position
(discriminant of SingleOrVec and of the Option inside Single), equality calls between log topic and filter topic, and between
log address and requested address."""
from terms import explore_under, origin, calls_in, mentions, show

LOG_TOPICS = "FixedBytesED<32>"
_CMP_AT = {"Ge": True, "Le": True, "Eq": True, "Gt": False, "Lt": False, "Ne": False}      # idx ? len  at idx == len
_FLIP = {"Ge": "Le", "Le": "Ge", "Gt": "Lt", "Lt": "Gt", "Eq": "Eq", "Ne": "Ne"}


def _is_len_of_log_topics(t):
    return any(x[1].split("::")[-1] == "len" and LOG_TOPICS in (x[3] or "") for x in calls_in(t)) or (
        t[0] == "call" and t[1].split("::")[-1] == "len" and LOG_TOPICS in (t[3] or ""))


def _is_get_of_log_topics(t):
    return t[0] == "call" and t[1].split("::")[-1] in ("get", "first", "last") and LOG_TOPICS in ((t[3] if len(t) > 3 else "") or (t[4] if len(t) > 4 else "") or "")


def _opt_value(t, present):
    """'Some' / 'None' for an Option-valued term built from `log.topics.get(idx)` through adapters that keep None as None"""
    k = t[0]
    if k in ("ref", "deref", "cast"):
        return _opt_value(t[1], present)
    if _is_get_of_log_topics(t):
        return "Some" if present else "None"
    if k == "call" and t[1].split("::")[-1] in ("map", "as_ref", "copied", "cloned", "as_deref", "filter", "and_then") and t[2] and "Option" in t[1]:
        v = _opt_value(t[2][0], present)
        if v == "None":
            return "None"
        if v == "Some" and t[1].split("::")[-1] in ("map", "as_ref", "copied", "cloned", "as_deref"):
            return "Some"
        return None
    if k == "agg" and t[1].endswith("Option::Some"):
        return "Some"
    if k == "agg" and t[1].endswith("Option::None"):
        return "None"
    return None


def env(present, kind, topic_equal=None, address_equal=None, topics_filter=True, key="kind"):
    """kind: 'value' | 'list' | 'null'; key: which decided test marks the path ('kind' | 'address' | 'topic')"""
    def env_of(t):
        k = t[0]
        if k == "bin" and t[1] in _CMP_AT and not present:
            a, b = _is_len_of_log_topics(t[2]), _is_len_of_log_topics(t[3])
            if a != b:
                return _CMP_AT[_FLIP[t[1]] if a else t[1]]
        if k == "bin" and t[1] in ("Lt", "Le", "Gt", "Ge") and present:
            a, b = _is_len_of_log_topics(t[2]), _is_len_of_log_topics(t[3])
            if a != b:                       # idx < len
                op = _FLIP[t[1]] if a else t[1]
                return op in ("Lt", "Le")
        if k == "discr" and len(t) > 3 and t[3]:
            names = {n for (n, _v) in t[3]}
            if names == {"Single", "Vec"}:
                want = "Vec" if kind == "list" else "Single"
                if key == "kind":
                    env_of.fired = True
                return [v for (n, v) in t[3] if n == want][0]
            if names == {"None", "Some"}:
                s = show(t[1])
                if "as Single" in s and "get(" not in s:
                    want = "None" if kind == "null" else "Some"
                    return [v for (n, v) in t[3] if n == want][0]
                if mentions(t[1], "topics") and not mentions(t[1], ".logs") and not mentions(t[1], "next") and t[1][0] in ("param", "ref", "deref", "call") and "as Single" not in s:
                    ov = _opt_value(t[1], present)
                    if ov is None and (t[1][0] == "param" or (t[1][0] in ("ref", "deref") and t[1][1][0] == "param") or
                                       (t[1][0] == "call" and t[1][1].split("::")[-1] in ("as_ref", "as_deref") and mentions(t[1], "param:topics"))):
                        # the topics filter as a whole (an Option parameter)
                        return [v for (n, v) in t[3] if n == ("Some" if topics_filter else "None")][0]
                ov = _opt_value(t[1], present)
                if ov is not None:
                    return [v for (n, v) in t[3] if n == ov][0]
            return None
        if k == "call":
            m = t[1].split("::")[-1]
            if _is_get_of_log_topics(t):
                return "Some" if present else "None"
            if m in ("map", "as_ref", "copied", "cloned", "as_deref") and "Option" in t[1]:
                return _opt_value(t, present)
            if m in ("is_some", "is_none") and t[2]:
                ov = _opt_value(t[2][0], present)
                if ov is not None:
                    return (ov == "Some") == (m == "is_some")
            if m in ("is_some_and", "is_none_or") and t[2] and _opt_value(t[2][0], present) == "None":
                return m == "is_none_or"
            if m == "map_or" and len(t[2]) >= 2 and _opt_value(t[2][0], present) == "None" and t[2][1][0] == "const" and isinstance(t[2][1][1], bool):
                return t[2][1][1]
            if m in ("eq", "ne") and len(t[2]) == 2:
                a0, a1 = t[2]
                o0, o1 = _opt_value(a0, present), _opt_value(a1, present)
                if o0 and o1 and o0 != o1:
                    return m == "ne"
                s0, s1 = show(a0), show(a1)
                is_addr = ("address" in s0 and "address" in s1)
                if is_addr and address_equal is not None:
                    if key == "address":
                        env_of.fired = True
                    return address_equal == (m == "eq")
                is_topic = ("topics" in s0 or "topic" in s0 or "bytes" in s0) and ("topic" in s1 or "bytes" in s1 or "Single" in s1) and not is_addr
                if is_topic and topic_equal is not None:
                    if key == "topic":
                        env_of.fired = True
                    return topic_equal == (m == "eq")
        return None
    env_of.fired = False
    return env_of


def log_draw_blocks(fn):
    """blocks where the next log of a receipt is drawn (`next()` on an iterator over `.logs`)"""
    out = set()
    for c in fn.calls():
        if not fn.is_cleanup(c.bb) and (c.method or "") == "next" and (c.trait or "").endswith("Iterator") and mentions(origin(fn, c.args[0]), ".logs"):
            out.add(c.bb)
    return out


def keep_blocks(F, fn):
    """blocks of fn that store a receipt log into the result"""
    out = set()
    for c in fn.calls():
        if fn.is_cleanup(c.bb) or (c.method or "") not in ("push", "extend", "append", "extend_from_slice"):
            continue
        if len(c.args) < 2:
            continue
        v = origin(fn, c.args[1])
        if mentions(v, ".logs"):
            out.add(c.bb)
    return out


SCENARIOS = [
    ("absent+value", dict(present=False, kind="value"), False),
    ("absent+list", dict(present=False, kind="list"), False),
    ("absent+null", dict(present=False, kind="null"), True),
    ("address-diff", dict(present=True, kind="null", address_equal=False, topics_filter=False, key="address"), False),
    ("address-same", dict(present=True, kind="null", address_equal=True, topics_filter=False, key="address"), True),
    ("topic-diff", dict(present=True, kind="value", topic_equal=False, key="topic"), False),
    ("topic-same", dict(present=True, kind="value", topic_equal=True, address_equal=True, key="topic"), True),
]


def verdicts(F, fn):
    kb = keep_blocks(F, fn)
    draws = log_draw_blocks(fn)
    res = {}
    for name, kw, want in SCENARIOS:
        _out, visited = explore_under(fn, env(**kw), limit=40000, capture=tuple(kb), reset_at=tuple(draws))
        hit = any(st.get("__ev") for (_b, st) in explore_under.captured)
        res[name] = (hit, want)
    return kb, draws, res
