"""EFFECT rules (DESIGN 4.2): type-based may-write effect inference.

Primitive effects found in a body's MIR:
  MUT(T)   a store through a `&mut T` (T a local ADT): an assignment whose
           place is rooted in a deref of a `&mut T` local, or a `&mut` pointer
           derived from inside a `&mut T` handed to a *foreign* function
           (HashMap::insert(&mut self.cache, ..), Option::as_mut(&mut self.f));
  SLOT(T)  core::mem::take/swap/replace on a `&mut T`;
  WDISK    a RocksDB / filesystem write API call;   RDISK  a RocksDB read;
  COMMIT   a call whose callback set contains DatabaseCommit for a local type,
           or a revm *_commit entry point;
  WLOCK(L) a write acquisition of lock L (from the LOCK model);
  IMUT     interior mutability primitives (atomics, Cell, RefCell): fail closed.
Effects are closed over the call graph to a fixpoint.
"""
import re
from collections import defaultdict

MUTREF_RE = re.compile(r"^&(?:'[A-Za-z_0-9]+\s+)?mut\s+(.*)$")
ANYREF_RE = re.compile(r"^&(?:'[A-Za-z_0-9]+\s+)?(?:mut\s+)?(.*)$")

ROCKS_WRITE = {"put", "put_opt", "put_cf", "put_cf_opt", "delete", "delete_opt", "delete_cf", "delete_cf_opt",
               "merge", "merge_cf", "write", "write_opt", "write_without_wal", "flush", "flush_wal", "flush_cf",
               "flush_opt", "delete_range_cf", "delete_file_in_range", "compact_range", "compact_range_cf",
               "ingest_external_file", "set_options", "create_cf", "drop_cf", "destroy", "repair",
               "single_delete", "single_delete_cf"}
ROCKS_READ = {"get", "get_opt", "get_cf", "get_cf_opt", "get_pinned", "get_pinned_cf", "multi_get", "multi_get_cf",
              "iterator", "iterator_opt", "iterator_cf", "full_iterator", "full_iterator_cf", "prefix_iterator",
              "prefix_iterator_cf", "raw_iterator", "key_may_exist", "property_value", "property_int_value",
              "snapshot", "path", "latest_sequence_number", "live_files"}
ROCKS_NEUTRAL = {"default", "create_if_missing", "set_max_open_files", "next", "open", "open_default", "drop",
                 "into_iter", "clone", "fmt", "from", "into", "to_string", "as_ref", "deref", "eq", "kind",
                 "into_string", "source", "new", "item", "valid", "key", "value", "status", "take", "last", "map",
                 "set_mode"}
FS_WRITE_RE = re.compile(r"^std::fs::(create_dir|create_dir_all|write|remove_file|remove_dir|remove_dir_all|rename|copy|"
                         r"File::create|OpenOptions::.*open|set_permissions|hard_link)")
IMUT_RE = re.compile(r"^std::(sync::atomic::Atomic\w+::(store|swap|fetch_\w+|compare_exchange\w*)|cell::(Cell|RefCell)::"
                     r"(<.*>::)?(set|replace|borrow_mut|swap|take))")
MEM_SLOT = {"std::mem::take", "std::mem::swap", "std::mem::replace", "core::mem::take", "core::mem::swap",
            "core::mem::replace"}


def adt_name(ty):
    """outermost ADT path of a type string (without generics), refs stripped"""
    t = ty.strip()
    while True:
        m = ANYREF_RE.match(t)
        if m and t.startswith("&"):
            t = m.group(1).strip()
        else:
            break
    return t.split("<")[0].strip()


class Effects:
    def __init__(self, F, CG, LM=None):
        self.F = F
        self.CG = CG
        self.LM = LM
        self.local_adts = set(F.adt_by_name)
        self.direct = defaultdict(set)    # fid -> set(effect tuples (kind, subject))
        self.where = defaultdict(list)    # (fid, effect) -> [where strings]
        self.unknown_rocks = []
        self._scan()
        self._closed = None

    # ---- which local ADT does a `&mut` local point into?
    def owners(self, fn, l, depth=0, seen=None):
        if seen is None:
            seen = set()
        if depth > 10 or l in seen:
            return set()
        seen.add(l)
        ty = fn.local_ty(l)
        m = MUTREF_RE.match(ty)
        if m:
            inner = m.group(1).strip()
            name = inner.split("<")[0]
            if name in self.local_adts:
                return {name}
        out = set()
        for (bb, idx, kind, payload) in fn.defs().get(l, []):
            if payload.get("k") == "assign":
                rv = payload["rv"]
                if rv["k"] in ("ref", "rawptr"):
                    pl = rv["place"]
                    if "*" in pl.get("p", []):
                        out |= self.owners(fn, pl["l"], depth + 1, seen)
                    else:
                        # borrow of (a field of) a local value: owned data, not shared state
                        pass
                elif rv["k"] in ("use", "cast", "agg"):
                    for op in rv.get("ops", []):
                        if "l" in op:
                            out |= self.owners(fn, op["l"], depth + 1, seen)
            elif payload.get("k") == "call":
                for a in payload.get("args", []):
                    if "l" in a and ("&" in fn.local_ty(a["l"]) and "mut" in fn.local_ty(a["l"])):
                        out |= self.owners(fn, a["l"], depth + 1, seen)
        # closure upvars: _1.N of a closure whose upvar type is &mut T
        return out

    def _place_owner(self, fn, pl):
        """local ADTs written when storing to place pl (needs a deref of a &mut)"""
        proj = pl.get("p", [])
        if "*" not in proj:
            return set()
        # walk projections to find the type at the first deref
        l = pl["l"]
        ty = fn.local_ty(l)
        if proj[0] == "*":
            if MUTREF_RE.match(ty) or ty.startswith("*mut"):
                o = self.owners(fn, l)
                return o if o else {"?" + adt_name(ty)}
            if ty.startswith("std::boxed::Box<"):
                return set()   # owned heap value
            if ty.startswith("&"):
                return set()   # shared ref: a store through it is impossible in safe code
            return set()
        # closure upvar: (*(_1.N)).field  -> upvar N holds a &mut
        if proj[0].startswith(".") and "*" in proj[1:]:
            up = self._upvar_owner(fn, l, proj[0])
            return up
        return set()

    def _upvar_owner(self, fn, l, field):
        """for closures: owner of the &mut captured in upvar `field` of local l (== _1)"""
        if fn.kind not in ("closure", "coroutine") or l != 1:
            return set()
        # find the creator's aggregate and the operand at this index
        try:
            idx = int(field[1:])
        except ValueError:
            return set()
        parent = fn.j.get("parent")
        pf = self.F.fns.get(parent)
        if not pf:
            return set()
        for b in pf.blocks:
            for s in b["stmts"]:
                if s["k"] == "assign" and s["rv"]["k"] == "agg" and s["rv"].get("def") == fn.id:
                    ops = s["rv"]["ops"]
                    if idx < len(ops) and "l" in ops[idx]:
                        pl = ops[idx]
                        ty = pf.local_ty(pl["l"])
                        if MUTREF_RE.match(ty) and not pl.get("p"):
                            return self.owners(pf, pl["l"])
                        if pl.get("p"):
                            return self._place_owner(pf, pl) or set()
        return set()

    def _add(self, fn, eff, where):
        self.direct[fn.id].add(eff)
        self.where[(fn.id, eff)].append(where)

    def _scan(self):
        F = self.F
        for fn in F.body_fns():
            for bi, b in enumerate(fn.blocks):
                if b.get("cleanup"):
                    continue
                for s in b["stmts"]:
                    if s["k"] == "assign" or s["k"] == "setdiscr":
                        lhs = s["lhs"]
                        if lhs.get("p"):
                            for o in self._place_owner(fn, lhs):
                                self._add(fn, ("MUT", o), "%s:%s" % (fn.loc["f"], s.get("line", "?")))
                t = b["term"]
                if t["k"] != "call":
                    continue
                f = t["func"].get("fn")
                if not f:
                    continue
                path = f["path"]
                res = f.get("res") or {}
                rpath = res.get("path", path)
                wh = "%s:%d" % (t["loc"]["f"], t["loc"]["l"])
                local_target = bool(res.get("local")) or (f.get("local") and not f.get("trait"))
                meth = f.get("method") or path.split("::")[-1]
                # rocksdb API
                if path.startswith("rocksdb::") or rpath.startswith("rocksdb::") or (f.get("self_ty") or "").startswith("rocksdb::"):
                    if meth in ROCKS_WRITE:
                        self._add(fn, ("WDISK", meth), wh)
                    elif meth in ROCKS_READ:
                        self._add(fn, ("RDISK", meth), wh)
                    elif meth in ROCKS_NEUTRAL:
                        if meth in ("open", "open_default"):
                            self._add(fn, ("OPEN", "rocksdb"), wh)
                    else:
                        self.unknown_rocks.append((fn, wh, path))
                if FS_WRITE_RE.match(path):
                    self._add(fn, ("WDISK", "fs::" + path.split("::")[-1]), wh)
                if IMUT_RE.match(path):
                    self._add(fn, ("IMUT", path), wh)
                # commit family
                cbs = f.get("callbacks", [])
                if any(cb.startswith("revm::DatabaseCommit|") or "::DatabaseCommit|" in cb for cb in cbs):
                    self._add(fn, ("COMMIT", path.split("::")[-1]), wh)
                elif re.search(r"(^|::)(\w*_commit|commit\w*)$", path) and (path.startswith("revm") or "revm::" in path):
                    self._add(fn, ("COMMIT", path.split("::")[-1]), wh)
                # mem::take/swap/replace
                if path in MEM_SLOT or rpath in MEM_SLOT:
                    for a in t["args"]:
                        if "l" in a:
                            for o in self.owners(fn, a["l"]):
                                self._add(fn, ("SLOT", o), wh)
                elif not local_target:
                    # &mut pointers into local ADTs handed to foreign code
                    for a in t["args"]:
                        if "l" in a and not a.get("p"):
                            ty = fn.local_ty(a["l"])
                            if MUTREF_RE.match(ty):
                                inner = MUTREF_RE.match(ty).group(1).split("<")[0]
                                if inner in self.local_adts and self._is_reborrow_of_param(fn, a["l"]):
                                    # `&mut T` itself passed to a foreign generic (e.g. trait callback dispatch):
                                    # the foreign code can only act through T's trait impls (callback edges)
                                    continue
                                for o in self.owners(fn, a["l"]):
                                    self._add(fn, ("MUT", o), wh)
        if self.LM is not None:
            for s in self.LM.sites:
                if s["mode"] == "W":
                    self._add(s["fn"], ("WLOCK", s["lock"]), s["call"].where())

    def _is_reborrow_of_param(self, fn, l):
        return False

    # ---- closure over the call graph
    def closed(self):
        if self._closed is not None:
            return self._closed
        eff = {fid: set(self.direct.get(fid, ())) for fid in self.F.fns}
        edges = self.CG.edges
        changed = True
        while changed:
            changed = False
            for fid in eff:
                cur = eff[fid]
                n0 = len(cur)
                for t in edges.get(fid, ()):
                    cur |= eff.get(t, set())
                if len(cur) != n0:
                    changed = True
        self._closed = eff
        return eff

    def witness(self, root, effect):
        """call path from root to a function having `effect` directly"""
        p = self.CG.path(root, lambda x: effect in self.direct.get(x, ()))
        if not p:
            return []
        out = [x.replace("brc20_prog::", "") for x in p]
        last = p[-1]
        ws = self.where.get((last, effect), [])
        if ws:
            out.append("%s at %s" % (effect, ws[0]))
        return out
