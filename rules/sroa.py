"""Scalar replacement of a small local struct whose fields are updated in place (a *cursor*):

    let mut cursor = DecodeCursor::new(bytes, offset);     // cursor = DecodeCursor { bytes, offset }
    let a = cursor.read()?;                                  // (v, next) = T::decode(cursor.bytes, cursor.offset)?; cursor.offset = next
    let b = cursor.read()?;
    Ok(cursor.finish(X { a, b }))                            // (value, cursor.offset)

After the cursor's methods are virtually inlined, every access to the struct is a field access through the local itself or
through a reference / move of it.  Origin terms are not flow sensitive, so `cursor.offset` would always read as its initial
value.  This pass gives each *store* to a field its own fresh local and rewrites each *load* of that field to the version
that reaches it, which is well defined when the stores are totally ordered by dominance and no store that does not
dominate a load can reach it (straight-line code with error exits - exactly the shape of a decoder).  If the conditions do
not hold for a struct local the body is left unchanged (the rules then see what they saw before)."""
import copy
import re

from facts import Fn


def _ops_in(node, out):
    """collect every operand / place dict (has an int "l") inside a MIR json node, with a setter to replace it"""
    if isinstance(node, dict):
        for k, v in list(node.items()):
            if isinstance(v, dict):
                if isinstance(v.get("l"), int) and ("f" not in v or "c" not in v):
                    out.append((node, k, v))
                _ops_in(v, out)
            elif isinstance(v, list):
                for i, x in enumerate(v):
                    if isinstance(x, dict):
                        if isinstance(x.get("l"), int) and ("f" not in x or "c" not in x):
                            out.append((v, i, x))
                        _ops_in(x, out)
    return out


def promote_fields(F, fn, type_names):
    """a copy of fn (an inlined view) with in-place field updates of locals of the given struct types turned into versions"""
    j = copy.deepcopy(fn.j)
    blocks, locs = j["mir"]["blocks"], j["mir"]["locals"]
    tmp = Fn(copy.deepcopy(j), F)
    changed = False
    for R in range(len(locs)):
        ty = (locs[R].get("ty") or "")
        if ty.startswith("&") or not any(ty.split("<")[0] == n.split("<")[0] or ty.split("<")[0].endswith("::" + n.split("::")[-1]) for n in type_names):
            continue
        if _promote_one(tmp, j, R):
            changed = True
            tmp = Fn(copy.deepcopy(j), F)
    if not changed:
        return fn
    nf = Fn(j, F)
    return nf


import os


def _fail(n):
    if os.environ.get('VERIF_SROA_DEBUG'):
        print('sroa: gave up at line', n)
    return False


def _promote_one(fn, j, R):
    blocks, locs = j["mir"]["blocks"], j["mir"]["locals"]
    # ---- alias set: R itself, references to it, reborrows, plain copies / moves of those
    alias = {R: "val"}
    grew = True
    while grew:
        grew = False
        for bi, b in enumerate(blocks):
            if b.get("cleanup"):
                continue
            for s in b["stmts"]:
                if s["k"] != "assign" or s["lhs"].get("p") or s["lhs"]["l"] in alias:
                    continue
                rv = s["rv"]
                src = None
                if rv["k"] == "ref" and rv["place"]["l"] in alias and [e for e in rv["place"].get("p", []) if e != "*"] == []:
                    src = "ref"
                elif rv["k"] == "use" and "l" in rv["ops"][0] and rv["ops"][0]["l"] in alias and not rv["ops"][0].get("p"):
                    src = alias[rv["ops"][0]["l"]]
                if src:
                    # the alias local must have this single definition
                    if len([d for d in fn.defs().get(s["lhs"]["l"], []) if not fn.is_cleanup(d[0]) and d[2] != "partial"]) == 1:
                        alias[s["lhs"]["l"]] = src
                        grew = True
    # ---- the defining aggregate of R (directly, or of the local R is moved from)
    root = R
    init = None
    for _ in range(6):
        ds = [d for d in fn.defs().get(root, []) if not fn.is_cleanup(d[0]) and d[2] != "partial"]
        if len(ds) != 1 or ds[0][2] != "assign":
            return _fail(86)
        rv = ds[0][3]["rv"]
        if rv["k"] == "agg" and rv.get("agg") == "adt" and rv.get("fields"):
            init = (ds[0][0], ds[0][1], rv)
            break
        if rv["k"] == "use" and "l" in rv["ops"][0] and not rv["ops"][0].get("p"):
            root = rv["ops"][0]["l"]
            alias.setdefault(root, "val")
            continue
        return _fail(95)
    if init is None:
        return _fail(97)
    fields = list(init[2]["fields"])
    # ---- every use of an alias must be: its own definition, a field access (after optional derefs), or a drop / storage marker
    accesses = []           # (container, key, operand, field, rest, is_store, bb, pos)
    for bi, b in enumerate(blocks):
        if b.get("cleanup"):
            continue
        items = [(si, s) for si, s in enumerate(b["stmts"])] + [("term", b["term"])]
        for pos, node in items:
            for (cont, key, op) in _ops_in(node, []):
                if op["l"] not in alias:
                    continue
                p = list(op.get("p", []))
                q = [e for e in p]
                while q and q[0] == "*":
                    q.pop(0)
                is_def = (node.get("k") == "assign" and cont is node and key == "lhs" and not p)
                if is_def:
                    continue
                if not q:
                    # whole-value use: allowed only as the source of an alias definition (handled above) or a drop
                    if node.get("k") == "assign" and node["lhs"]["l"] in alias and not node["lhs"].get("p"):
                        continue
                    if node.get("k") in ("drop", "live", "dead"):
                        continue
                    if os.environ.get("VERIF_SROA_DEBUG"):
                        import json as _j
                        print("sroa: whole use", _j.dumps(node)[:300])
                    return _fail(122)
                if not (isinstance(q[0], str) and q[0].startswith(".") and q[0][1:] in fields):
                    return _fail(124)
                is_store = (node.get("k") == "assign" and cont is node and key == "lhs")
                accesses.append((cont, key, op, q[0][1:], q[1:], is_store, bi, pos if pos != "term" else 10 ** 6))
    if not accesses:
        return _fail(128)
    stores = {}
    for a in accesses:
        if a[5]:
            if a[4]:
                return _fail(133)
            stores.setdefault(a[3], []).append(a)
    if not stores:
        return _fail(136)
    def before(x, y):
        """program point x strictly before y on every path (dominance)"""
        if x[0] == y[0]:
            return x[1] < y[1]
        # success-path dominance: after inlining, a helper's error exit and its Ok exit merge before the caller's `?`
        return fn.sdominates(x[0], y[0])
    eb = set(fn.error_blocks())
    newlocs = {}
    def fresh(field, k):
        key = (field, k)
        if key not in newlocs:
            base = dict(locs[R])
            idx = fields.index(field)
            base = {"ty": "?", "name": "%s.%s#%d" % (locs[R].get("name") or "_%d" % R, field, k)}
            locs.append(base)
            newlocs[key] = len(locs) - 1
        return newlocs[key]
    init_pt = (init[0], init[1] if init[1] != "term" else 10 ** 6)
    plan = []
    for field in fields:
        sts = stores.get(field, [])
        pts = [(a[6], a[7]) for a in sts]
        # total order by dominance, all after the initial definition
        order = sorted(range(len(sts)), key=lambda i: sum(1 for j2 in range(len(sts)) if before(pts[j2], pts[i])))
        for x in range(len(order)):
            for y in range(x + 1, len(order)):
                if not before(pts[order[x]], pts[order[y]]):
                    return _fail(162)
        for a in accesses:
            if a[3] != field or a[5]:
                continue
            lp = (a[6], a[7])
            ver = 0
            for rank, i in enumerate(order):
                if before(pts[i], lp):
                    ver = rank + 1
                else:
                    # a store that does not dominate the load must not be able to reach it
                    sp = pts[i]
                    if sp[0] == lp[0]:
                        if any(lp[0] in fn.reachable(sx) for sx in fn.succ(lp[0])):
                            return _fail(176)
                    elif lp[0] in fn.reachable(sp[0], avoid=eb):
                        return _fail(178)
            plan.append(("load", a, field, ver))
        for rank, i in enumerate(order):
            plan.append(("store", sts[i], field, rank + 1))
    # ---- rewrite
    for kind, a, field, ver in plan:
        cont, key, op, fld, rest = a[0], a[1], a[2], a[3], a[4]
        nl = fresh(field, ver)
        new = {"l": nl}
        if rest:
            new["p"] = list(rest)
        if kind == "load":
            new["k"] = op.get("k", "copy")
        cont[key] = new
    # initial versions right after the defining aggregate
    ib = blocks[init[0]]
    ins_at = (init[1] + 1) if init[1] != "term" else len(ib["stmts"])
    for fi, field in enumerate(fields):
        srcop = init[2]["ops"][fi]
        ib["stmts"].insert(ins_at, {"k": "assign", "lhs": {"l": fresh(field, 0)}, "rv": {"k": "use", "ops": [copy.deepcopy(srcop)]}, "line": 0})
        ins_at += 1
    return True
