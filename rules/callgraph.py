"""Call graph over the fact base.

Edges (A3 of DESIGN.md):
 * resolved static calls to local bodies;
 * unresolved trait-method calls (generic context / dyn): every local impl of
   (trait, method);
 * closure / coroutine bodies: (a) at a call whose argument (or generic-arg)
   types mention the closure type -- the callee may invoke it; (b) at creation
   (`Aggregate(Closure)`) -- conservative "may run" edge used by the
   reachability/effect closure only;
 * function items passed as values (`map_err(wrap_rpc_error)`), reified fn
   pointers (`ReifyFnPointer` casts) -> possible targets of every indirect call
   with a matching pointer type;
 * callback edges for foreign generic callees: the local impl methods of the
   traits listed in the call's `callbacks` facts (computed by factx through
   where-clause elaboration + impl selection), "?" = all local impls.
"""
from collections import defaultdict, deque

from facts import CLOSURE_TY_RE


class CallGraph:
    def __init__(self, facts):
        self.F = facts
        self.trait_impls = facts.trait_impls()
        self.impl_methods = defaultdict(list)  # (trait, self_ty) -> [fn ids]
        for f in facts.fns.values():
            tr = f.j.get("trait")
            if tr:
                self.impl_methods[(tr, f.j.get("self_ty"))].append(f.id)
        self.reified = defaultdict(set)  # fn-pointer type string -> fn ids
        self._collect_reified()
        self._site_targets = {}
        self.edges = defaultdict(set)       # fn id -> set(fn id)   (all edges incl. creation)
        self.unresolved = []                # call sites with no information at all
        self._build()

    # -- reified fn pointers
    def _collect_reified(self):
        for f in self.F.fns.values():
            for b in f.blocks:
                for s in b["stmts"]:
                    if s["k"] != "assign":
                        continue
                    rv = s["rv"]
                    if rv["k"] == "cast" and "ReifyFnPointer" in rv.get("cast", ""):
                        op = rv["ops"][0]
                        if op.get("k") == "const" and op.get("fn"):
                            self.reified[rv["ty"]].add(op["fn"]["id"])

    def _closure_targets_from_types(self, call):
        out = set()
        fn = call.fn
        for a in call.args:
            if "l" in a:
                out.update(fn.local_closures(a["l"]))
            elif a.get("k") == "const" and a.get("fn"):
                # function item passed by value
                fid = a["fn"].get("res", {}) and a["fn"]["res"].get("id") or a["fn"]["id"]
                if fid in self.F.fns:
                    out.add(fid)
        if call.func:
            out.update(call.func.get("arg_cl", []))
        return {x for x in out if x in self.F.fns}

    def site_targets(self, call):
        """set of local fn ids that may execute during this call"""
        key = (call.fn.id, call.bb)
        if key in self._site_targets:
            return self._site_targets[key]
        F = self.F
        out = set()
        f = call.func
        if f is None:
            # indirect call: fn pointer or closure value
            fty = call.t.get("fn_ty", "")
            cands = set()
            for ty, ids in self.reified.items():
                if _fnptr_compatible(ty, fty):
                    cands |= ids
            cands |= set(call.t.get("fn_cl", []))
            if not cands:
                self.unresolved.append(call)
            out |= {c for c in cands if c in F.fns}
        else:
            res = call.res
            if res and res.get("local") and res["id"] in F.fns:
                if res.get("kind") == "Virtual":
                    out |= set(self.trait_impls.get((f.get("trait"), f.get("method")), []))
                else:
                    out.add(res["id"])
            elif res is None or (res and res.get("local")):
                # unresolved (generic) or local item without body (trait decl)
                if f.get("trait") and f.get("method"):
                    out |= set(self.trait_impls.get((f["trait"], f["method"]), []))
                if f.get("local") and f["id"] in F.fns:
                    out.add(f["id"])
            # closures / fn items handed to the callee
            out |= self._closure_targets_from_types(call)
            # callback edges of foreign callees
            for cb in f.get("callbacks", []):
                tr, self_ty = cb.split("|", 1)
                if tr == "?":
                    for (t2, s2), ids in self.impl_methods.items():
                        out |= set(ids)
                else:
                    out |= set(self.impl_methods.get((tr, self_ty), []))
        self._site_targets[key] = out
        return out

    def _build(self):
        for fn in self.F.fns.values():
            if not fn.blocks:
                continue
            for c in fn.calls():
                for t in self.site_targets(c):
                    self.edges[fn.id].add(t)
            # creation edges
            for b in fn.blocks:
                for s in b["stmts"]:
                    if s["k"] == "assign" and s["rv"]["k"] == "agg" and s["rv"].get("agg") in (
                            "closure", "coroutine", "coroutine_closure"):
                        d = s["rv"]["def"]
                        if d in self.F.fns:
                            self.edges[fn.id].add(d)

    def reachable_from(self, roots, stop=()):
        seen = set()
        dq = deque()
        for r in roots:
            if r not in seen:
                seen.add(r)
                dq.append(r)
        while dq:
            x = dq.popleft()
            if x in stop:
                continue
            for y in self.edges.get(x, ()):
                if y not in seen:
                    seen.add(y)
                    dq.append(y)
        return seen

    def path(self, src, pred, stop=()):
        """shortest call path from src to a fn satisfying pred; list of ids or None"""
        prev = {src: None}
        dq = deque([src])
        while dq:
            x = dq.popleft()
            if pred(x):
                out = []
                while x is not None:
                    out.append(x)
                    x = prev[x]
                return out[::-1]
            if x in stop:
                continue
            for y in sorted(self.edges.get(x, ())):
                if y not in prev:
                    prev[y] = x
                    dq.append(y)
        return None


def _norm_fnptr(t):
    import re
    t = re.sub(r"for<[^>]*>\s*", "", t)
    t = re.sub(r"&'[a-z_0-9]+\s+", "&", t)
    return t.replace(" ", "")


def _fnptr_compatible(a, b):
    return _norm_fnptr(a) == _norm_fnptr(b)
