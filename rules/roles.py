"""Roles discovered from types and registrations (DESIGN 2.3), not from names."""
import re
from facts import const_value


def rpc_server_trait(F):
    """the trait whose provided `into_rpc` registers the RPC methods"""
    cands = [f for f in F.fns.values() if f.kind == "method" and f.j.get("in_trait") and f.j.get("method") == "into_rpc"]
    if len(cands) != 1:
        raise RuntimeError("expected exactly one trait with a provided into_rpc, found %d" % len(cands))
    return cands[0].j["in_trait"], cands[0]


def rpc_methods(F):
    """[(rpc name, trait method name, [handler fn ids], registration Call)] read from into_rpc's MIR"""
    trait, into_rpc = rpc_server_trait(F)
    impls = F.trait_impls()
    out = []
    for c in into_rpc.calls():
        if not c.path or not re.search(r"RpcModule::<[^>]*>::register_(async_)?method$|register_(async_)?method$", c.path):
            continue
        if "panic" in c.path:
            continue
        name = None
        closures = []
        for a in c.args:
            v = const_value(a)
            if isinstance(v, str) and name is None:
                name = v
            if "l" in a:
                closures += into_rpc.local_closures(a["l"])
        # follow closure -> coroutine -> trait method call
        methods = set()
        st = list(closures)
        seen = set()
        while st:
            x = st.pop()
            if x in seen or x not in F.fns:
                continue
            seen.add(x)
            fx = F.fns[x]
            for ch in F.children(x):
                st.append(ch.id)
            for cc in fx.calls():
                if cc.trait == trait and cc.method:
                    methods.add(cc.method)
        handlers = []
        for m in sorted(methods):
            ids = list(impls.get((trait, m), []))
            # provided (default) method of the trait itself
            for f in F.fns.values():
                if f.j.get("in_trait") == trait and f.j.get("method") == m and f.blocks:
                    if not ids:
                        ids.append(f.id)
            handlers += ids
        out.append((name, sorted(methods), handlers, c))
    # `#[method(name = "x", aliases = ["y"])]` registers the same handler under a second name: `register_alias(alias, existing)`.
    # An alias is a registered method in its own right (the deny list matches by the name on the wire)
    by_name = {n: (ms, hs) for (n, ms, hs, _c) in out}
    for c in into_rpc.calls():
        if not c.path or not c.path.endswith("register_alias") or into_rpc.is_cleanup(c.bb):
            continue
        strs = [const_value(a) for a in c.args]
        strs = [v for v in strs if isinstance(v, str)]
        if len(strs) == 2:
            alias, existing = strs
            ms, hs = by_name.get(existing, ([], []))
            out.append((alias, list(ms), list(hs), c))
        else:
            out.append((None, [], [], c))     # an alias whose names cannot be read: fails the resolution obligation
    return out


def handler_roots(F):
    ids = set()
    for name, methods, handlers, c in rpc_methods(F):
        ids.update(handlers)
    return sorted(ids)


def precompile_entries(F, CG):
    """functions reified to fn pointers (custom precompiles) + PrecompileProvider impl methods"""
    out = set()
    for ty, ids in CG.reified.items():
        if "PrecompileCall" in ty:
            out |= {i for i in ids if i in F.fns}
    for f in F.fns.values():
        tr = f.j.get("trait") or ""
        if tr.endswith("PrecompileProvider"):
            out.add(f.id)
    return sorted(out)


def table_types(F):
    """local ADTs owning a rocksdb::DB"""
    out = {}
    for a in F.adts.values():
        for v in a["variants"]:
            for fd in v["fields"]:
                if fd["ty"].startswith("rocksdb::DB") or fd["ty"].startswith("rocksdb::DBCommon<"):
                    out[a["name"]] = a
    return out


def database_struct(F):
    """the struct whose fields are Option<table type>"""
    tts = table_types(F)
    best = None
    for a in F.adts.values():
        if a["kind"] != "Struct":
            continue
        n = 0
        for fd in a["variants"][0]["fields"]:
            m = re.match(r"^std::option::Option<([A-Za-z0-9_:]+)", fd["ty"])
            if m and m.group(1) in tts:
                n += 1
        if n >= 3 and (best is None or n > best[1]):
            best = (a, n)
    if not best:
        raise RuntimeError("database struct not found")
    return best[0]


def table_fields(F):
    """[(field name, table type name, full type)] of the database struct"""
    db = database_struct(F)
    tts = table_types(F)
    out = []
    for fd in db["variants"][0]["fields"]:
        m = re.match(r"^std::option::Option<([A-Za-z0-9_:]+)", fd["ty"])
        if m and m.group(1) in tts:
            out.append((fd["name"], m.group(1), fd["ty"]))
    return out


def deny_list(F):
    """strings of the lazy_static deny list handed to the RPC auth middleware, read from the
    initializer's MIR constants; returns (static name, [strings], initializer fn)"""
    cands = []
    for f in F.fns.values():
        if f.kind == "fn" and f.id.endswith("::__static_ref_initialize") and \
                f.j.get("output", "").startswith("std::vec::Vec<std::string::String>"):
            strs = []
            for c in f.calls():
                for a in c.args:
                    v = const_value(a)
                    if isinstance(v, str):
                        strs.append(v)
            # also strings in array aggregates (vec![] lowers to box + array write)
            for b in f.blocks:
                for s in b["stmts"]:
                    if s["k"] == "assign":
                        for op in s["rv"].get("ops", []):
                            v = const_value(op)
                            if isinstance(v, str) and v not in strs:
                                strs.append(v)
            # strings reached through constants: a promoted or *named* constant array of &str
            # (`const NAMES: [&str; N] = [...]; NAMES.iter().map(|s| s.to_string()).collect()`)
            def const_strings(o, out):
                if isinstance(o, dict):
                    if isinstance(o.get("str"), str) and "hex" in o:
                        out.append(o["str"])
                    nm = o.get("named")
                    if isinstance(nm, str):
                        for cst in F.j["consts"]:
                            if cst["name"] == nm or cst["id"].endswith(nm):
                                const_strings({k: v for k, v in cst.items() if k not in ("name", "id")}, out)
                    for k, v in o.items():
                        if k != "named":
                            const_strings(v, out)
                elif isinstance(o, list):
                    for v in o:
                        const_strings(v, out)
            if not strs:
                extra = []
                const_strings(f.blocks, extra)
                for g in F.descendants(f.id):
                    const_strings(g.blocks, extra)
                for v in extra:
                    if v not in strs:
                        strs.append(v)
            deref = F.fns.get(f.id[: -len("::__static_ref_initialize")])
            name = deref.j.get("self_ty") if deref else None
            cands.append((name, strs, f))
    return cands


def state_types(F):
    """local ADT names reachable from the engine struct's fields and from lock-wrapped statics"""
    import re as _re
    names = set(F.adt_by_name)
    roots = set()
    for a in F.adts.values():
        for v in a["variants"]:
            for fd in v["fields"]:
                if "shared_data::SharedData<" in fd["ty"]:
                    roots.add(a["name"])
    for c in F.j["consts"]:
        if "SharedData<" in c.get("ty", ""):
            for n in names:
                if n in c["ty"]:
                    roots.add(n)
    out = set()
    st = list(roots)
    while st:
        n = st.pop()
        if n in out:
            continue
        out.add(n)
        a = F.adt_by_name.get(n)
        if not a:
            continue
        for v in a["variants"]:
            for fd in v["fields"]:
                for m in _re.findall(r"[A-Za-z_][A-Za-z0-9_]*(?:::[A-Za-z_][A-Za-z0-9_]*)+", fd["ty"]):
                    if m in names and m not in out:
                        st.append(m)
    return out


def state_containers(F):
    """shared mutable state containers: types reachable from the engine / lock-wrapped statics that are
    not Clone value types, plus every lock payload type (T of SharedData<T>)"""
    import re as _re
    reach = state_types(F)
    clone = set()
    for im in F.impls:
        if im.get("trait") == "std::clone::Clone" and im.get("self_ty"):
            clone.add(im["self_ty"].split("<")[0])
    out = {n for n in reach if n not in clone}
    # lock payloads
    pay = set()
    def payloads(ty):
        for m in _re.finditer(r"shared_data::SharedData<([A-Za-z_0-9:]+)", ty):
            pay.add(m.group(1))
    for a in F.adts.values():
        for v in a["variants"]:
            for fd in v["fields"]:
                payloads(fd["ty"])
    for c in F.j["consts"]:
        payloads(c.get("ty", ""))
    for n in pay:
        if n in F.adt_by_name:
            out.add(n)
    return out, pay
