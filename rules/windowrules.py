"""Window / guard clauses (GUARD + DOM instances) for the 10-block undo window."""
import roles
from guards import edge_forms, return_form, compare_form, lin
from terms import origin, show, rvalue_origin, calls_in, control_deps, bool_edge, mentions, fdominates
from tablerules import error_blocks, must_pass_on_success, self_fields, _leads_to_error_only

WINDOW_CONST = "MAX_REORG_HISTORY_SIZE"


def _engine_fn(F, method):
    c = [f for f in F.fns.values() if f.kind == "method" and f.j.get("method") == method and f.name.startswith("engine::engine::BRC20ProgEngine::")]
    return F.inlined(c[0]) if len(c) == 1 else None


def first_write_blocks(fn, LMsites=None):
    """blocks of calls that take the db/last_block_info write lock (write_fn*)"""
    out = []
    for c in fn.calls():
        if fn.is_cleanup(c.bb):
            continue
        m = c.method or ""
        if m in ("write_fn", "write_fn_unchecked"):
            out.append(c)
    return out


def clause_engine_reorg(R, F, CG):
    fn = _engine_fn(F, "reorg")
    if fn is None:
        R.violation("GUARD", "engine", "GUARD|engine.reorg|missing", "BRC20ProgEngine::reorg not found")
        return
    writes = first_write_blocks(fn)
    R.ob(len(writes) >= 1, "DOM-before", fn.where(), "DOM-before|engine.reorg|write", "engine.reorg performs no write_fn call")
    # validator: a block-boundary check (validator call with propagated result, or an inline waiting-count guard) dominates every write
    import enginerules as ER
    em = ER.engine_methods(F)
    for w in writes:
        R.ob(ER.validated_at(F, em, {}, fn, w.bb), "DOM-before", w.where(),
             "DOM-before|engine.reorg|require_no_waiting_txes", "no block-boundary validator (result propagated) dominates the write in engine.reorg",
             sample={"rule": "DOM-before", "a": "block-boundary validator", "b": "db.write_fn(reorg)"})

    def role(a):
        s = show(a)
        if a[0] == "param" and a[1] == 2:
            return "N"
        if "get_latest_block_height" in s:
            return "cur"
        return None
    forms = edge_forms(fn)
    found = {"above": None, "deep": None, "equal": None}
    eb = error_blocks(fn)
    for (b, s, fm, line) in forms:
        r, k, rel, bad = fm.roles(role)
        if bad or set(r) != {"N", "cur"}:
            continue
        to_err = s in eb or _leads_to_error_only(fn, s)
        if rel == "<=" and to_err and r == {"cur": 1, "N": -1} and k == 1:
            found["above"] = (b, fm, line)             # cur - N + 1 <= 0   <=> N > cur  => Err
        if rel == "<=" and to_err and r == {"cur": -1, "N": 1}:
            found["deep"] = (b, fm, line, k)            # N - cur + 11 <= 0  <=> cur - N > 10 => Err
        if rel == "==" and not to_err:
            # equal => Ok without write: successor reaches a return avoiding all write blocks
            reach = fn.reachable(s, avoid={w.bb for w in writes})
            if any(x in reach for x in fn.return_blocks()):
                found["equal"] = (b, fm, line)
    R.ob(found["above"] is not None, "GUARD", fn.where(), "GUARD|engine.reorg|above", "missing `N > current => Err`",
         sample={"rule": "GUARD", "fn": "engine.reorg", "row": "N - cur > 0 => Err"})
    dp = found["deep"]
    R.ob(dp is not None and dp[3] == 11 and any(WINDOW_CONST in c for c in dp[1].lin.consts), "GUARD", fn.where(),
         "GUARD|engine.reorg|deep", "depth refusal is `%s`; expected `cur - N > %s(=10) => Err`" % (
             dp[1].text(role) if dp else "absent", WINDOW_CONST),
         sample={"rule": "GUARD", "fn": "engine.reorg", "row": dp[1].text(role) if dp else None})
    R.ob(found["equal"] is not None, "GUARD", fn.where(), "GUARD|engine.reorg|equal", "missing `N == current => Ok` without write")
    for key in ("above", "deep"):
        if found[key]:
            for w in writes:
                R.ob(fn.sdominates(found[key][0], w.bb) or fdominates(fn, found[key][0], w.bb), "DOM-before", w.where(), "DOM-before|engine.reorg|%s" % key,
                     "the %s check does not dominate the write" % key)
    # accepted *whenever* the target is not above the tip and inside the window: every refusal decision of engine.reorg is one
    # of the documented ones (block under construction, above the tip, outside the window) or a propagated error of a callee
    known = {found[k][0] for k in ("above", "deep") if found[k]}
    from tablerules import unexpected_refusals
    for (ln, cond) in unexpected_refusals(fn, known_blocks=known, allow=lambda dd: mentions(dd, "waiting_tx_count")):
        R.violation("GUARD", "%s:%s" % (fn.loc["f"], ln), "GUARD|engine.reorg|unexpected-refusal",
                    "engine.reorg refuses on a condition the contract does not give (`%s`): a reorg to a height that is not above the tip and "
                    "inside the window must be accepted" % cond)


def _err_propagated(fn, call):
    dst = call.t["dest"]["l"]
    for c in fn.calls():
        if c.path and c.path.endswith("Try::branch") and any(a.get("l") == dst for a in c.args):
            return True
    # returned directly
    if dst == 0:
        return True
    return False


def _history_impl(F, method):
    c = [f for f in F.fns.values() if f.j.get("method") == method and (f.j.get("trait") or "").endswith("BlockHistoryCache")
         and f.blocks]
    return c[0] if len(c) == 1 else None


def clause_history_window(R, F):
    """BlockHistoryCacheData: is_old, remove_old_values, reorg retain, set/unset guard"""
    # is_old:  last + W < n    <=>  last - n + W + 1 <= 0
    f = _history_impl(F, "is_old")
    ok = False
    txt = "absent"
    if f:
        def role(a):
            s = show(a)
            if a[0] == "param" and a[1] == 2:
                return "n"
            if mentions(a, ".cache") and (mentions(a, "last") or mentions(a, "next_back") or mentions(a, "last_key_value")):
                return "last"
            return None
        for fm, line in return_form(f):
            r, k, rel, bad = fm.roles(role)
            txt = fm.text(role)
            if not bad and r == {"last": 1, "n": -1} and k == 11 and rel == "<=" and any(WINDOW_CONST in c for c in fm.lin.consts):
                ok = True
    if f and not ok:
        # `keys().last().map_or(true, |&last| last + W < n)`: the comparison sits in the closure, None (no entry) reads as old
        for c in f.calls():
            if (c.method or "") != "map_or" or f.is_cleanup(c.bb) or len(c.args) < 3:
                continue
            recv, dflt = origin(f, c.args[0]), origin(f, c.args[1])
            if not (mentions(recv, ".cache") and (mentions(recv, "last") or mentions(recv, "next_back") or mentions(recv, "last_key_value"))):
                continue
            if not (dflt[0] == "const" and dflt[1] is True):
                continue
            for cid in ((c.func or {}).get("arg_cl") or []):
                g = F.fns.get(cid)
                if g is None:
                    continue
                def role_cl(a):
                    sa = show(a)
                    if "param" in sa:
                        return "last"
                    if "upvar" in sa:
                        return "n"
                    return None
                for fm, line in return_form(g):
                    r, k, rel, bad = fm.roles(role_cl)
                    txt = fm.text(role_cl)
                    if not bad and r == {"last": 1, "n": -1} and k == 11 and rel == "<=" and any(WINDOW_CONST in cc for cc in fm.lin.consts):
                        ok = True
    R.ob(ok, "GUARD", f.where() if f else "history", "GUARD|is_old|form",
         "is_old is `%s`; expected `last + %s(=10) < n`" % (txt, WINDOW_CONST),
         sample={"rule": "GUARD", "fn": "is_old", "form": txt})
    # remove_old_values: the "old" predicate is  key + W <= latest  (found in whichever closure of the function mentions the
    # window constant), and the newest old entry is kept together with everything newer.  Two spellings of the second part are
    # recognised: removing all but the last of the old keys (`take(len - 1)`), or retaining `key >= newest old key` where that
    # key is the `last()` / `max()` of the filtered keys.
    rov = [g for g in F.fns.values() if g.name.endswith("remove_old_values") and g.kind == "method"]
    cl = [g for g in F.fns.values() if g.kind == "closure" and "remove_old_values" in g.name]
    ok = False
    txt = "absent"
    where = cl[0].where() if cl else (rov[0].where() if rov else "history")
    for g in cl:
        def role2(a):
            s = show(a)
            if "param" in s:
                return "key"
            if "upvar" in s:
                return "latest"
            return None
        for fm, line in return_form(g):
            if not any(WINDOW_CONST in c for c in fm.lin.consts):
                continue
            r, k, rel, bad = fm.roles(role2)
            txt = fm.text(role2)
            if not bad and r == {"key": 1, "latest": -1} and k == 10 and rel == "<=":
                ok = True
    if not ok and rov:
        # the same predicate spelled as an `if` inside a hand-written collecting loop over the cache keys: the edge that
        # carries `key + W <= latest` must be the one leading to the `push`
        g = rov[0]
        def role2b(a):
            if a[0] == "param" and a[1] == 2:
                return "latest"
            if mentions(a, ".cache") and (mentions(a, "keys") or mentions(a, "iter")):
                return "key"
            return None
        pushes = [c for c in g.calls() if (c.method or "") == "push" and not g.is_cleanup(c.bb)]
        for (b, s2, fm, line) in edge_forms(g):
            if not any(WINDOW_CONST in c for c in fm.lin.consts):
                continue
            r, k, rel, bad = fm.roles(role2b)
            if bad or set(r) != {"key", "latest"}:
                continue
            if pushes and all(g.dominates(s2, p.bb) for p in pushes):
                txt = fm.text(role2b)
                if r == {"key": 1, "latest": -1} and k == 10 and rel == "<=" and all(
                        role2b(origin(g, p.args[1])) == "key" for p in pushes):
                    ok = True
    R.ob(ok, "GUARD", where, "GUARD|remove_old_values|form",
         "pruning filter is `%s`; expected `key + %s(=10) <= latest`" % (txt, WINDOW_CONST),
         sample={"rule": "GUARD", "fn": "remove_old_values", "form": txt})
    if rov:
        g = rov[0]
        okk, how = _all_but_last(F, g)
        R.ob(okk, "GUARD", g.where(), "GUARD|remove_old_values|all-but-last",
             "pruning no longer keeps exactly the newest old entry and everything newer (none of: `take(len - 1)` over the old keys, "
             "`split_last()` remainder, `pop()` before the removal loop, `retain(key >= last old key)`)",
             sample={"rule": "GUARD", "fn": "remove_old_values", "row": how})
    # retain in reorg: key <= N
    cl = [g for g in F.fns.values() if g.kind == "closure" and "BlockHistoryCache" in g.name and "::reorg::" in g.name]
    ok = False
    txt = "absent"
    for g in cl:
        def role3(a):
            s = show(a)
            if "param" in s:
                return "key"
            if "upvar" in s:
                return "N"
            return None
        for fm, line in return_form(g):
            r, k, rel, bad = fm.roles(role3)
            txt = fm.text(role3)
            if not bad and r == {"key": 1, "N": -1} and k == 0 and rel == "<=":
                ok = True
    if not ok:
        # the same roll-back written as a loop that removes the newest entry while its key is above N:
        # `while let Some(e) = cache.last_entry() { if *e.key() <= N { return }; e.remove(); }`
        hr = _history_impl(F, "reorg")
        if hr is not None:
            import looprule as _LR
            loops = _LR.natural_loops(hr)
            def role3b(a):
                if a[0] == "param" and a[1] == 2:
                    return "N"
                if mentions(a, ".cache") and (mentions(a, "last_entry") or mentions(a, "last_key_value") or mentions(a, "pop_last") or mentions(a, "next_back")):
                    return "key"
                return None
            for (b2, s2, fm, line) in edge_forms(hr):
                r, k, rel, bad = fm.roles(role3b)
                if bad or r != {"key": 1, "N": -1} or k != 0 or rel != "<=":
                    continue
                body = [bd for (h_, bd, _bk) in loops if b2 in bd]
                if not body:
                    continue
                body = min(body, key=len)
                others = [x for x in hr.succ(b2) if x != s2]
                rem = [c for c in hr.calls() if (c.method or "") in ("remove", "pop_last", "remove_entry") and c.bb in body and not hr.is_cleanup(c.bb)
                       and mentions(origin(hr, c.args[0]), ".cache")]
                # `key <= N` leaves the loop without removing; the other edge removes that newest entry and goes round
                if s2 not in body or not any(c.bb in hr.reachable(s2, avoid={b2}) for c in rem):
                    if others and rem and all(c.bb in hr.reachable(others[0], avoid={b2}) for c in rem) and not any(c.bb in hr.reachable(s2, avoid={b2}) for c in rem):
                        ok = True
                        txt = "loop: remove newest while key > N"
    R.ob(ok, "GUARD", cl[0].where() if cl else "history", "GUARD|history.reorg|retain",
         "history rollback keeps `%s`; expected `key <= N`" % txt, sample={"rule": "GUARD", "fn": "history.reorg", "form": txt})
    # set / unset: refuse block < last; same guard both
    forms = {}
    for m in ("set", "unset"):
        g = _history_impl(F, m)
        if not g:
            continue
        def role4(a):
            s = show(a)
            if a[0] == "param" and a[1] == 2:
                return "block"
            if mentions(a, ".cache") and (mentions(a, "last") or mentions(a, "next_back") or mentions(a, "last_key_value")):
                return "last"
            return None
        got = None
        for (fm, panics) in _no_return_forms(F, g):
            r, k, rel, bad = fm.roles(role4)
            if bad or set(r) != {"block", "last"} or rel != "<=" or not panics:
                continue
            got = (r, k, fm.text(role4))
        forms[m] = got
        R.ob(got is not None and got[0] == {"block": 1, "last": -1} and got[1] == 1, "GUARD", g.where(), "GUARD|history.%s|monotone" % m,
             "%s refuses `%s`; expected panic iff `block < last`" % (m, got[2] if got else "nothing"),
             sample={"rule": "GUARD", "fn": "history." + m, "panic_edge": got[2] if got else None})
    R.ob(forms.get("set") == forms.get("unset"), "SIBLING", "history", "SIBLING|history|set-unset-guard",
         "set and unset disagree on the monotonicity guard: %s vs %s" % (forms.get("set"), forms.get("unset")))
    # call order agreement: dedup (latest) -> insert -> prune, by dominance, in both
    for m in ("set", "unset"):
        g = _history_impl(F, m)
        if g:
            g = F.inlined(g)     # `set`/`unset` may share a private `record(block, Option<V>)` helper
            lat = [c for c in g.calls() if (c.method or "") == "latest" and not g.is_cleanup(c.bb)]
            ins = [c for c in g.calls() if (c.method or "") == "insert" and not g.is_cleanup(c.bb)]
            rov2 = [c for c in g.calls() if (c.method or "") == "remove_old_values" and not g.is_cleanup(c.bb)]
            R.ob(bool(ins) and bool(rov2) and all(g.sdominates(i.bb, r.bb) for i in ins for r in rov2), "DOM-order", g.where(),
                 "DOM-order|history.%s|insert<prune" % m, "%s does not insert before pruning" % m,
                 sample={"rule": "DOM-order", "fn": "history." + m, "order": "latest < insert < remove_old_values"})
            R.ob(bool(lat) and bool(ins) and all(g.sdominates(l.bb, i.bb) for l in lat for i in ins), "DOM-order", g.where(),
                 "DOM-order|history.%s|dedup<insert" % m, "%s does not check the latest value before inserting" % m)
            # prune argument is the block just written
            for r in rov2:
                a = origin(g, r.args[1])
                R.ob(a[0] == "param" and a[1] == 2, "WIRE", r.where(), "WIRE|history.%s|prune-arg" % m,
                     "pruning is driven by `%s`, not by the block number just written" % show(a))
            for i in ins:
                a = origin(g, i.args[1])
                R.ob(a[0] == "param" and a[1] == 2, "WIRE", i.where(), "WIRE|history.%s|insert-key" % m,
                     "history entry is keyed by `%s`, not by the block number argument" % show(a))


def _all_but_last(F, g):
    """does remove_old_values remove every old key except the newest one?  The old keys are collected in ascending order (BTreeMap
    keys, never reversed); the recognised spellings of `all but the last` are listed in the violation text"""
    from terms import subterms, contains, _strip_refs
    import wire as _W
    calls = [c for c in g.calls() if not g.is_cleanup(c.bb)]
    if any((c.method or "") in ("rev", "sort_by", "sort_unstable_by", "reverse") for c in calls):
        return False, "reversed"
    removes = [c for c in calls if (c.method or "") == "remove" and mentions(origin(g, c.args[0]), ".cache")]
    for c in calls:
        if (c.method or "") == "retain":
            for cid in ((c.func or {}).get("arg_cl") or []):
                rc = F.fns.get(cid)
                if rc is None:
                    continue
                for fm, line in return_form(rc):
                    ts = list(fm.lin.terms.items())
                    # key >= bound   <=>   bound - key <= 0
                    if fm.rel == "<=" and fm.lin.k == 0 and len(ts) == 2 and sorted(v for _, v in ts) == [-1, 1]:
                        bound = [a for a, v in ts if v == 1][0]
                        keyt = [a for a, v in ts if v == -1][0]
                        bt = _W.resolve(F, rc, bound)
                        if "param" in show(keyt) and (mentions(bt, "last") or mentions(bt, "max") or mentions(bt, "next_back")) and mentions(bt, "filter"):
                            return True, "retain(key >= last(old keys))"
    # retain(|key| key == newest_old || !old(key)) with newest_old = last() of the old keys: the equality edge keeps, the old
    # predicate's true edge (an old key other than the newest) drops, its false edge keeps
    from terms import forced_result
    for c in calls:
        if (c.method or "") != "retain":
            continue
        for cid in ((c.func or {}).get("arg_cl") or []):
            rc = F.fns.get(cid)
            if rc is None:
                continue
            rc = F.inlined(rc)
            eq_ok = old_ok = False
            for (b2, s2, fm, line) in edge_forms(rc):
                ts = list(fm.lin.terms.items())
                if fm.rel == "==" and fm.lin.k == 0 and len(ts) == 2 and sorted(v for _, v in ts) == [-1, 1]:
                    other = [a for a, v in ts if "param" not in show(a)]
                    if other and any("param" in show(a) for a, _ in ts):
                        bt = _W.resolve(F, rc, other[0])
                        if (mentions(bt, "last") or mentions(bt, "max") or mentions(bt, "next_back")) and mentions(bt, "filter") and forced_result(rc, s2) == {True}:
                            eq_ok = True
                if fm.rel == "<=" and fm.lin.k == 10 and any(WINDOW_CONST in cc for cc in fm.lin.consts) and len(ts) == 2:
                    keyt = [a for a, v in ts if v == 1]
                    if keyt and "param" in show(keyt[0]):
                        others = [x for x in rc.succ(b2) if x != s2]
                        if forced_result(rc, s2) == {False} and others and forced_result(rc, others[0]) == {True}:
                            old_ok = True
            if eq_ok and not old_ok:
                # no branch on the old predicate: the closure returns `!(key + W <= latest)` when the key is not the newest old one
                for fm, line in return_form(rc):
                    for cand in (fm.negate(),):
                        ts = list(cand.lin.terms.items())
                        if cand.rel == "<=" and cand.lin.k == 10 and len(ts) == 2 and any(WINDOW_CONST in cc for cc in cand.lin.consts):
                            keyt = [a for a, v in ts if v == 1]
                            if keyt and "param" in show(keyt[0]):
                                old_ok = True
            if eq_ok and old_ok:
                return True, "retain(key == last(old keys) || !old(key))"
    if not removes:
        return False, None
    how = None
    for rm in removes:
        kt = origin(g, rm.args[1])
        this = None
        # take(len - 1)
        for c in calls:
            if (c.method or "") == "take" and mentions(kt, "take"):
                l = lin(origin(g, c.args[1]))
                if l.k == -1 and len(l.terms) == 1 and "len" in show(list(l.terms)[0]):
                    this = "take(len-1)"
        # split_last(): the `.1` remainder (every element but the last) feeds the removal
        for x in subterms(kt):
            if (x[0] == "field" and x[2] == ".1" and x[1][0] == "field" and x[1][2] == ".0" and x[1][1][0] == "field"
                    and "Some" in x[1][1][2] and x[1][1][1][0] == "call" and x[1][1][1][1].endswith("split_last")):
                this = "split_last().1"
        # pop() exactly once, outside any loop, on the collection the removal loop then consumes
        pops = [c for c in calls if (c.method or "") == "pop" and (c.path or "").startswith("std::vec::Vec")]
        if len(pops) == 1:
            p = pops[0]
            base = _strip_refs(origin(g, p.args[0]))
            in_loop = _in_cycle(g, p.bb)
            if contains(kt, base) and not in_loop and g.sdominates(p.bb, rm.bb) and not mentions(kt, "take") and not mentions(kt, "split_last"):
                this = "pop() then remove the rest"
        if this is None:
            return False, None
        how = this
    return True, how


def _in_cycle(g, bb):
    return any(bb in g.reachable(x) for x in g.succ(bb))


def _no_return_forms(F, g, depth=2):
    """[(Form, leads_to_no_return)] for the comparison edges of g, plus those of local methods of the same type that g calls
    before anything else can return (the call dominates every return block), with the callee's parameters replaced by the
    call's arguments - so a guard moved into a `require_...` helper reads the same as the inline one"""
    from guards import Form, Lin
    from terms import subst_params
    out = []
    for (b, s2, fm, line) in edge_forms(g):
        reach = g.reachable(s2)
        out.append((fm, not any(x in reach for x in g.return_blocks())))
    if depth <= 0:
        return out
    rets = g.return_blocks()
    for c in g.calls():
        h = F.fns.get(c.target_id) if c.target_id else None
        if h is None or not h.blocks or g.is_cleanup(c.bb) or h.id == g.id:
            continue
        if (h.j.get("self_ty") or "").split("<")[0] != (g.j.get("self_ty") or "").split("<")[0]:
            continue
        if not all(g.sdominates(c.bb, r) for r in rets):
            continue
        args = tuple(origin(g, a) for a in c.args)
        for (fm, panics) in _no_return_forms(F, h, depth - 1):
            terms = {}
            for a, coef in fm.lin.terms.items():
                a2 = subst_params(a, args)
                terms[a2] = terms.get(a2, 0) + coef
            out.append((Form(Lin(fm.lin.k, terms, fm.lin.flags, fm.lin.consts), fm.rel), panics))
    return out


def _table_fn(F, tname, method):
    c = [f for f in F.fns.values() if f.kind == "method" and f.j.get("method") == method and (f.j.get("self_ty") or "").startswith(tname)
         and not f.j.get("trait")]
    return F.inlined(c[0]) if len(c) == 1 else None


def clause_table_reorg_visits_all(R, F, crash_clause=False):
    """BlockCachedDatabase::reorg: persisted histories (cache_db full scan) ∪ in-memory keys, per-key reorg, then commit"""
    tn = [n for n in roles.table_types(F) if n.endswith("BlockCachedDatabase")][0]
    fn = _table_fn(F, tn, "reorg")
    need = {}
    for c in fn.calls():
        if fn.is_cleanup(c.bb):
            continue
        m = c.method or (c.target_path or "").split("::")[-1]
        if m == "full_iterator" and "cache_db" in show(origin(fn, c.args[0])):
            need["scan"] = c
            mode = show(origin(fn, c.args[1]))
            R.ob("Start" in mode, "WIRE", c.where(), "WIRE|table.reorg|scan-mode", "history scan does not start at the first key: %s" % mode)
        if m in ("keys", "iter") and "self.cache" in show(origin(fn, c.args[0])) and "cache_db" not in show(origin(fn, c.args[0])):
            need["mem"] = c
        if m == "reorg" and (c.trait or "").endswith("BlockHistoryCache"):
            need["per-key"] = c
            a = origin(fn, c.args[1])
            R.ob(a[0] == "param" and a[1] == 2, "WIRE", c.where(), "WIRE|table.reorg|N", "per-key rollback target is `%s`, not the requested block" % show(a))
        if m == "commit" and tn.split("::")[-1] in (c.self_ty or c.target_path or ""):
            need["commit"] = c
            a = origin(fn, c.args[1])
            R.ob(a[0] == "param" and a[1] == 2, "WIRE", c.where(), "WIRE|table.reorg|commit-arg", "commit after rollback uses `%s`" % show(a))
        if m == "retrieve_cache":
            need["retrieve"] = c
    for k in ("scan", "mem", "commit"):
        c = need.get(k)
        R.ob(c is not None and must_pass_on_success(fn, [c.bb]), "DOM-all", fn.where(), "DOM-all|table.reorg|%s" % k,
             "BlockCachedDatabase::reorg does not pass %s on every success path" % k,
             sample={"rule": "DOM-all", "fn": "table.reorg", "step": k})
    for k in ("per-key", "retrieve"):
        c = need.get(k)
        ok = c is not None and all(need.get(x) is not None and fn.sdominates(need[x].bb, c.bb) for x in ("scan", "mem"))
        R.ob(ok, "DOM-order", fn.where(), "DOM-order|table.reorg|%s" % k,
             "the %s step is missing or is not preceded by both key collections" % k,
             sample={"rule": "DOM-order", "fn": "table.reorg", "step": k})
    if "per-key" in need and "commit" in need:
        R.ob(not fn.sdominates(need["commit"].bb, need["per-key"].bb), "DOM-order", fn.where(), "DOM-order|table.reorg|rollback<commit",
             "commit precedes the per-key rollback")
    # every history that was loaded stays in memory until the commit: the commit must rewrite the latest value of *every*
    # visited key (that is what lets a repeated reorg repair a crash between a history-row and a latest-row write)
    if "commit" in need and crash_clause:
        droppers = []
        for c in fn.calls():
            m = c.method or ""
            if m in ("remove", "retain", "clear", "drain", "clear_cache", "remove_entry", "extract_if") and not fn.is_cleanup(c.bb) and c.args:
                recv = show(origin(fn, c.args[0]))
                if ("self.cache" in recv or m == "clear_cache") and "cache_db" not in recv:
                    if not fn.sdominates(need["commit"].bb, c.bb):
                        droppers.append(c)
        R.ob(not droppers, "DOM-order", fn.where(), "DOM-order|table.reorg|no-drop-before-commit",
             "BlockCachedDatabase::reorg drops loaded histories from memory before the commit (%s): their latest-value rows are not "
             "rewritten, so a crash between a history-row and a latest-row write of an earlier attempt is never repaired" % ", ".join(
                 "%s at line %d" % (c.method, c.line) for c in droppers),
             sample={"rule": "DOM-order", "fn": "table.reorg", "row": "no cache.remove/retain/clear before commit"})


def clause_blockdb_reorg(R, F):
    """BlockDatabase::reorg deletes exactly N+1 ..= its own last key"""
    tn = [n for n in roles.table_types(F) if n.endswith("BlockDatabase")][0]
    fn = _table_fn(F, tn, "reorg")
    lk = [c for c in fn.calls() if (c.method or "") == "last_key" and not fn.is_cleanup(c.bb)]
    R.ob(bool(lk) and all("param:self" in show(origin(fn, c.args[0])) for c in lk), "WIRE", fn.where(), "WIRE|blockdb.reorg|bound",
         "delete loop is not bounded by the table's own last_key()", sample={"rule": "WIRE", "fn": "blockdb.reorg", "bound": "self.last_key()"})
    dels = [c for c in fn.calls() if (c.method or "") == "delete" and not fn.is_cleanup(c.bb)]
    rems = [c for c in fn.calls() if (c.method or "") == "remove" and not fn.is_cleanup(c.bb)]
    R.ob(bool(dels) and bool(rems), "DOM-all", fn.where(), "DOM-all|blockdb.reorg|delete+remove",
         "rollback must delete the persisted row and drop the cached row")

    def role(a):
        s = show(a)
        if "last_key" in s:
            return "end"
        if a[0] == "param" and a[1] == 2:
            return "N"
        if a[0] in ("built", "phi") or "local:" in s:
            return "cur"
        return None
    # loop guard: continue iff end >= current; start = N + 1
    ok_guard = False
    for (b, s, fm, line) in edge_forms(fn):
        r, k, rel, bad = fm.roles(lambda a: "end" if "last_key" in show(a) else "cur")
        if rel == "<=" and r.get("end") == -1 and r.get("cur") == 1 and k == 0:
            # cur - end <= 0 : edge into the loop body must reach the delete
            reach = fn.reachable(s)
            if dels and dels[0].bb in reach:
                ok_guard = True
    R.ob(ok_guard, "GUARD", fn.where(), "GUARD|blockdb.reorg|loop", "delete loop does not run while `current <= last_key`",
         sample={"rule": "GUARD", "fn": "blockdb.reorg", "row": "cur - end <= 0 => delete"})
    # initial value of the cursor: N + 1
    init_ok = False
    for b in fn.blocks:
        for s in b["stmts"]:
            if s["k"] == "assign" and not s["lhs"].get("p"):
                t = rvalue_origin(fn, s["rv"], 0, frozenset(), 10)
                l = lin(t)
                if l.k == 1 and len(l.terms) == 1 and list(l.terms)[0][0] == "param" and list(l.terms)[0][1] == 2:
                    init_ok = True
    R.ob(init_ok, "GUARD", fn.where(), "GUARD|blockdb.reorg|start", "rollback does not start deleting at N + 1",
         sample={"rule": "GUARD", "fn": "blockdb.reorg", "row": "start = N + 1"})
