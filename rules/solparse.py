"""A small Solidity structure parser (contracts, functions, modifiers, bodies) sufficient for the SOL rules of C07.
Comments and strings are removed first; bodies are kept as text with balanced braces."""
import re


def strip_comments(src):
    src = re.sub(r"/\*.*?\*/", " ", src, flags=re.S)
    src = re.sub(r"//[^\n]*", " ", src)
    return src


def _match(src, i, open_ch, close_ch):
    depth = 0
    j = i
    while j < len(src):
        if src[j] == open_ch:
            depth += 1
        elif src[j] == close_ch:
            depth -= 1
            if depth == 0:
                return j
        j += 1
    raise ValueError("unbalanced %s" % open_ch)


def parse(src):
    """[{name, kind, bases, functions:[{name, params, attrs, body, kind}], state:[decl text]}]"""
    src = strip_comments(src)
    out = []
    for m in re.finditer(r"\b(abstract\s+contract|contract|interface|library)\s+(\w+)\s*(is\s+([^{]+))?\{", src):
        start = m.end() - 1
        end = _match(src, start, "{", "}")
        body = src[start + 1:end]
        c = {"name": m.group(2), "kind": m.group(1).split()[-1], "bases": [b.strip().split("(")[0] for b in (m.group(4) or "").split(",") if b.strip()],
             "functions": [], "state": []}
        i = 0
        while i < len(body):
            fm = re.compile(r"\b(function\s+(\w+)|constructor|modifier\s+(\w+)|receive|fallback)\s*\(").search(body, i)
            if not fm:
                c["state"].append(body[i:])
                break
            c["state"].append(body[i:fm.start()])
            p0 = fm.end() - 1
            p1 = _match(body, p0, "(", ")")
            # attributes up to '{' or ';'
            k = p1 + 1
            depth = 0
            while k < len(body) and not (body[k] in "{;" and depth == 0):
                if body[k] == "(":
                    depth += 1
                elif body[k] == ")":
                    depth -= 1
                k += 1
            attrs = body[p1 + 1:k]
            kind = "function" if fm.group(2) else ("modifier" if fm.group(3) else fm.group(1).split()[0])
            name = fm.group(2) or fm.group(3) or kind
            fbody = ""
            if k < len(body) and body[k] == "{":
                e = _match(body, k, "{", "}")
                fbody = body[k + 1:e]
                i = e + 1
            else:
                i = k + 1
            c["functions"].append({"name": name, "kind": kind, "params": body[p0 + 1:p1], "attrs": " ".join(attrs.split()), "body": fbody})
        out.append(c)
    return out


def calls(body):
    """identifiers called as functions in a body (internal calls and member calls by last name)"""
    return set(re.findall(r"\b([A-Za-z_]\w*)\s*\(", body))


def visibility(fn):
    for v in ("external", "public", "internal", "private"):
        if re.search(r"\b%s\b" % v, fn["attrs"]):
            return v
    return "public" if fn["kind"] == "function" else "internal"
