"""PAIR rules (DESIGN 4.6): open/close pairing on all normal paths."""


def unpaired_exits(fn, open_bbs, close_bbs):
    """return blocks reachable from the successors of any open block without
    passing through a close block (normal edges)."""
    close = set(close_bbs)
    bad = []
    for ob in open_bbs:
        seen = set()
        st = [s for s in fn.succ(ob)]
        while st:
            b = st.pop()
            if b in seen or b in close:
                continue
            seen.add(b)
            if fn.term(b)["k"] == "return":
                bad.append((ob, b))
                continue
            st.extend(fn.succ(b))
    return bad


def slot_windows(F, E):
    """[(fn, take blocks, swap blocks, owner)] for every body that mem::take()s a local ADT through &mut"""
    out = []
    for fn in F.body_fns():
        takes, swaps = [], []
        owner = None
        for c in fn.calls():
            if fn.is_cleanup(c.bb):
                continue
            p = c.target_path or ""
            if p.endswith("mem::take") or p.endswith("mem::replace"):
                for a in c.args:
                    if "l" in a:
                        o = E.owners(fn, a["l"])
                        if o:
                            takes.append(c.bb)
                            owner = sorted(o)[0]
            elif p.endswith("mem::swap"):
                for a in c.args:
                    if "l" in a and E.owners(fn, a["l"]):
                        swaps.append(c.bb)
        if takes:
            out.append((fn, sorted(set(takes)), sorted(set(swaps)), owner))
    return out


def window_blocks(fn, open_bbs, close_bbs):
    """blocks strictly between an open and the next close (normal + unwind edges excluded)"""
    close = set(close_bbs)
    seen = set()
    st = []
    for ob in open_bbs:
        st.extend(fn.succ(ob))
    while st:
        b = st.pop()
        if b in seen:
            continue
        seen.add(b)
        if b in close:
            continue
        st.extend(fn.succ(b))
    return seen
