"""Origin terms (backward slices) over the mini-MIR, control dependence and
small path enumeration helpers used by WIRE / GUARD / DOM rules."""
from facts import const_value


class T(tuple):
    """term: (kind, ...)"""
    __slots__ = ()


def origin(fn, op, depth=0, seen=None, maxdepth=40):
    """term describing where operand/place `op` comes from inside fn"""
    if seen is None:
        seen = frozenset()
    if depth > maxdepth:
        return ("unknown", "depth")
    k = op.get("k")
    if k == "const":
        if op.get("fn"):
            return ("fnitem", op["fn"]["path"])
        ptr = op.get("ptr")
        if ptr and ptr.get("static_name"):
            return ("static", ptr["static_name"])
        v = const_value(op)
        named = op.get("named") or op.get("enum_variant")
        if v is None and "zst" in op:
            return ("const", "()", named)
        if v is None and "indirect" in op:
            ind = op["indirect"]
            return ("const", "alloc:" + ind.get("hex", "?")[:80], named)
        if v is None and ptr is not None:
            # pointer to anonymous memory (promoted constant)
            if "str" in ptr:
                return ("const", ptr["str"], named)
            return ("const", "alloc:" + ptr.get("hex", "?")[:80], named)
        return ("const", v, named)
    # place
    l = op["l"]
    proj = op.get("p", [])
    base = local_origin(fn, l, depth, seen, maxdepth)
    t = base
    for i, e in enumerate(proj):
        if e == "*":
            if t[0] != "self_closure":
                t = ("deref", t)
        elif t[0] == "self_closure" and e[1:].isdigit():
            t = ("upvar", int(e[1:]), upvar_name(fn, int(e[1:])))
        else:
            t = ("field", t, e)
        t = simplify(t)
    return simplify(t)


def upvar_name(fn, idx):
    for u in fn.mir.get("upvars", []):
        p = u["place"]
        if p["l"] == 1 and p.get("p"):
            flds = [e for e in p["p"] if e.startswith(".")]
            if flds and flds[0] == ".%d" % idx:
                return u["name"]
    return None


def local_origin(fn, l, depth, seen, maxdepth):
    if l in seen:
        return ("loop", l)
    seen = seen | {l}
    if fn.kind in ("closure", "coroutine") and l == 1:
        return ("self_closure",)
    defs = fn.defs().get(l, [])
    whole = [d for d in defs if d[2] in ("assign", "call", "yield")]
    if 1 <= l <= fn.argc:
        if not whole:
            return ("param", l, fn.local_name(l))
        # a `mut` parameter that is reassigned: its value is the parameter or any of the assignments
        terms = [("param", l, fn.local_name(l))]
        for (bb, idx, kind, payload) in whole:
            if kind == "assign":
                terms.append(rvalue_origin(fn, payload["rv"], depth + 1, seen, maxdepth))
            elif kind == "call":
                terms.append(call_origin(fn, payload, depth + 1, seen, maxdepth))
        return ("phi", tuple(terms))
    partial = [d for d in defs if d[2] == "partial"]
    if not whole:
        if partial:
            return ("built", l, fn.local_name(l), fn.local_ty(l))
        return ("undef", l)
    terms = []
    for (bb, idx, kind, payload) in whole:
        if kind == "assign":
            terms.append(rvalue_origin(fn, payload["rv"], depth + 1, seen, maxdepth))
        elif kind == "call":
            terms.append(call_origin(fn, payload, depth + 1, seen, maxdepth))
        else:
            terms.append(("resume",))
    if len(terms) == 1:
        t0 = terms[0]
        # a struct literal whose fields are updated afterwards - directly (`x.f = ..`) or through a `&mut` handed to a method
        # read in place - is not that literal any more: origins are not flow sensitive, so a field read must stay symbolic
        # instead of resolving to the literal's initial component
        if t0[0] == "agg" and not t0[1].startswith(("closure:", "tuple", "array")) and whole[0][2] == "assign" and (partial or l in _mut_borrowed(fn)):
            return ("phi", (t0, ("built", l, fn.local_name(l), fn.local_ty(l))))
        return t0
    # dedupe
    uniq = []
    for t in terms:
        if t not in uniq:
            uniq.append(t)
    if len(uniq) == 1:
        return uniq[0]
    return ("phi", tuple(uniq))


def _mut_borrowed(fn):
    """locals of which a `&mut` (of the whole or of a field) is taken somewhere in the body"""
    mb = fn.j.get("_mut_borrowed")
    if mb is None:
        mb = set()
        for b in fn.blocks:
            if b.get("cleanup"):
                continue
            for s_ in b["stmts"]:
                if s_["k"] == "assign" and s_["rv"]["k"] == "ref" and s_["rv"].get("mut") and "*" not in s_["rv"]["place"].get("p", []):
                    mb.add(s_["rv"]["place"]["l"])
        fn.j["_mut_borrowed"] = mb
    return mb


def call_origin(fn, t, depth, seen, maxdepth):
    f = t["func"].get("fn")
    args = tuple(origin(fn, a, depth + 1, seen, maxdepth) for a in t.get("args", []))
    if f:
        res = f.get("res") or {}
        inl = _inline_self_accessor(fn, res.get("id") or f.get("id"), args, depth)
        if inl is not None:
            return inl
        inl = _inline_apply(fn, res.get("id") or f.get("id"), args, depth)
        if inl is not None:
            return inl
        return ("call", res.get("path") or f["path"], args, f.get("self_ty"), f.get("full"))
    return ("callind", origin(fn, t["func"], depth + 1, seen, maxdepth), args)


_ACCESSOR_TERMS = {}
INLINE_ACCESSORS = True


class no_inlining:
    """with terms.no_inlining(): ...  - origin terms keep calls to local accessors as calls (for rules that look for the callee)"""
    def __enter__(self):
        global INLINE_ACCESSORS
        self.prev = INLINE_ACCESSORS
        INLINE_ACCESSORS = False

    def __exit__(self, *a):
        global INLINE_ACCESSORS
        INLINE_ACCESSORS = self.prev


def _inline_self_accessor(fn, callee_id, args, depth):
    """A call to a *local method that takes nothing but `self` and has straight-line code* (a private accessor such as
    `fn latest_stored_block_number(&self) -> Option<u64> { self.cache.keys().next_back().copied() }`) is read as the
    expression it returns, with `self` substituted: extracting such an accessor, or inlining one, leaves every origin term
    unchanged.  Methods with control flow, with further parameters, trait methods and constructors are left as calls."""
    if not INLINE_ACCESSORS or callee_id is None or depth > 30:
        return None
    F = getattr(fn, "facts", None)
    if F is None:
        return None
    g = F.fns.get(callee_id)
    if g is None or not g.blocks or g.kind not in ("method", "fn") or g.j.get("trait") or g.j.get("in_trait") or g.id == fn.id:
        return None
    if g.j["mir"]["argc"] != len(args):
        return None
    self_only = g.kind == "method" and (g.j.get("param_names") or [None])[0] == "self" and g.j["mir"]["argc"] == 1
    if not self_only:
        # beyond `&self` accessors: only private, non-anchor helpers (what an extract-function refactoring creates)
        from facts import is_private_helper
        if not is_private_helper(g):
            return None
    key = g.id
    if key not in _ACCESSOR_TERMS:
        _ACCESSOR_TERMS[key] = None
        straight = all(b["term"]["k"] in ("call", "goto", "return", "drop", "assert", "unreachable", "resume", "false_edge", "false_unwind")
                       or b.get("cleanup") for b in g.blocks)
        # a value that is built by mutation through a `&mut` borrow (let mut v = Vec::new(); fill(&mut v); v) is not described by
        # its origin term: skip when the returned local itself was mutably borrowed
        mb = {st["rv"]["place"]["l"] for b in g.blocks for st in b["stmts"]
              if st["k"] == "assign" and st["rv"]["k"] == "ref" and st["rv"].get("mut") and not st["rv"]["place"].get("p")}
        root = 0
        for _ in range(8):
            ds = [d for d in g.defs().get(root, []) if d[2] == "assign"]
            if len(ds) == 1 and ds[0][3]["rv"]["k"] == "use" and "l" in ds[0][3]["rv"]["ops"][0] and not ds[0][3]["rv"]["ops"][0].get("p"):
                root = ds[0][3]["rv"]["ops"][0]["l"]
            else:
                break
        mut_borrow = root in mb or 0 in mb
        if straight and not mut_borrow and len(g.blocks) <= 12:
            rv = origin(g, {"l": 0, "k": "copy"}, 0, None, 30)
            if rv[0] not in ("unknown", "phi", "loop"):
                _ACCESSOR_TERMS[key] = rv
    rv = _ACCESSOR_TERMS[key]
    if rv is None:
        return None
    return subst_params(rv, args)


def rvalue_origin(fn, rv, depth, seen, maxdepth):
    k = rv["k"]
    if k == "use":
        return origin(fn, rv["ops"][0], depth, seen, maxdepth)
    if k == "cast":
        return ("cast", origin(fn, rv["ops"][0], depth, seen, maxdepth), rv.get("ty"))
    if k == "ref" or k == "rawptr":
        return ("ref", origin(fn, dict(rv["place"], k="copy"), depth, seen, maxdepth))
    if k == "bin":
        return ("bin", rv["op"], origin(fn, rv["ops"][0], depth, seen, maxdepth),
                origin(fn, rv["ops"][1], depth, seen, maxdepth))
    if k == "un":
        return ("un", rv["op"], origin(fn, rv["ops"][0], depth, seen, maxdepth))
    if k == "discr":
        return ("discr", origin(fn, dict(rv["place"], k="copy"), depth, seen, maxdepth), rv.get("ty"),
                tuple((v["name"], v["val"]) for v in rv.get("variants", [])))
    if k == "agg":
        name = rv.get("adt") or rv.get("agg")
        if rv.get("agg") == "adt":
            name = "%s::%s" % (rv["adt"], rv["variant"])
        elif rv.get("agg") in ("closure", "coroutine", "coroutine_closure"):
            name = "closure:" + rv["def"]
        return ("agg", name, tuple(origin(fn, o, depth, seen, maxdepth) for o in rv.get("ops", [])),
                tuple(rv.get("fields", [])))
    if k == "repeat":
        return ("repeat", origin(fn, rv["ops"][0], depth, seen, maxdepth), rv.get("n"))
    return ("unknown", rv.get("dbg", k))


_APPLY_TERMS = {}


def subst_upvars(t, caps):
    """replace ('upvar', i, name) leaves of a closure-body term by the captured operand terms of its creation site"""
    if not isinstance(t, tuple):
        return t
    if t and t[0] == "upvar" and isinstance(t[1], int) and 0 <= t[1] < len(caps):
        c = caps[t[1]]
        return c
    return tuple(subst_upvars(x, caps) if isinstance(x, tuple) else x for x in t)


def _inline_apply(fn, callee_id, args, depth):
    """`x.read_fn(|info| Ok((info.a, info.b)))`: a local function whose result is *the result of calling its closure parameter*
    (an apply / with-lock combinator) handed a straight-line closure literal is read as the closure's returned expression, with
    the closure's parameters bound to what the combinator passes and its captures to the captured operands.  So reading two
    fields in one `read_fn` gives the same origin terms as two separate `read()`s."""
    if not INLINE_ACCESSORS or callee_id is None or depth > 30:
        return None
    F = getattr(fn, "facts", None)
    if F is None:
        return None
    g = F.fns.get(callee_id)
    if g is None or not g.blocks or g.kind not in ("method", "fn") or g.j.get("trait") or g.id == fn.id or g.j["mir"]["argc"] != len(args):
        return None
    cl_args = [(i, a) for i, a in enumerate(args) if a[0] == "agg" and isinstance(a[1], str) and a[1].startswith("closure:")]
    if len(cl_args) != 1:
        return None
    key = g.id
    if key not in _APPLY_TERMS:
        _APPLY_TERMS[key] = None
        # the one non-cleanup call that writes the return place must be FnOnce/FnMut/Fn::call* on a parameter
        rets = [b["term"] for b in g.blocks if not b.get("cleanup") and b["term"]["k"] == "call" and b["term"]["dest"]["l"] == 0 and not b["term"]["dest"].get("p")]
        other = [s_ for b in g.blocks if not b.get("cleanup") for s_ in b["stmts"] if s_["k"] == "assign" and s_["lhs"]["l"] == 0]
        if len(rets) == 1 and not other:
            tf = rets[0]["func"].get("fn") or {}
            if (tf.get("trait") or "") in ("std::ops::FnOnce", "std::ops::FnMut", "std::ops::Fn") and len(rets[0].get("args", [])) == 2:
                with no_inlining():
                    who = origin(g, rets[0]["args"][0], 0, None, 20)
                    what = origin(g, rets[0]["args"][1], 0, None, 20)
                while who[0] in ("ref", "deref", "cast"):
                    who = who[1]
                if who[0] == "param" and what[0] == "agg" and what[1] == "tuple":
                    _APPLY_TERMS[key] = (who[1], what[2])
    spec = _APPLY_TERMS[key]
    if spec is None:
        return None
    k, passed = spec
    if k - 1 != cl_args[0][0]:
        return None
    clo = cl_args[0][1]
    cg = F.fns.get(clo[1][len("closure:"):])
    if cg is None or not cg.blocks or len(cg.blocks) > 12:
        return None
    if not all(b["term"]["k"] in ("call", "goto", "return", "drop", "assert", "unreachable", "resume", "false_edge", "false_unwind") or b.get("cleanup") for b in cg.blocks):
        return None
    rv = origin(cg, {"l": 0, "k": "copy"}, 0, None, 30)
    if rv[0] in ("unknown", "phi", "loop"):
        return None
    # closure parameters: _1 = the closure itself, _2.. = what the combinator passes (in the combinator's own terms, whose
    # parameters are then bound to this call site's arguments)
    passed_here = tuple(subst_params(x, args) for x in passed)
    rv = subst_params(rv, (("self_closure",),) + passed_here)
    return subst_upvars(rv, clo[2])


def simplify(t):
    # `x?` of a literally built Ok(v) (an inlined helper or closure result) -> v
    if t[0] == "field" and t[2] == ".0" and t[1][0] == "field" and "Continue" in t[1][2] and t[1][1][0] == "call" \
            and t[1][1][1].endswith("::branch") and t[1][1][2] and t[1][1][2][0][0] == "agg" and t[1][1][2][0][1].endswith("Result::Ok") and t[1][1][2][0][2]:
        return t[1][1][2][0][2][0]
    # field of aggregate -> the operand
    if t[0] == "field" and t[1][0] == "agg":
        agg = t[1]
        fld = t[2][1:]
        fields = agg[3]
        ops = agg[2]
        if fld in fields:
            i = fields.index(fld)
            if i < len(ops):
                return ops[i]
        elif fld.isdigit() and int(fld) < len(ops) and not fields:
            return ops[int(fld)]
    if t[0] == "deref" and t[1][0] == "ref":
        return t[1][1]
    # field of a phi of aggregates (`let (a, b) = if c { (x, y) } else { (u, v) };`) -> phi of that field
    if t[0] == "field" and t[1][0] == "phi" and t[1][1] and all(x[0] == "agg" for x in t[1][1]):
        alts = tuple(simplify(("field", x, t[2])) for x in t[1][1])
        if all(not (a[0] == "field" and a[1][0] == "agg") for a in alts):
            return ("phi", alts)
    return t


def leaves(t, out=None):
    """set of leaf descriptors of a term: params, consts, statics, calls (by path)"""
    if out is None:
        out = set()
    k = t[0]
    if k == "param":
        out.add(("param", t[2] or t[1]))
    elif k == "const":
        out.add(("const", t[2] if len(t) > 2 and t[2] else repr(t[1])))
    elif k == "static":
        out.add(("static", t[1]))
    elif k == "fnitem":
        out.add(("fnitem", t[1]))
    elif k == "call":
        out.add(("call", t[1]))
        for a in t[2]:
            leaves(a, out)
    elif k == "callind":
        leaves(t[1], out)
        for a in t[2]:
            leaves(a, out)
    elif k in ("cast", "ref", "deref", "discr", "repeat"):
        leaves(t[1], out)
    elif k == "field":
        leaves(t[1], out)
    elif k == "bin":
        leaves(t[2], out)
        leaves(t[3], out)
    elif k == "un":
        leaves(t[2], out)
    elif k == "agg":
        for a in t[2]:
            leaves(a, out)
    elif k == "phi":
        for a in t[1]:
            leaves(a, out)
    elif k in ("self_closure",):
        out.add(("upvars",))
    elif k == "upvar":
        out.add(("upvar", t[2] or t[1]))
    elif k == "built":
        out.add(("built", t[2] or t[1]))
    else:
        out.add((k,))
    return out


def calls_in(t, out=None):
    """list of call terms inside t (pre-order)"""
    if out is None:
        out = []
    k = t[0]
    if k == "call":
        out.append(t)
        for a in t[2]:
            calls_in(a, out)
    elif k == "callind":
        for a in t[2]:
            calls_in(a, out)
    elif k in ("cast", "ref", "deref", "discr", "repeat", "field", "captured"):
        calls_in(t[1], out)
    elif k == "bin":
        calls_in(t[2], out)
        calls_in(t[3], out)
    elif k == "un":
        calls_in(t[2], out)
    elif k == "agg":
        for a in t[2]:
            calls_in(a, out)
    elif k == "phi":
        for a in t[1]:
            calls_in(a, out)
    return out


def show(t, depth=0):
    if depth > 8:
        return "…"
    k = t[0]
    if k == "param":
        return "param:%s" % (t[2] or t[1])
    if k == "const":
        if len(t) > 2 and t[2]:
            return "%s(=%r)" % (t[2].split("::")[-1], t[1])
        return repr(t[1])
    if k == "static":
        return "static:" + t[1].split("::")[-1]
    if k == "fnitem":
        return "fn:" + t[1]
    if k == "call":
        return "%s(%s)" % (short_path(t[1]), ", ".join(show(a, depth + 1) for a in t[2]))
    if k == "callind":
        return "(*%s)(%s)" % (show(t[1], depth + 1), ", ".join(show(a, depth + 1) for a in t[2]))
    if k == "cast":
        return show(t[1], depth)
    if k == "ref":
        return "&" + show(t[1], depth + 1)
    if k == "deref":
        return "*" + show(t[1], depth + 1)
    if k == "field":
        return "%s%s" % (show(t[1], depth + 1), t[2])
    if k == "bin":
        return "(%s %s %s)" % (show(t[2], depth + 1), t[1], show(t[3], depth + 1))
    if k == "un":
        return "%s(%s)" % (t[1], show(t[2], depth + 1))
    if k == "discr":
        return "discr(%s)" % show(t[1], depth + 1)
    if k == "agg":
        return "%s{%s}" % (short_path(t[1]), ", ".join(show(a, depth + 1) for a in t[2]))
    if k == "phi":
        return "phi(%s)" % " | ".join(show(a, depth + 1) for a in t[1])
    if k == "captured":
        return "cap(%s)" % show(t[1], depth + 1)
    if k == "self_closure":
        return "upvars"
    if k == "upvar":
        return "upvar:%s" % (t[2] or t[1])
    if k == "built":
        return "local:%s" % (t[2] or t[1])
    return k


def short_path(p):
    import re
    p = re.sub(r"<[^<>]*>", "", p)
    p = re.sub(r"<[^<>]*>", "", p)
    parts = [x for x in p.split("::") if x]
    return "::".join(parts[-2:]) if len(parts) >= 2 else p


# ---------------------------------------------------------------------------
# control dependence

def control_deps(fn):
    """bb -> set of (switch bb, successor taken) the block is control dependent on"""
    pdom = fn.postdominators()
    succs = fn.succs()
    out = {b: set() for b in range(len(fn.blocks))}
    for a in range(len(fn.blocks)):
        if len(succs[a]) < 2:
            continue
        for s in succs[a]:
            # nodes that postdominate s but not a (strictly)
            ps = pdom.get(s, set())
            pa = pdom.get(a, set()) - {a}
            for b in ps:
                if b not in pa:
                    out[b].add((a, s))
    return out


def switch_cond(fn, bb):
    """(term of discriminant, {target bb: [values]}, otherwise bb) of the switch ending bb"""
    t = fn.term(bb)
    if t["k"] != "switch":
        return None
    term = origin(fn, t["discr"])
    m = {}
    for v, tb in t["targets"]:
        m.setdefault(tb, []).append(v)
    return term, m, t["otherwise"]


def edge_value(fn, a, s):
    """values of the discriminant on edge a->s: list of ints, or ('not', [ints]) for otherwise"""
    t = fn.term(a)
    if t["k"] != "switch":
        return None
    vals = [v for v, tb in t["targets"] if tb == s]
    if vals:
        return vals
    if t["otherwise"] == s:
        return ("not", [v for v, tb in t["targets"]])
    return None


def bool_edge(fn, a, s):
    """for a switch on a bool-like discriminant: (term, truth) where truth is the
    value of `term` on edge a->s, with Not() peeled.  None if not boolean."""
    t = fn.term(a)
    if t["k"] != "switch":
        return None
    term = origin(fn, t["discr"])
    ev = edge_value(fn, a, s)
    if ev is None:
        return None
    if isinstance(ev, tuple):
        # otherwise-edge of a switch with explicit 0 => true
        if ev[1] == [0]:
            truth = True
        else:
            return (term, None)
    else:
        if ev == [0]:
            truth = False
        elif ev == [1]:
            truth = True
        else:
            return (term, None)
    while term[0] == "un" and term[1] == "Not":
        term = term[2]
        truth = not truth
    return (term, truth)


def enumerate_paths(fn, start=0, limit=4000):
    """all acyclic normal paths from start to return blocks (small bodies only)"""
    out = []
    succs = fn.succs()
    stack = [(start, [start])]
    while stack:
        b, path = stack.pop()
        if fn.term(b)["k"] == "return":
            out.append(path)
            if len(out) > limit:
                raise RuntimeError("too many paths in %s" % fn.name)
            continue
        for s in succs[b]:
            if s in path:
                continue
            stack.append((s, path + [s]))
    return out


def reachable_without_edges(fn, removed, start=0):
    """blocks reachable from start when the given (a, s) edges are deleted"""
    removed = set(removed)
    seen = {start}
    st = [start]
    while st:
        b = st.pop()
        for s in fn.succ(b):
            if (b, s) in removed or s in seen:
                continue
            seen.add(s)
            st.append(s)
    return seen


def bool_fn_table(fn):
    """For a small, loop-free function returning bool: list of (atoms, value) per path, where
    atoms = tuple of (term string, truth) for each boolean switch passed and value is
    True/False/('atom', term string, polarity)."""
    rows = []
    for path in enumerate_paths(fn):
        atoms = []
        val = None
        for i, b in enumerate(path):
            for s in fn.blocks[b]["stmts"]:
                if s["k"] == "assign" and s["lhs"]["l"] == 0 and not s["lhs"].get("p"):
                    t = rvalue_origin(fn, s["rv"], 0, frozenset(), 40)
                    pol = True
                    while t[0] == "un" and t[1] == "Not":
                        t = t[2]
                        pol = not pol
                    if t[0] == "const":
                        val = bool(t[1]) if pol else (not bool(t[1]))
                    else:
                        val = ("atom", show(t), pol)
            tm = fn.term(b)
            if tm["k"] == "call" and tm["dest"]["l"] == 0 and not tm["dest"].get("p"):
                val = ("atom", show(call_origin(fn, tm, 0, frozenset(), 40)), True)
            if tm["k"] == "switch" and i + 1 < len(path):
                be = bool_edge(fn, b, path[i + 1])
                if be and be[1] is not None:
                    atoms.append((show(be[0]), be[1]))
                else:
                    atoms.append(("?" + show(origin(fn, tm["discr"])), None))
        rows.append((tuple(atoms), val))
    return rows


def eval_bool_table(rows, assignment):
    """value of the function under an assignment {atom string: bool}; None if undetermined"""
    for atoms, val in rows:
        ok = True
        for (a, truth) in atoms:
            if truth is None or a not in assignment or assignment[a] != truth:
                ok = False
                break
        if ok:
            if isinstance(val, tuple):
                if val[1] not in assignment:
                    return None
                v = assignment[val[1]]
                return v if val[2] else (not v)
            return val
    return None


def mentions(t, needle):
    """does the (untruncated) term mention `needle` in a call path, field, static, named const or param name"""
    k = t[0]
    if k == "call":
        if needle in t[1] or (t[4] and needle in t[4]):
            return True
        return any(mentions(a, needle) for a in t[2])
    if k == "callind":
        return mentions(t[1], needle) or any(mentions(a, needle) for a in t[2])
    if k == "field":
        return needle in t[2] or mentions(t[1], needle)
    if k in ("cast", "ref", "deref", "discr", "repeat", "captured"):
        return mentions(t[1], needle)
    if k == "bin":
        return mentions(t[2], needle) or mentions(t[3], needle)
    if k == "un":
        return mentions(t[2], needle)
    if k == "agg":
        return needle in t[1] or any(mentions(a, needle) for a in t[2])
    if k == "phi":
        return any(mentions(a, needle) for a in t[1])
    if k == "static":
        return needle in t[1]
    if k == "const":
        return (len(t) > 2 and t[2] and needle in t[2]) or (isinstance(t[1], str) and needle in t[1])
    if k in ("param", "upvar"):
        return bool(t[2]) and needle in t[2]
    if k == "fnitem":
        return needle in t[1]
    if k == "built":
        return bool(t[2]) and needle in t[2]
    return False


def subterms(t):
    """every sub-term of t, t included (pre-order)"""
    yield t
    k = t[0]
    kids = ()
    if k == "call":
        kids = t[2]
    elif k == "callind":
        kids = (t[1],) + tuple(t[2])
    elif k in ("cast", "ref", "deref", "discr", "repeat", "field", "captured"):
        kids = (t[1],)
    elif k == "bin":
        kids = (t[2], t[3])
    elif k == "un":
        kids = (t[2],)
    elif k == "agg":
        kids = t[2]
    elif k == "phi":
        kids = t[1]
    for c in kids:
        if isinstance(c, tuple) and c:
            yield from subterms(c)


def contains(t, sub):
    return any(x == sub for x in subterms(t))


def place_root(fn, op):
    """(local, projection) an operand ultimately copies: follows single-definition `_a = use(place)` chains (moves / copies of
    a place, possibly a field of a tuple) and accumulates the projection; stops at anything computed"""
    proj = list(op.get("p", [])) if isinstance(op, dict) else []
    seen = set()
    while isinstance(op, dict) and "l" in op and op["l"] not in seen:
        seen.add(op["l"])
        ds = [d for d in fn.defs().get(op["l"], []) if not fn.is_cleanup(d[0]) and d[2] in ("assign", "call")]
        if len(ds) != 1 or ds[0][2] != "assign":
            break
        rv = ds[0][3]["rv"]
        src = None
        if rv["k"] == "use" and "l" in rv["ops"][0]:
            src = rv["ops"][0]
        elif rv["k"] == "ref" and rv.get("place") is not None and not [e for e in proj if e != "*"]:
            src = rv["place"]          # `&x.1`: the place behind a reference handed on unchanged
        if src is None:
            break
        proj = list(src.get("p", [])) + proj
        op = {"l": src["l"]}
    return (op.get("l") if isinstance(op, dict) else None), [e for e in proj if e != "*"]


def paired_alternatives(fn, op_a, op_b):
    """[(a_i, b_i)] origin terms of two operands taken together: when both are fields of one tuple local assigned in several
    branches (`let (m, p) = if .. {(0, x)} else {(1, y)}`) the alternatives are paired branch by branch; otherwise one pair"""
    la, pa = place_root(fn, op_a)
    lb, pb = place_root(fn, op_b)
    if la is not None and la == lb and len(pa) == 1 and len(pb) == 1 and pa != pb and pa[0][1:].isdigit() and pb[0][1:].isdigit():
        t = local_origin(fn, la, 0, frozenset(), 40)
        alts = t[1] if t[0] == "phi" else (t,)
        if alts and all(x[0] == "agg" and len(x[2]) > max(int(pa[0][1:]), int(pb[0][1:])) for x in alts):
            return [(simplify(x[2][int(pa[0][1:])]), simplify(x[2][int(pb[0][1:])])) for x in alts]
    return [(origin(fn, op_a), origin(fn, op_b))]


TOP = "?"


def forced_result(fn, start, target_local=0):
    """set of constant values `target_local` (default: the return place) can hold at the returns reachable from block `start`,
    by forward constant/copy propagation over the sub-graph entered at `start` with nothing known on entry; TOP ("?") stands for
    any value that is not a compile-time constant on that path.  `{False}` means: once control is at `start`, the function can
    only return false."""
    n = len(fn.blocks)
    state = {start: {}}
    work = [start]
    seen_iter = 0
    while work and seen_iter < 20000:
        seen_iter += 1
        b = work.pop()
        st = dict(state[b])
        blk = fn.blocks[b]
        for s_ in blk["stmts"]:
            if s_["k"] != "assign":
                continue
            lhs = s_["lhs"]
            if lhs.get("p"):
                st[lhs["l"]] = frozenset([TOP])
                continue
            rv = s_["rv"]
            val = frozenset([TOP])
            if rv["k"] == "use" and rv.get("ops"):
                o = rv["ops"][0]
                if o.get("k") == "const" and "v" in o:
                    val = frozenset([o["v"]])
                elif "l" in o and not o.get("p"):
                    val = st.get(o["l"], frozenset([TOP]))
            st[lhs["l"]] = val
        t = blk["term"]
        if t["k"] == "call":
            st[t["dest"]["l"]] = frozenset([TOP])
        for sx in fn.succ(b):
            if fn.is_cleanup(sx):
                continue
            old = state.get(sx)
            if old is None:
                state[sx] = dict(st)
                work.append(sx)
            else:
                changed = False
                for l in set(old) | set(st):
                    a, c = old.get(l, frozenset([TOP])), st.get(l, frozenset([TOP]))
                    u = a | c
                    if u != a or l not in old:
                        old[l] = u
                        changed = True
                if changed:
                    work.append(sx)
    out = set()
    for rb in fn.return_blocks():
        if rb in state:
            # the state *after* the return block's own statements
            st = dict(state[rb])
            for s_ in fn.blocks[rb]["stmts"]:
                if s_["k"] == "assign" and not s_["lhs"].get("p"):
                    rv = s_["rv"]
                    val = frozenset([TOP])
                    if rv["k"] == "use" and rv.get("ops"):
                        o = rv["ops"][0]
                        if o.get("k") == "const" and "v" in o:
                            val = frozenset([o["v"]])
                        elif "l" in o and not o.get("p"):
                            val = st.get(o["l"], frozenset([TOP]))
                    st[s_["lhs"]["l"]] = val
            out |= set(st.get(target_local, frozenset([TOP])))
    return out


def variant_chains(fn, start, target_local=0, at=None):
    """set of variant chains the return place can hold at the returns reachable from block `start`: ("Ok", "Some"),
    ("None",), ... (outermost first, as deep as the constructors are written in this body); ("?",) for a value that is not
    built by an enum constructor on that path.  Forward propagation over the sub-graph entered at `start`."""
    UNK = frozenset([("?",)])

    def transfer(st, blk):
        for s_ in blk["stmts"]:
            if s_["k"] != "assign" or s_["lhs"].get("p"):
                if s_["k"] == "assign":
                    st[s_["lhs"]["l"]] = UNK
                continue
            rv = s_["rv"]
            val = UNK
            if rv["k"] == "use" and rv.get("ops") and "l" in rv["ops"][0] and not rv["ops"][0].get("p"):
                val = st.get(rv["ops"][0]["l"], UNK)
            elif rv["k"] == "agg" and rv.get("agg") == "adt" and rv.get("variant"):
                inner = None
                ops = rv.get("ops", [])
                if len(ops) == 1 and "l" in ops[0] and not ops[0].get("p"):
                    inner = st.get(ops[0]["l"])
                if inner and inner != UNK:
                    val = frozenset((rv["variant"],) + ch for ch in inner)
                else:
                    val = frozenset([(rv["variant"],)])
            st[s_["lhs"]["l"]] = val
        t = blk["term"]
        if t["k"] == "call":
            st[t["dest"]["l"]] = UNK
        return st
    state = {start: {}}
    work = [start]
    n = 0
    while work and n < 20000:
        n += 1
        b = work.pop()
        st = transfer(dict(state[b]), fn.blocks[b])
        for sx in fn.succ(b):
            if fn.is_cleanup(sx):
                continue
            old = state.get(sx)
            if old is None:
                state[sx] = dict(st)
                work.append(sx)
            else:
                changed = False
                for l in set(old) | set(st):
                    u = old.get(l, UNK) | st.get(l, UNK) if (l in old and l in st) else UNK
                    if old.get(l) != u:
                        old[l] = u
                        changed = True
                if changed:
                    work.append(sx)
    if at is not None:
        # what the local can hold on entry to block `at` (empty set: `at` is not reachable from `start`)
        return set(state[at].get(target_local, UNK)) if at in state else set()
    out = set()
    for rb in fn.return_blocks():
        if rb in state:
            st = transfer(dict(state[rb]), fn.blocks[rb])
            out |= set(st.get(target_local, UNK))
    return out


def false_forces_false(fn, call):
    """a bool-valued call's result is used monotonically for the function's own bool result: every use of it (through plain
    copies) is either handed on towards the return place, or a branch whose `false` edge can only return false.  Returns
    (ok, reason)"""
    locs = {call.t["dest"]["l"]}
    changed = True
    used = False
    while changed:
        changed = False
        for bi, b in enumerate(fn.blocks):
            if b.get("cleanup"):
                continue
            for s_ in b["stmts"]:
                if s_["k"] != "assign":
                    continue
                rv = s_["rv"]
                ops = [o for o in rv.get("ops", []) if isinstance(o, dict)]
                if any(o.get("l") in locs and not o.get("p") for o in ops):
                    if rv["k"] == "use" and not s_["lhs"].get("p"):
                        if s_["lhs"]["l"] not in locs:
                            locs.add(s_["lhs"]["l"])
                            changed = True
                    else:
                        return False, "the result is transformed (%s) before it is used" % rv["k"]
    if 0 in locs:
        used = True
    for bi, b in enumerate(fn.blocks):
        if b.get("cleanup"):
            continue
        t = b["term"]
        if t["k"] == "switch" and t["discr"].get("l") in locs:
            used = True
            false_t = [tb for (v, tb) in t.get("targets", []) if v == 0]
            if not false_t:
                return False, "no false edge"
            fr = forced_result(fn, false_t[0])
            if fr != {False}:
                return False, "its false edge can return %s" % sorted(str(x) for x in fr)
        if t["k"] == "call" and any(isinstance(a, dict) and a.get("l") in locs for a in t.get("args", [])):
            return False, "the result is passed to %s" % ((t["func"].get("fn") or {}).get("path") or "?").split("::")[-1]
    return (used, None if used else "the result is not used")


def eval_term(t, env_of):
    """value of a term over a small finite abstraction: `env_of(term)` gives 'Some' / 'None' (for an Option-valued leaf the
    rule names), True / False, an int, or None for unknown.  Understands is_some / is_none / discriminants of such leaves,
    bool -> integer conversions, integer arithmetic and comparisons, negation, constants.  None = not decidable here."""
    v = env_of(t)
    if v is not None:
        return v
    k = t[0]
    if k in ("ref", "deref", "cast"):
        return eval_term(t[1], env_of)
    if k == "const":
        return t[1] if isinstance(t[1], (bool, int)) else None
    if k == "call":
        m = t[1].split("::")[-1]
        if m in ("is_some", "is_none") and t[2]:
            x = eval_term(t[2][0], env_of)
            if x in ("Some", "None"):
                return (x == "Some") == (m == "is_some")
            return None
        if m in ("from", "into") and len(t[2]) == 1:
            x = eval_term(t[2][0], env_of)
            if isinstance(x, bool):
                return int(x)
            if isinstance(x, int):
                return x
            return None
        if m in ("as_ref", "as_deref", "as_mut") and t[2]:
            x = eval_term(t[2][0], env_of)
            return x if x in ("Some", "None") else None
        return None
    if k == "discr":
        x = eval_term(t[1], env_of)
        if isinstance(x, str) and len(t) > 3 and t[3]:
            # 'Some' / 'None', or any other variant name the environment gives for an enum-valued leaf
            for (n, val) in t[3]:
                if n == x:
                    return val
        return None
    if k == "un":
        x = eval_term(t[2], env_of)
        if t[1] == "Not" and isinstance(x, bool):
            return not x
        return None
    if k == "field":
        b = t[1]
        if b[0] == "bin" and b[1].endswith("WithOverflow"):
            if t[2] == ".1":
                return False
            if t[2] == ".0":
                return eval_term(("bin", b[1].replace("WithOverflow", ""), b[2], b[3]), env_of)
        return None
    if k == "bin":
        a, b = eval_term(t[2], env_of), eval_term(t[3], env_of)
        if a is None or b is None or a in ("Some", "None") or b in ("Some", "None"):
            return None
        op = t[1].replace("WithOverflow", "").replace("Unchecked", "")
        try:
            return {"Add": lambda: a + b, "Sub": lambda: a - b, "Mul": lambda: a * b, "Eq": lambda: a == b, "Ne": lambda: a != b,
                    "Lt": lambda: a < b, "Le": lambda: a <= b, "Gt": lambda: a > b, "Ge": lambda: a >= b,
                    "BitAnd": lambda: a & b, "BitOr": lambda: a | b, "BitXor": lambda: a ^ b}[op]()
        except KeyError:
            return None
    return None


def _apply_closure(fn, t, env_of, depth_guard):
    """the single definite variant (`('V', name, (None,))`) a closure handed to `x.and_then(closure)` returns under env_of, or None"""
    if depth_guard[0] >= 2:
        return None
    a0 = origin(fn, t["args"][0])
    cids = closures_in_term(origin(fn, t["args"][1]))
    if len(cids) != 1:
        return None
    cl = fn.facts.fns.get(cids[0])
    if cl is None:
        return None
    ct = origin(fn, t["args"][1])
    while ct[0] in ("ref", "deref", "cast"):
        ct = ct[1]
    caps = list(ct[2]) if ct[0] == "agg" else []
    payload = ("field", ("field", a0, "as Ok"), ".0")

    def env2(tt):
        tt2 = subst_upvars(tt, caps) if caps else tt
        tt2 = subst_params(tt2, [("self_closure",), payload])
        return env_of(tt2)
    saved = (getattr(explore_under, "captured", None), getattr(explore_under, "returned", None), getattr(explore_under, "undecided", None))
    depth_guard[0] += 1
    try:
        explore_under(cl, env2, limit=2000)
        rets = [st.get(0) for (_b, st) in explore_under.returned]
    finally:
        depth_guard[0] -= 1
        explore_under.captured, explore_under.returned, explore_under.undecided = saved
    names = {r[1] if isinstance(r, tuple) and r[0] == "V" else None for r in rets}
    if len(names) == 1 and None not in names:
        return ("V", names.pop(), (None,))
    return None


def explore_under(fn, env_of, limit=4000, avoid=(), capture=(), reset_at=()):
    """(return blocks reached, blocks visited) by abstract execution from the entry: values of locals are tracked *along the
    path* (constants, plain copies, and whatever `eval_term` decides for a right-hand side or a call result under the
    environment), every switch whose discriminant is thereby decided takes only the decided edge, an undecided switch forks.
    For loop-free bodies (a visited (block, state) pair is not re-entered)."""
    out, visited = set(), set()
    seen_states = set()
    undecided = set()
    captured = []
    returned = []
    depth_guard = getattr(explore_under, "_depth", None)
    if depth_guard is None:
        depth_guard = explore_under._depth = [0]
    stack = [(0, {})]
    n = 0

    def val_of(op, st):
        if not isinstance(op, dict):
            return None
        if "l" in op and op.get("p") == ["*"] and op["l"] in st:
            return st[op["l"]]
        if op.get("k") == "const":
            v = op.get("v")
            return v if isinstance(v, (bool, int)) else None
        if "l" in op and not op.get("p") and op["l"] in st:
            return st[op["l"]]
        if "l" in op and op["l"] in st and isinstance(st[op["l"]], tuple) and st[op["l"]][0] == "V":
            # payload of a tracked constant aggregate: `(x as Variant).N`
            pr = [e for e in op.get("p", []) if e != "*"]
            ag = st[op["l"]]
            if len(pr) == 2 and isinstance(pr[0], str) and pr[0] == "as " + ag[1] and isinstance(pr[1], str) and pr[1][1:].isdigit() and int(pr[1][1:]) < len(ag[2]):
                return ag[2][int(pr[1][1:])]
            return None
        v = eval_term(origin(fn, op), env_of)
        return v
    while stack and n < limit:
        n += 1
        b, st = stack.pop()
        if fn.is_cleanup(b) or b in avoid:
            continue
        key = (b, tuple(sorted(((str(k), repr(v)) for k, v in st.items()))))
        if key in seen_states:
            continue
        seen_states.add(key)
        visited.add(b)
        if b in capture:
            captured.append((b, dict(st)))
        st = dict(st)
        if b in reset_at:
            st.pop("__ev", None)
        _fired = getattr(env_of, "fired", None)
        for s_ in fn.blocks[b]["stmts"]:
            if s_["k"] != "assign" or s_["lhs"].get("p"):
                continue
            rv = s_["rv"]
            v = None
            if rv["k"] == "use" and rv.get("ops"):
                v = val_of(rv["ops"][0], st)
            elif rv["k"] == "agg" and rv.get("agg") == "adt" and rv.get("variant") and len(rv.get("ops", [])) <= 2:
                # an enum value built from constants (`Ok(false)`) is followed to the match that takes it apart again
                v = ("V", rv["variant"], tuple(val_of(o_, st) for o_ in rv.get("ops", [])))
            elif rv["k"] == "discr" and "l" in rv.get("place", {}) and not rv["place"].get("p") and isinstance(st.get(rv["place"]["l"]), tuple):
                v = None
                for vv in rv.get("variants", []):
                    if vv["name"] == st[rv["place"]["l"]][1]:
                        v = vv["val"]
            else:
                v = eval_term(rvalue_origin(fn, rv, 0, frozenset(), 40), env_of)
                if v is None and rv["k"] == "discr" and "l" in rv.get("place", {}) and not rv["place"].get("p") and st.get(rv["place"]["l"]) in ("Some", "None"):
                    for vv in rv.get("variants", []):
                        if vv["name"] == st[rv["place"]["l"]]:
                            v = vv["val"]
                if v is None and rv["k"] == "ref" and "l" in rv.get("place", {}) and not rv["place"].get("p") and rv["place"]["l"] in st:
                    v = st[rv["place"]["l"]]        # a reference to a tracked value reads as the value
                if v is None and rv["k"] == "un" and rv.get("op") == "Not" and rv.get("ops"):
                    x = val_of(rv["ops"][0], st)
                    v = (not x) if isinstance(x, bool) else None
            if v is None:
                st.pop(s_["lhs"]["l"], None)
            else:
                st[s_["lhs"]["l"]] = v
        t = fn.term(b)
        if _fired is not None and env_of.fired:
            # the environment decided one of its key tests while this block was evaluated: remembered along the path
            st["__ev"] = True
            env_of.fired = False
        if t["k"] == "return":
            out.add(b)
            returned.append((b, dict(st)))
            continue
        if t["k"] == "call":
            v = eval_term(call_origin(fn, t, 0, frozenset(), 40), env_of)
            if v is None:
                # std semantics on values tracked along this path
                fnm = ((t["func"].get("fn") or {}).get("path") or "").split("::")[-1]
                av = [val_of(a_, st) for a_ in t.get("args", [])]
                if fnm in ("then", "then_some") and av and isinstance(av[0], bool):
                    v = "Some" if av[0] else "None"
                elif fnm in ("is_some", "is_none") and av and av[0] in ("Some", "None"):
                    v = (av[0] == "Some") == (fnm == "is_some")
                elif fnm == "not" and av and isinstance(av[0], bool):
                    v = not av[0]
                elif fnm in ("ok_or", "ok_or_else") and av and av[0] in ("Some", "None"):
                    v = ("V", "Ok", (None,)) if av[0] == "Some" else ("V", "Err", (None,))
                elif fnm in ("ok_or", "ok_or_else") and av and isinstance(av[0], tuple) and av[0][0] == "V" and av[0][1] in ("Some", "None"):
                    v = ("V", "Ok", av[0][2]) if av[0][1] == "Some" else ("V", "Err", (None,))
                elif fnm in ("map_err", "or_else", "inspect_err") and av and isinstance(av[0], tuple) and av[0][0] == "V" and av[0][1] == "Ok":
                    v = av[0]
                elif fnm in ("map_err",) and av and isinstance(av[0], tuple) and av[0][0] == "V" and av[0][1] == "Err":
                    v = ("V", "Err", (None,))
                elif fnm in ("map", "and_then", "inspect") and av and isinstance(av[0], tuple) and av[0][0] == "V" and av[0][1] in ("Err", "None"):
                    v = av[0]
                elif fnm == "map" and av and isinstance(av[0], tuple) and av[0][0] == "V" and av[0][1] in ("Ok", "Some"):
                    v = ("V", av[0][1], (None,))
                elif fnm == "and_then" and len(av) == 2 and isinstance(av[0], tuple) and av[0][0] == "V" and av[0][1] in ("Ok", "Some"):
                    # the closure decides: run it under the same environment, its parameter bound to the payload
                    v = _apply_closure(fn, t, env_of, depth_guard)
                elif fnm == "from_residual":
                    # the value `?` returns early with: an Err / None - never one that a later `?` lets through
                    v = ("V", "Err", (None,))
                elif fnm == "branch" and av and isinstance(av[0], tuple) and av[0][0] == "V":
                    # `?` on a tracked Result / Option
                    v = ("V", "Continue", av[0][2]) if av[0][1] in ("Ok", "Some") else ("V", "Break", (None,))
            if v is None:
                st.pop(t["dest"]["l"], None)
            else:
                st[t["dest"]["l"]] = v
            if _fired is not None and env_of.fired:
                st["__ev"] = True
                env_of.fired = False
        if t["k"] == "switch":
            v = val_of(t["discr"], st)
            if _fired is not None and env_of.fired:
                st["__ev"] = True
                env_of.fired = False
            if isinstance(v, bool):
                v = int(v)
            if isinstance(v, int):
                hit = [tb for (val, tb) in t.get("targets", []) if val == v]
                stack.append((hit[0] if hit else t["otherwise"], st))
                continue
            undecided.add(b)
        for sx in fn.succ(b):
            stack.append((sx, st))
    explore_under.undecided = undecided
    explore_under.captured = captured
    explore_under.returned = returned          # (return block, state after its statements)
    return out, visited


def fdominates(fn, a, b):
    """block a is on every *feasible* path from the entry to block b: like dominance, but a path that carries a constant into a
    test that contradicts it (a helper returning `Ok(false)` on one arm, its caller leaving on `false`) does not count"""
    if fn.dominates(a, b):
        return True
    _out, visited = explore_under(fn, lambda t: None, avoid={a})
    return b not in visited


def closures_in_term(t, out=None):
    """ids of closure bodies constructed inside a term"""
    if out is None:
        out = []
    k = t[0]
    if k == "agg":
        if t[1].startswith("closure:"):
            out.append(t[1][len("closure:"):])
        for a in t[2]:
            closures_in_term(a, out)
    elif k == "call":
        for a in t[2]:
            closures_in_term(a, out)
    elif k == "callind":
        for a in t[2]:
            closures_in_term(a, out)
    elif k in ("cast", "ref", "deref", "discr", "repeat", "field", "captured"):
        closures_in_term(t[1], out)
    elif k == "bin":
        closures_in_term(t[2], out)
        closures_in_term(t[3], out)
    elif k == "un":
        closures_in_term(t[2], out)
    elif k == "phi":
        for a in t[1]:
            closures_in_term(a, out)
    return out


def mentions_deep(F, t, needle, _depth=0):
    """mentions(), also looking at the calls made by closure bodies constructed inside the term and by the private,
    non-anchor local helpers the term calls (a value obtained through `self.block_number_for_read(h)?` still *comes from*
    whatever that helper calls)"""
    if mentions(t, needle):
        return True
    for cid in closures_in_term(t):
        g = F.fns.get(cid)
        if g is None:
            continue
        for c in g.calls():
            if needle in (c.target_path or "") or needle == (c.method or ""):
                return True
    if _depth < 2:
        from facts import is_private_helper
        for x in calls_in(t):
            for g in F.by_name.get(x[1], []):
                if g.blocks and is_private_helper(g):
                    for c in g.calls():
                        if needle in (c.target_path or "") or needle == (c.method or ""):
                            return True
    return False


def edge_dominates(fn, edge, bb):
    """every path from entry to bb takes the CFG edge (a, s): bb is unreachable once the edge is removed"""
    return bb not in reachable_without_edges(fn, [edge])


# ---------------------------------------------------------------------------------------------------------------
# truth tables that look through local boolean helpers

def subst_params(t, args):
    """replace ('param', i, name) leaves of a term by args[i-1] (call-site argument terms)"""
    if not isinstance(t, tuple):
        return t
    if t and t[0] == "param" and isinstance(t[1], int) and 1 <= t[1] <= len(args):
        return args[t[1] - 1]
    return tuple(subst_params(x, args) if isinstance(x, tuple) else x for x in t)


def _strip_refs(t):
    while isinstance(t, tuple) and t and t[0] in ("ref", "deref") and len(t) > 1 and isinstance(t[1], tuple):
        t = t[1]
    return t


def _bool_rows_terms(fn):
    """like bool_fn_table but atoms stay terms: [( ((term, truth), ...), value )], value = bool | ('atom', term, polarity)"""
    rows = []
    for path in enumerate_paths(fn):
        atoms = []
        val = None
        for i, b in enumerate(path):
            for s in fn.blocks[b]["stmts"]:
                if s["k"] == "assign" and s["lhs"]["l"] == 0 and not s["lhs"].get("p"):
                    t = rvalue_origin(fn, s["rv"], 0, frozenset(), 40)
                    pol = True
                    while t[0] == "un" and t[1] == "Not":
                        t = t[2]
                        pol = not pol
                    if t[0] == "const":
                        val = bool(t[1]) if pol else (not bool(t[1]))
                    else:
                        val = ("atom", t, pol)
            tm = fn.term(b)
            if tm["k"] == "call" and tm["dest"]["l"] == 0 and not tm["dest"].get("p"):
                val = ("atom", call_origin(fn, tm, 0, frozenset(), 40), True)
            if tm["k"] == "switch" and i + 1 < len(path):
                be = bool_edge(fn, b, path[i + 1])
                if be and be[1] is not None:
                    atoms.append((be[0], be[1]))
                else:
                    atoms.append((("unknown", "?" + show(origin(fn, tm["discr"]))), None))
        rows.append((tuple(atoms), val))
    return rows


def bool_fn_table_inlined(F, fn, depth=3):
    """bool_fn_table, with calls to local functions returning bool expanded into their own rows (arguments substituted),
    so that extracting part of a predicate into a helper does not change the table"""
    def local_bool(t):
        if isinstance(t, tuple) and t and t[0] == "call":
            g = F.fn_opt(t[1])
            if g is not None and g.blocks and (g.j.get("output") or "") == "bool":
                return g
        return None

    def rows_of(f, d):
        out = []
        for atoms, val in _bool_rows_terms(f):
            partial = [([], None)]   # list of (atoms so far, -)
            dead = False
            for (a, truth) in atoms:
                g = local_bool(a) if d > 0 and truth is not None else None
                if g is None:
                    partial = [(p + [(a, truth)], None) for p, _ in partial]
                    continue
                sub = rows_of(g, d - 1)
                nxt = []
                for p, _ in partial:
                    for gatoms, gval in sub:
                        ga = [(subst_params(x, a[2]), tr) for (x, tr) in gatoms]
                        if isinstance(gval, tuple):
                            gv = subst_params(gval[1], a[2])
                            want = truth if gval[2] else (not truth)
                            nxt.append((p + ga + [(gv, want)], None))
                        elif gval == truth:
                            nxt.append((p + ga, None))
                partial = nxt
            for p, _ in partial:
                if isinstance(val, tuple):
                    g = local_bool(val[1]) if d > 0 else None
                    if g is not None:
                        for gatoms, gval in rows_of(g, d - 1):
                            ga = [(subst_params(x, val[1][2]), tr) for (x, tr) in gatoms]
                            if isinstance(gval, tuple):
                                out.append((tuple(p + ga), ("atom", subst_params(gval[1], val[1][2]), gval[2] == val[2])))
                            else:
                                out.append((tuple(p + ga), gval if val[2] else (not gval)))
                        continue
                out.append((tuple(p), val))
        return out

    res = []
    for atoms, val in rows_of(fn, depth):
        sa = tuple((show(_strip_refs(a)), tr) for (a, tr) in atoms)
        if isinstance(val, tuple):
            val = ("atom", show(_strip_refs(val[1])), val[2])
        res.append((sa, val))
    return res



def path_constraints(fn, path, var_of):
    """{variable: value} implied by the edges of `path` (a list of blocks), or None when the path contradicts itself.
    `var_of(term)` names the variable a condition term is about (or None).  Values: 'Some' / 'None' for Option tests
    (discriminant switches, is_some(), is_none()), True / False for plain boolean conditions."""
    cons = {}
    for i, b in enumerate(path[:-1]):
        t = fn.term(b)
        if t["k"] != "switch":
            continue
        nxt = path[i + 1]
        d = origin(fn, t["discr"])
        var, val = None, None
        if d[0] == "discr" and len(d) > 3 and d[3]:
            var = var_of(d[1])
            vals = [v for v, tb in t["targets"] if tb == nxt]
            names = [n for (n, v2) in d[3] if v2 in vals]
            if not names and t.get("otherwise") == nxt:
                names = [n for (n, v2) in d[3] if v2 not in [v for v, _ in t["targets"]]]
            if len(names) == 1:
                val = names[0]
        else:
            be = bool_edge(fn, b, nxt)
            if be and be[1] is not None:
                c = be[0]
                last = c[1].split("::")[-1] if c[0] == "call" else None
                if last in ("is_some", "is_none"):
                    var = var_of(c)
                    val = "Some" if ((last == "is_some") == be[1]) else "None"
                else:
                    var = var_of(c)
                    val = be[1]
        if var is None or val is None:
            continue
        if var in cons and cons[var] != val:
            return None
        cons[var] = val
    return cons
