"""WIRE helpers (DESIGN 4.7): origins of sinks, with closure captures resolved into the creating function."""
from terms import origin, show, rvalue_origin, mentions, calls_in


def closure_creation(F, fn):
    """(parent fn, aggregate operands) of the statement that builds closure/coroutine fn"""
    pf = F.fns.get(fn.j.get("parent"))
    if pf is None:
        return None, None
    if hasattr(F, "inlined") and pf.kind in ("method", "fn"):
        # the creating function with its private helpers inlined: captured values resolve through them; and when the creating
        # function is itself a helper that was inlined into an entry, resolve in that entry's body
        hosts = [hid for hid, kids in getattr(F, "_inl_children", {}).items() if pf.id in kids]
        if hosts:
            pf = F.inlined(F.fns[sorted(hosts)[0]])
        else:
            pf = F.inlined(pf)
    for b in pf.blocks:
        for s in b["stmts"]:
            if s["k"] == "assign" and s["rv"]["k"] == "agg" and s["rv"].get("def") == fn.id:
                return pf, s["rv"]["ops"]
    return pf, None


def resolve(F, fn, t, depth=0):
    """replace ('upvar', i, name) leaves by their origin in the creating function (recursively)"""
    if depth > 6:
        return t
    k = t[0]
    if k == "upvar":
        pf, ops = closure_creation(F, fn)
        if pf is not None and ops is not None and t[1] < len(ops):
            pt = origin(pf, ops[t[1]])
            # captured by reference: &x  -> x
            while pt[0] == "ref":
                pt = pt[1]
            return ("captured", resolve(F, pf, pt, depth + 1), pf.name)
        return t
    if k == "param" and fn.kind == "closure" and isinstance(t[1], int) and t[1] >= 2:
        # the parameter of a closure handed to an iterator adapter (`xs.iter().enumerate().map(|(i, x)| ..)`) is an element of
        # the sequence the adapter is called on
        pf = F.fns.get(fn.j.get("parent"))
        if pf is not None and pf.blocks:
            pfv = F.inlined(pf) if pf.kind in ("closure", "coroutine") else pf
            for c in pfv.calls():
                if fn.id in ((c.func or {}).get("arg_cl") or []) and (c.trait or "").endswith("Iterator") and c.args and not pfv.is_cleanup(c.bb):
                    recv = origin(pfv, c.args[0])
                    return ("call", "iter::element_of", (resolve(F, pfv, recv, depth + 1),), None, None)
        return t
    if k == "call":
        return ("call", t[1], tuple(resolve(F, fn, a, depth) for a in t[2]), t[3], t[4])
    if k == "callind":
        return ("callind", resolve(F, fn, t[1], depth), tuple(resolve(F, fn, a, depth) for a in t[2]))
    if k in ("cast", "ref", "deref", "repeat"):
        return (k, resolve(F, fn, t[1], depth)) + tuple(t[2:])
    if k == "discr":
        return ("discr", resolve(F, fn, t[1], depth)) + tuple(t[2:])
    if k == "field":
        return ("field", resolve(F, fn, t[1], depth), t[2])
    if k == "bin":
        return ("bin", t[1], resolve(F, fn, t[2], depth), resolve(F, fn, t[3], depth))
    if k == "un":
        return ("un", t[1], resolve(F, fn, t[2], depth))
    if k == "agg":
        return ("agg", t[1], tuple(resolve(F, fn, a, depth) for a in t[2]), t[3])
    if k == "phi":
        return ("phi", tuple(resolve(F, fn, a, depth) for a in t[1]))
    return t


def strip(t):
    """peel value-preserving wrappers: casts, refs/derefs, From/Into/clone, Some(..), captured"""
    while True:
        k = t[0]
        if k in ("cast", "ref", "deref"):
            t = t[1]
        elif k == "captured":
            t = t[1]
        elif k == "call" and t[1].split("::")[-1] in ("from", "into", "clone", "to_owned", "deref", "borrow", "as_ref") and len(t[2]) == 1:
            t = t[2][0]
        elif k == "agg" and t[1].endswith("Option::Some") and len(t[2]) == 1:
            t = t[2][0]
        else:
            return t


def param_index(F, fn, t):
    """index of the parameter (of the function that owns it) a term boils down to, with the owning fn name"""
    t = strip(t)
    if t[0] == "param":
        return t[1], fn.name
    return None, None


def describe(t):
    return show(t)[:140]


def field_stores(fn):
    """{'.a.b': [(bb, term)]} for every assignment through a projection of a local (field stores).  A store through a
    reference that was taken of a field (`let cfg = &mut ctx.cfg; cfg.chain_id = ..`, or the same through a helper's
    `&mut CfgEnv` parameter after inlining) is reported under the full path `.cfg.chain_id`."""
    out = {}
    for bi, b in enumerate(fn.blocks):
        if b.get("cleanup"):
            continue
        for s in b["stmts"]:
            if s["k"] == "assign" and s["lhs"].get("p"):
                path = "".join(e for e in s["lhs"]["p"] if e.startswith("."))
                if path:
                    if s["lhs"]["p"][0] == "*":
                        base = origin(fn, {"l": s["lhs"]["l"], "k": "copy"})
                        pre = []
                        t = base
                        for _ in range(12):
                            if t[0] in ("ref", "deref", "cast"):
                                t = t[1]
                            elif t[0] == "field" and isinstance(t[2], str) and t[2].startswith("."):
                                pre.insert(0, t[2])
                                t = t[1]
                            else:
                                break
                        path = "".join(pre) + path
                    val = rvalue_origin(fn, s["rv"], 0, frozenset(), 40)
                    out.setdefault(path, []).append((bi, val))
                    # a whole sub-struct written with update syntax (`ctx.block = BlockEnv { number: n, ..ctx.block }`) is one
                    # store per field it names; fields copied from the old value of the same place are not stores
                    if val[0] == "agg" and len(val) > 3 and val[3] and len(val[3]) == len(val[2]):
                        for fld, op in zip(val[3], val[2]):
                            o = op
                            while o[0] in ("ref", "deref", "cast"):
                                o = o[1]
                            same_place = False
                            if o[0] == "field" and o[2] == "." + fld:
                                chain = []
                                x = o[1]
                                for _ in range(12):
                                    if x[0] in ("ref", "deref", "cast"):
                                        x = x[1]
                                    elif x[0] == "field" and isinstance(x[2], str) and x[2].startswith("."):
                                        chain.insert(0, x[2])
                                        x = x[1]
                                    else:
                                        break
                                same_place = "".join(chain) == path
                            if not same_place:
                                out.setdefault(path + "." + fld, []).append((bi, op))
    return out


def is_param(F, fn, t, idx):
    """does (resolved) term reduce to parameter #idx of fn itself or, through captures, of an enclosing fn"""
    t = strip(t)
    if t[0] == "param" and t[1] == idx:
        return True
    return False


def leaf_params(t, owner, out=None):
    """set of (owning fn name, param index) the term's parameter leaves refer to; captures are followed
    into the creating function"""
    if out is None:
        out = set()
    k = t[0]
    if k == "param":
        out.add((owner, t[1]))
    elif k == "captured":
        leaf_params(t[1], t[2], out)
    elif k in ("call",):
        for a in t[2]:
            leaf_params(a, owner, out)
    elif k == "callind":
        leaf_params(t[1], owner, out)
        for a in t[2]:
            leaf_params(a, owner, out)
    elif k in ("cast", "ref", "deref", "discr", "repeat", "field"):
        leaf_params(t[1], owner, out)
    elif k == "bin":
        leaf_params(t[2], owner, out)
        leaf_params(t[3], owner, out)
    elif k == "un":
        leaf_params(t[2], owner, out)
    elif k == "agg":
        for a in t[2]:
            leaf_params(a, owner, out)
    elif k == "phi":
        for a in t[1]:
            leaf_params(a, owner, out)
    return out


def swapped_arguments(F, callee_pred, body_pred=None):
    """[(body, call, i, j, name)] : call sites of local functions (callee_pred) where argument i is the variable (local or
    parameter) *named like parameter j* of the callee, j != i, parameter i and j have the same type, and the variable is not
    named like parameter i.  Same-typed parameters (u64, Address, B256, U256 ...) make such a swap compile."""
    out = []
    for b in F.body_fns():
        if "::tests::" in b.name or (body_pred is not None and not body_pred(b)):
            continue
        for c in b.calls():
            g = F.fns.get(c.target_id) if c.target_id else None
            if g is None or b.is_cleanup(c.bb) or not callee_pred(g):
                continue
            pn = g.j.get("param_names") or []
            pt = g.j.get("inputs") or []
            if len(pn) != len(c.args) or len(pt) != len(pn):
                continue
            names = []
            for a in c.args:
                t = strip(resolve(F, b, origin(b, a)))
                nm = None
                if t[0] in ("param", "upvar") and len(t) > 2:
                    nm = t[2]
                elif "l" in a and not a.get("p"):
                    # follow plain moves to a named local
                    l = a["l"]
                    for _ in range(6):
                        if b.local_name(l):
                            nm = b.local_name(l)
                            break
                        ds = [d for d in b.defs().get(l, []) if d[2] == "assign" and d[3]["rv"]["k"] == "use" and "l" in d[3]["rv"]["ops"][0] and not d[3]["rv"]["ops"][0].get("p")]
                        if len(ds) != 1:
                            break
                        l = ds[0][3]["rv"]["ops"][0]["l"]
                names.append(nm)
            for i, nm in enumerate(names):
                if nm is None or nm == pn[i]:
                    continue
                for j, pj in enumerate(pn):
                    if j != i and nm == pj and pt[i] == pt[j] and names[j] != pj:
                        out.append((b, c, i, j, nm))
    return out
