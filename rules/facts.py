"""Fact base loader and shared program-analysis utilities (CFG, dominators,
operand origins, call graph) over the mini-MIR emitted by tools/factx.

Pure python3 stdlib.  Nothing here executes crate code.
"""
import json
import re
from collections import defaultdict, deque


class Fn:
    __slots__ = ("j", "id", "name", "kind", "loc", "mir", "blocks", "locals", "argc",
                 "_succ", "_pred", "_dom", "_pdom", "_defs", "facts", "_calls")

    def __init__(self, j, facts):
        self.j = j
        self.facts = facts
        self.id = j["id"]
        self.name = j["name"]
        self.kind = j["kind"]
        self.loc = j["loc"]
        self.mir = j["mir"]
        self.blocks = self.mir.get("blocks", [])
        self.locals = self.mir.get("locals", [])
        self.argc = self.mir.get("argc", 0)
        self._succ = self._pred = self._dom = self._pdom = self._defs = self._calls = None

    # ---- basic info
    def where(self, line=None):
        return "%s:%s" % (self.loc["f"], line if line is not None else self.loc["l"])

    @property
    def short(self):
        return self.name

    def is_cleanup(self, bb):
        return bool(self.blocks[bb].get("cleanup"))

    def term(self, bb):
        return self.blocks[bb]["term"]

    def local_ty(self, l):
        return self.locals[l]["ty"] if l < len(self.locals) else "?"

    def local_closures(self, l):
        """ids of closure/coroutine bodies mentioned in the type of local l"""
        return self.locals[l].get("cl", []) if l < len(self.locals) else []

    def local_name(self, l):
        return self.locals[l].get("name") if l < len(self.locals) else None

    # ---- CFG (normal edges only unless unwind=True)
    def succ(self, bb, unwind=False):
        t = self.blocks[bb]["term"]
        k = t["k"]
        out = []
        if k in ("goto",):
            out = [t["t"]]
        elif k == "switch":
            out = [x[1] for x in t["targets"]] + [t["otherwise"]]
        elif k in ("call", "drop", "assert", "yield"):
            if t.get("t") is not None:
                out = [t["t"]]
            if k == "yield" and unwind and t.get("drop") is not None:
                out.append(t["drop"])
        if unwind and t.get("unwind") is not None:
            out.append(t["unwind"])
        # dedupe, keep order
        seen = set()
        res = []
        for x in out:
            if x not in seen:
                seen.add(x)
                res.append(x)
        return res

    def succs(self):
        if self._succ is None:
            self._succ = [self.succ(i) for i in range(len(self.blocks))]
        return self._succ

    def preds(self):
        if self._pred is None:
            p = [[] for _ in self.blocks]
            for i, ss in enumerate(self.succs()):
                for s in ss:
                    p[s].append(i)
            self._pred = p
        return self._pred

    def reachable(self, start=0, avoid=()):
        """blocks reachable from start along normal edges, not entering `avoid`."""
        seen = set()
        if start in avoid:
            return seen
        dq = deque([start])
        seen.add(start)
        succs = self.succs()
        while dq:
            b = dq.popleft()
            for s in succs[b]:
                if s not in seen and s not in avoid:
                    seen.add(s)
                    dq.append(s)
        return seen

    def return_blocks(self):
        return [i for i, b in enumerate(self.blocks) if b["term"]["k"] == "return"]

    def dominators(self):
        """dom[b] = set of blocks dominating b (normal edges, from bb0)."""
        if self._dom is not None:
            return self._dom
        n = len(self.blocks)
        reach = self.reachable(0)
        preds = self.preds()
        allb = set(reach)
        dom = {b: set(allb) for b in reach}
        dom[0] = {0}
        changed = True
        order = self._rpo()
        while changed:
            changed = False
            for b in order:
                if b == 0:
                    continue
                ps = [p for p in preds[b] if p in reach]
                if not ps:
                    continue
                new = set.intersection(*[dom[p] for p in ps]) | {b}
                if new != dom[b]:
                    dom[b] = new
                    changed = True
        self._dom = dom
        return dom

    def _rpo(self):
        seen = set()
        order = []
        succs = self.succs()
        stack = [(0, iter(succs[0]))] if self.blocks else []
        seen.add(0)
        while stack:
            b, it = stack[-1]
            adv = False
            for s in it:
                if s not in seen:
                    seen.add(s)
                    stack.append((s, iter(succs[s])))
                    adv = True
                    break
            if not adv:
                order.append(b)
                stack.pop()
        order.reverse()
        return order

    def dominates(self, a, b):
        d = self.dominators()
        return b in d and a in d[b]

    def postdominators(self, exits=None):
        """pdom[b] = set of blocks post-dominating b w.r.t. the given exit blocks
        (default: all `return` blocks)."""
        key = tuple(sorted(exits)) if exits is not None else None
        if key is None and self._pdom is not None:
            return self._pdom
        if exits is None:
            exits = self.return_blocks()
        exits = set(exits)
        succs = self.succs()
        preds = self.preds()
        # blocks that can reach an exit
        can = set(exits)
        dq = deque(exits)
        while dq:
            b = dq.popleft()
            for p in preds[b]:
                if p not in can:
                    can.add(p)
                    dq.append(p)
        pdom = {b: set(can) for b in can}
        for e in exits:
            pdom[e] = {e}
        changed = True
        while changed:
            changed = False
            for b in can:
                if b in exits:
                    continue
                ss = [s for s in succs[b] if s in can]
                if not ss:
                    continue
                new = set.intersection(*[pdom[s] for s in ss]) | {b}
                if new != pdom[b]:
                    pdom[b] = new
                    changed = True
        if key is None:
            self._pdom = pdom
        return pdom

    # ---- definitions of locals
    def defs(self):
        """local -> list of (bb, idx, kind, payload); idx = stmt index or 'term'."""
        if self._defs is not None:
            return self._defs
        d = defaultdict(list)
        for bi, b in enumerate(self.blocks):
            for si, s in enumerate(b["stmts"]):
                if s["k"] == "assign":
                    lhs = s["lhs"]
                    d[lhs["l"]].append((bi, si, "assign" if not lhs.get("p") else "partial", s))
                elif s["k"] == "setdiscr":
                    d[s["lhs"]["l"]].append((bi, si, "partial", s))
            t = b["term"]
            if t["k"] == "call":
                dst = t["dest"]
                d[dst["l"]].append((bi, "term", "call" if not dst.get("p") else "partial", t))
            elif t["k"] == "yield":
                ra = t["resume_arg"]
                d[ra["l"]].append((bi, "term", "yield", t))
        self._defs = d
        return d

    def calls(self):
        """list of Call objects for every call terminator (non-cleanup first)."""
        if self._calls is None:
            out = []
            for bi, b in enumerate(self.blocks):
                t = b["term"]
                if t["k"] in ("call", "tailcall"):
                    out.append(Call(self, bi, t))
            self._calls = out
        return self._calls


class Call:
    __slots__ = ("fn", "bb", "t", "func", "path", "full", "cid", "res", "args", "line")

    def __init__(self, fn, bb, t):
        self.fn = fn
        self.bb = bb
        self.t = t
        f = t["func"].get("fn")
        self.func = f
        self.path = f["path"] if f else None
        self.full = f["full"] if f else None
        self.cid = f["id"] if f else None
        self.res = f.get("res") if f else None
        self.args = t.get("args", [])
        self.line = t["loc"]["l"]

    @property
    def from_expansion(self):
        return bool(self.t["loc"].get("x"))

    @property
    def target_id(self):
        """best resolved callee def id"""
        if self.res:
            return self.res["id"]
        return self.cid

    @property
    def target_path(self):
        if self.res:
            return self.res["path"]
        return self.path

    @property
    def method(self):
        return self.func.get("method") if self.func else None

    @property
    def trait(self):
        return self.func.get("trait") if self.func else None

    @property
    def self_ty(self):
        return self.func.get("self_ty") if self.func else None

    def where(self):
        return "%s:%d" % (self.t["loc"]["f"], self.line)

    def __repr__(self):
        return "<call %s @%s>" % (self.target_path or "indirect", self.where())


CLOSURE_TY_RE = re.compile(r"\{(?:closure|async closure|async block|async fn body|coroutine)[^{}]*\}")


class Facts:
    def __init__(self, path):
        with open(path) as fh:
            self.j = json.load(fh)
        self.path = path
        self.fns = {}
        for f in self.j["fns"]:
            self.fns[f["id"]] = Fn(f, self)
        self.by_name = defaultdict(list)
        for f in self.fns.values():
            self.by_name[f.name].append(f)
        self.adts = {a["id"]: a for a in self.j["adts"]}
        self.adt_by_name = {a["name"]: a for a in self.j["adts"]}
        self.impls = self.j["impls"]
        self.consts = {c["name"]: c for c in self.j["consts"]}
        self._closure_by_ty = None
        self._cg = None
        self._trait_impls = None

    # ---- lookup helpers
    def fn(self, name):
        """unique function by pretty name (def_path_str)."""
        l = self.by_name.get(name, [])
        if len(l) != 1:
            raise KeyError("function %r: %d matches" % (name, len(l)))
        return l[0]

    def fn_opt(self, name):
        l = self.by_name.get(name, [])
        return l[0] if len(l) == 1 else None

    def fns_matching(self, pred):
        return [f for f in self.fns.values() if pred(f)]

    def body_fns(self):
        return [f for f in self.fns.values() if f.kind in ("fn", "method", "closure", "coroutine") and f.blocks]

    def children(self, fid):
        """closures/coroutines whose parent is fid (direct)."""
        return [f for f in self.fns.values() if f.j.get("parent") == fid]

    def descendants(self, fid):
        out = []
        st = [fid]
        while st:
            x = st.pop()
            for c in self.children(x):
                out.append(c)
                st.append(c.id)
        return out

    # ---- closures by type string
    def closure_by_ty(self):
        """map a closure/coroutine *type string* (as it appears in local types)
        to its body.  Built from Aggregate(Closure|Coroutine) statements: the
        lhs local's type is the type string and `def` the body id."""
        if self._closure_by_ty is None:
            m = {}
            for f in self.fns.values():
                for b in f.blocks:
                    for s in b["stmts"]:
                        if s["k"] == "assign" and s["rv"]["k"] == "agg" and s["rv"].get("agg") in (
                                "closure", "coroutine", "coroutine_closure"):
                            lhs = s["lhs"]
                            if lhs.get("p"):
                                continue
                            ty = f.local_ty(lhs["l"])
                            m[ty] = s["rv"]["def"]
            self._closure_by_ty = m
        return self._closure_by_ty

    def closures_in_type(self, ty):
        """closure/coroutine bodies whose type is mentioned inside type string ty"""
        m = self.closure_by_ty()
        out = []
        for mt in CLOSURE_TY_RE.findall(ty or ""):
            if mt in m:
                out.append(m[mt])
        return out

    # ---- trait impls
    def trait_impls(self):
        """(trait path, method name) -> list of local fn ids implementing it"""
        if self._trait_impls is None:
            m = defaultdict(list)
            for f in self.fns.values():
                tr = f.j.get("trait")
                if tr and f.j.get("method"):
                    m[(tr, f.j["method"])].append(f.id)
            self._trait_impls = m
        return self._trait_impls


# ---------------------------------------------------------------------------
# operand helpers

def is_place(op):
    return op.get("k") in ("copy", "move") or ("l" in op and "k" not in op)


def place_str(p):
    s = "_%d" % p["l"]
    for e in p.get("p", []):
        s += e if e.startswith(".") or e.startswith("[") else ("(%s)" % e)
    return s


def const_value(op):
    """python value of a constant operand (int / bool / str / bytes) or None"""
    if op.get("k") != "const":
        return None
    if "v" in op:
        v = op["v"]
        if isinstance(v, str):
            try:
                return int(v)
            except ValueError:
                return v
        return v
    if "slice" in op:
        sl = op["slice"]
        if "str" in sl:
            return sl["str"][: sl.get("len", len(sl["str"]))]
        if "hex" in sl:
            return bytes.fromhex(sl["hex"])[: sl.get("len")]
    return None
