"""Fact base loader and shared program-analysis utilities (CFG, dominators,
operand origins, call graph) over the mini-MIR emitted by tools/factx.

Pure python3 stdlib.  Nothing here executes crate code.
"""
import json
import os
import re
from collections import defaultdict, deque


class Fn:
    __slots__ = ("j", "id", "name", "kind", "loc", "mir", "blocks", "locals", "argc",
                 "_succ", "_pred", "_dom", "_pdom", "_defs", "facts", "_calls")

    def __init__(self, j, facts):
        self.j = j
        self.facts = facts
        self.id = j["id"]
        self.name = j["name"]
        self.kind = j["kind"]
        self.loc = j["loc"]
        self.mir = j["mir"]
        self.blocks = self.mir.get("blocks", [])
        self.locals = self.mir.get("locals", [])
        self.argc = self.mir.get("argc", 0)
        self._succ = self._pred = self._dom = self._pdom = self._defs = self._calls = None

    # ---- basic info
    def where(self, line=None):
        return "%s:%s" % (self.loc["f"], line if line is not None else self.loc["l"])

    @property
    def short(self):
        return self.name

    def is_cleanup(self, bb):
        return bool(self.blocks[bb].get("cleanup"))

    def term(self, bb):
        return self.blocks[bb]["term"]

    def local_ty(self, l):
        return self.locals[l]["ty"] if l < len(self.locals) else "?"

    def local_closures(self, l):
        """ids of closure/coroutine bodies mentioned in the type of local l"""
        return self.locals[l].get("cl", []) if l < len(self.locals) else []

    def local_name(self, l):
        return self.locals[l].get("name") if l < len(self.locals) else None

    # ---- CFG (normal edges only unless unwind=True)
    def succ(self, bb, unwind=False):
        t = self.blocks[bb]["term"]
        k = t["k"]
        out = []
        if k in ("goto",):
            out = [t["t"]]
        elif k == "switch":
            out = [x[1] for x in t["targets"]] + [t["otherwise"]]
        elif k in ("call", "drop", "assert", "yield"):
            if t.get("t") is not None:
                out = [t["t"]]
            if k == "yield" and unwind and t.get("drop") is not None:
                out.append(t["drop"])
        if unwind and t.get("unwind") is not None:
            out.append(t["unwind"])
        # dedupe, keep order
        seen = set()
        res = []
        for x in out:
            if x not in seen:
                seen.add(x)
                res.append(x)
        return res

    def succs(self):
        if self._succ is None:
            self._succ = [self.succ(i) for i in range(len(self.blocks))]
        return self._succ

    def preds(self):
        if self._pred is None:
            p = [[] for _ in self.blocks]
            for i, ss in enumerate(self.succs()):
                for s in ss:
                    p[s].append(i)
            self._pred = p
        return self._pred

    def reachable(self, start=0, avoid=()):
        """blocks reachable from start along normal edges, not entering `avoid`."""
        seen = set()
        if start in avoid:
            return seen
        dq = deque([start])
        seen.add(start)
        succs = self.succs()
        while dq:
            b = dq.popleft()
            for s in succs[b]:
                if s not in seen and s not in avoid:
                    seen.add(s)
                    dq.append(s)
        return seen

    def return_blocks(self):
        return [i for i, b in enumerate(self.blocks) if b["term"]["k"] == "return"]

    def prov(self, bb):
        """(function id, block index) this block had before virtual inlining: facts computed per original body (lock sites,
        effects) are looked up under this key"""
        fr = self.blocks[bb].get("from")
        return (fr[0], fr[1]) if fr else (self.id, bb)

    def error_blocks(self):
        """blocks on which the function is committed to returning Err: `?` residual conversion or `_0 = Err(..)`; in a body with
        virtually inlined helpers also the helpers' own error exits when the helper's Result is handed on by the caller"""
        out = set()
        rets = {0} | set(self.j.get("ret_locals", []))
        for bi, b in enumerate(self.blocks):
            t = b["term"]
            if t["k"] == "call":
                p = (t["func"].get("fn") or {}).get("path", "")
                if p.endswith("FromResidual::from_residual") and t["dest"]["l"] in rets and not t["dest"].get("p"):
                    out.add(bi)
            for s in b["stmts"]:
                if s["k"] == "assign" and s["lhs"]["l"] in rets and not s["lhs"].get("p") and s["rv"]["k"] == "agg" \
                        and s["rv"].get("variant") == "Err":
                    out.add(bi)
        return out

    def sdominates(self, a, b):
        """a dominates b on *success paths*: every path from the entry to b that does not pass an error block passes a"""
        if a == b:
            return True
        return b not in self.reachable(0, avoid=self.error_blocks() | {a})

    def dominators(self):
        """dom[b] = set of blocks dominating b (normal edges, from bb0)."""
        if self._dom is not None:
            return self._dom
        n = len(self.blocks)
        reach = self.reachable(0)
        preds = self.preds()
        allb = set(reach)
        dom = {b: set(allb) for b in reach}
        dom[0] = {0}
        changed = True
        order = self._rpo()
        while changed:
            changed = False
            for b in order:
                if b == 0:
                    continue
                ps = [p for p in preds[b] if p in reach]
                if not ps:
                    continue
                new = set.intersection(*[dom[p] for p in ps]) | {b}
                if new != dom[b]:
                    dom[b] = new
                    changed = True
        self._dom = dom
        return dom

    def _rpo(self):
        seen = set()
        order = []
        succs = self.succs()
        stack = [(0, iter(succs[0]))] if self.blocks else []
        seen.add(0)
        while stack:
            b, it = stack[-1]
            adv = False
            for s in it:
                if s not in seen:
                    seen.add(s)
                    stack.append((s, iter(succs[s])))
                    adv = True
                    break
            if not adv:
                order.append(b)
                stack.pop()
        order.reverse()
        return order

    def dominates(self, a, b):
        d = self.dominators()
        return b in d and a in d[b]

    def postdominators(self, exits=None):
        """pdom[b] = set of blocks post-dominating b w.r.t. the given exit blocks
        (default: all `return` blocks)."""
        key = tuple(sorted(exits)) if exits is not None else None
        if key is None and self._pdom is not None:
            return self._pdom
        if exits is None:
            exits = self.return_blocks()
        exits = set(exits)
        succs = self.succs()
        preds = self.preds()
        # blocks that can reach an exit
        can = set(exits)
        dq = deque(exits)
        while dq:
            b = dq.popleft()
            for p in preds[b]:
                if p not in can:
                    can.add(p)
                    dq.append(p)
        pdom = {b: set(can) for b in can}
        for e in exits:
            pdom[e] = {e}
        changed = True
        while changed:
            changed = False
            for b in can:
                if b in exits:
                    continue
                ss = [s for s in succs[b] if s in can]
                if not ss:
                    continue
                new = set.intersection(*[pdom[s] for s in ss]) | {b}
                if new != pdom[b]:
                    pdom[b] = new
                    changed = True
        if key is None:
            self._pdom = pdom
        return pdom

    # ---- definitions of locals
    def defs(self):
        """local -> list of (bb, idx, kind, payload); idx = stmt index or 'term'."""
        if self._defs is not None:
            return self._defs
        d = defaultdict(list)
        for bi, b in enumerate(self.blocks):
            for si, s in enumerate(b["stmts"]):
                if s["k"] == "assign":
                    lhs = s["lhs"]
                    d[lhs["l"]].append((bi, si, "assign" if not lhs.get("p") else "partial", s))
                elif s["k"] == "setdiscr":
                    d[s["lhs"]["l"]].append((bi, si, "partial", s))
            t = b["term"]
            if t["k"] == "call":
                dst = t["dest"]
                d[dst["l"]].append((bi, "term", "call" if not dst.get("p") else "partial", t))
            elif t["k"] == "yield":
                ra = t["resume_arg"]
                d[ra["l"]].append((bi, "term", "yield", t))
        self._defs = d
        return d

    def calls(self):
        """list of Call objects for every call terminator (non-cleanup first)."""
        if self._calls is None:
            out = []
            for bi, b in enumerate(self.blocks):
                t = b["term"]
                if t["k"] in ("call", "tailcall"):
                    out.append(Call(self, bi, t))
            self._calls = out
        return self._calls


class Call:
    __slots__ = ("fn", "bb", "t", "func", "path", "full", "cid", "res", "args", "line")

    def __init__(self, fn, bb, t):
        self.fn = fn
        self.bb = bb
        self.t = t
        f = t["func"].get("fn")
        self.func = f
        self.path = f["path"] if f else None
        self.full = f["full"] if f else None
        self.cid = f["id"] if f else None
        self.res = f.get("res") if f else None
        self.args = t.get("args", [])
        self.line = t["loc"]["l"]

    @property
    def from_expansion(self):
        return bool(self.t["loc"].get("x"))

    @property
    def target_id(self):
        """best resolved callee def id"""
        if self.res:
            return self.res["id"]
        return self.cid

    @property
    def target_path(self):
        if self.res:
            return self.res["path"]
        return self.path

    @property
    def method(self):
        return self.func.get("method") if self.func else None

    @property
    def trait(self):
        return self.func.get("trait") if self.func else None

    @property
    def self_ty(self):
        return self.func.get("self_ty") if self.func else None

    def where(self):
        return "%s:%d" % (self.t["loc"]["f"], self.line)

    def __repr__(self):
        return "<call %s @%s>" % (self.target_path or "indirect", self.where())


CLOSURE_TY_RE = re.compile(r"\{(?:closure|async closure|async block|async fn body|coroutine)[^{}]*\}")


class Facts:
    def __init__(self, path):
        with open(path) as fh:
            self.j = json.load(fh)
        self.path = path
        self.fns = {}
        for f in self.j["fns"]:
            self.fns[f["id"]] = Fn(f, self)
        self.by_name = defaultdict(list)
        for f in self.fns.values():
            self.by_name[f.name].append(f)
        self.adts = {a["id"]: a for a in self.j["adts"]}
        self.adt_by_name = {a["name"]: a for a in self.j["adts"]}
        self.impls = self.j["impls"]
        self.consts = {c["name"]: c for c in self.j["consts"]}
        self._closure_by_ty = None
        self._cg = None
        self._trait_impls = None

    # ---- lookup helpers
    def fn(self, name):
        """unique function by pretty name (def_path_str)."""
        l = self.by_name.get(name, [])
        if len(l) != 1:
            raise KeyError("function %r: %d matches" % (name, len(l)))
        return l[0]

    def fn_opt(self, name):
        l = self.by_name.get(name, [])
        return l[0] if len(l) == 1 else None

    def fns_matching(self, pred):
        return [f for f in self.fns.values() if pred(f)]

    def body_fns(self):
        return [f for f in self.fns.values() if f.kind in ("fn", "method", "closure", "coroutine") and f.blocks]

    def children(self, fid):
        """closures/coroutines whose parent is fid (direct)."""
        return [f for f in self.fns.values() if f.j.get("parent") == fid]

    def descendants(self, fid):
        """closures/coroutines nested in fid - and in the private helpers that were virtually inlined into it"""
        out = []
        st = [fid] + sorted(getattr(self, "_inl_children", {}).get(fid, ()))
        seen = set()
        while st:
            x = st.pop()
            if x in seen:
                continue
            seen.add(x)
            st += sorted(getattr(self, "_inl_children", {}).get(x, ()))      # helpers inlined into a nested closure
            for c in self.children(x):
                out.append(self.inlined(c) if c.kind in ("closure", "coroutine") else c)
                st.append(c.id)
        return out

    def callers_of(self, fid):
        """bodies with a direct (resolved) call to fid"""
        if "_callers" not in self.__dict__:
            rev = {}
            for f in self.body_fns():
                for c in f.calls():
                    if c.target_id and not f.is_cleanup(c.bb):
                        rev.setdefault(c.target_id, set()).add(f.id)
            self.__dict__["_callers"] = rev
        return self.__dict__["_callers"].get(fid, set())

    def host_units(self):
        """the bodies a whole-crate site rule should walk so that an extract-method refactoring does not change what it sees:
        every body with its private helpers virtually inlined (a call site inside a helper shared by two callers is seen once
        in each caller, as it was before the extraction); a private helper that no caller's view contains (too deep / too
        large to inline) stays a unit of its own, so nothing is lost"""
        if "_host_units" not in self.__dict__:
            views, covered = [], set()
            helpers = []
            for f in self.body_fns():
                if f.kind in ("fn", "method") and is_private_helper(f):
                    helpers.append(f)
                    continue
                v = self.inlined(f, light=False)
                covered |= set(v.j.get("inlined") or [])
                views.append(v)
            for _ in range(3):      # helpers inlined into helpers that are themselves units
                for h in helpers:
                    if h.name not in covered and all(h.id != v.id for v in views):
                        v = self.inlined(h, light=False)
                        covered |= set(v.j.get("inlined") or [])
                        views.append(v)
            # a body that some caller's view already contains (a conversion impl written for the caller) is not a unit of its own
            views = [v for v in views if not (v.kind in ("fn", "method") and v.name in covered and v.j.get("trait"))]
            self.__dict__["_host_units"] = views
        return self.__dict__["_host_units"]

    def hosts_of(self, fn, _depth=0):
        """the functions a body belongs to for who-may-do-what rules: itself, unless it is a private helper (extract-method) -
        then the functions that call it, transitively; a closure belongs to the function it is written in"""
        root = self.fns.get(fn.j.get("root")) or fn
        conv = (root.j.get("trait") or "").split("<")[0] in ("std::convert::From", "std::convert::TryFrom", "std::default::Default") \
            and (root.j.get("self_ty") or "").split("<")[0] in self.adt_by_name
        if not (is_private_helper(root) or conv) or _depth > 4:
            return {root.name}
        out = set()
        for cid in self.callers_of(root.id):
            g = self.fns.get(cid)
            if g is not None and g.id != root.id:
                out |= self.hosts_of(g, _depth + 1)
        return out or {root.name}

    def inlined(self, fn, light=True, also_types=()):
        """fn with its type's private, non-anchor helper methods virtually inlined (cached); light=False keeps calls to
        public methods of small record types as calls; also_types names record types whose methods are inlined regardless"""
        if fn is None:
            return None
        cache = self.__dict__.setdefault(("_inl_cache" if light else "_inl_cache_nolight") + ("|" + ",".join(sorted(also_types)) if also_types else ""), {})
        if "_anchor_ids_done" not in self.__dict__:
            try:
                import enginerules
                enginerules.ensure_anchor_ids(self)
            except Exception:
                self.__dict__["_anchor_ids_done"] = True
        if fn.id not in cache:
            cache[fn.id] = inline_private_helpers(self, fn, light=light, also_types=frozenset(also_types))
        return cache[fn.id]

    # ---- closures by type string
    def closure_by_ty(self):
        """map a closure/coroutine *type string* (as it appears in local types)
        to its body.  Built from Aggregate(Closure|Coroutine) statements: the
        lhs local's type is the type string and `def` the body id."""
        if self._closure_by_ty is None:
            m = {}
            for f in self.fns.values():
                for b in f.blocks:
                    for s in b["stmts"]:
                        if s["k"] == "assign" and s["rv"]["k"] == "agg" and s["rv"].get("agg") in (
                                "closure", "coroutine", "coroutine_closure"):
                            lhs = s["lhs"]
                            if lhs.get("p"):
                                continue
                            ty = f.local_ty(lhs["l"])
                            m[ty] = s["rv"]["def"]
            self._closure_by_ty = m
        return self._closure_by_ty

    def closures_in_type(self, ty):
        """closure/coroutine bodies whose type is mentioned inside type string ty"""
        m = self.closure_by_ty()
        out = []
        for mt in CLOSURE_TY_RE.findall(ty or ""):
            if mt in m:
                out.append(m[mt])
        return out

    # ---- trait impls
    def trait_impls(self):
        """(trait path, method name) -> list of local fn ids implementing it"""
        if self._trait_impls is None:
            m = defaultdict(list)
            for f in self.fns.values():
                tr = f.j.get("trait")
                if tr and f.j.get("method"):
                    m[(tr, f.j["method"])].append(f.id)
            self._trait_impls = m
        return self._trait_impls


# ---------------------------------------------------------------------------
# operand helpers

def is_place(op):
    return op.get("k") in ("copy", "move") or ("l" in op and "k" not in op)


def place_str(p):
    s = "_%d" % p["l"]
    for e in p.get("p", []):
        s += e if e.startswith(".") or e.startswith("[") else ("(%s)" % e)
    return s


def const_value(op):
    """python value of a constant operand (int / bool / str / bytes) or None"""
    if op.get("k") != "const":
        return None
    if "v" in op:
        v = op["v"]
        if isinstance(v, str):
            try:
                return int(v)
            except ValueError:
                return v
        return v
    if "slice" in op:
        sl = op["slice"]
        if "str" in sl:
            return sl["str"][: sl.get("len", len(sl["str"]))]
        if "hex" in sl:
            return bytes.fromhex(sl["hex"])[: sl.get("len")]
    return None


# ---------------------------------------------------------------------------------------------------------------
# virtual inlining of private helper methods

_RULE_NAMES = None


def rule_names():
    """identifiers that the rule sources mention as string literals (anchor names): helpers with such a name are never inlined"""
    global _RULE_NAMES
    if _RULE_NAMES is None:
        names = set()
        base = os.path.dirname(os.path.abspath(__file__))
        for d in (base, os.path.join(os.path.dirname(base), "props")):
            for fn_ in os.listdir(d):
                if fn_.endswith(".py"):
                    with open(os.path.join(d, fn_)) as fh:
                        src = fh.read()
                        names |= set(re.findall(r"[\"']\.?([a-z_][a-z0-9_]{2,})[\"']", src))
                        names |= set(re.findall(r"::([a-z_][a-z0-9_]{2,})[\"']", src))      # "path::to::anchor_fn"
        _RULE_NAMES = names
    return _RULE_NAMES


_RULE_TEXT = None


def type_known_to_rules(ty):
    """does any rule source mention this type (by its last path segment)?  A method of a type no rule knows about cannot be an
    anchor a rule looks for, whatever its name (a range helper with a `contains` method vs the deny list lookup of the same name)"""
    global _RULE_TEXT
    if _RULE_TEXT is None:
        base = os.path.dirname(os.path.abspath(__file__))
        txt = []
        for d in (base, os.path.join(os.path.dirname(base), "props")):
            for fn_ in os.listdir(d):
                if fn_.endswith(".py"):
                    with open(os.path.join(d, fn_)) as fh:
                        txt.append(fh.read())
        _RULE_TEXT = "\n".join(txt)
    seg = (ty or "").split("<")[0].split("::")[-1]
    return (not seg) or seg in _RULE_TEXT


def _shift(o, off_l, off_b, is_term=False):
    """deep copy of a MIR json node with local numbers shifted by off_l"""
    if isinstance(o, dict):
        if "f" in o and "l" in o and "c" in o:      # a source location
            return dict(o)
        r = {}
        for k, v in o.items():
            if k == "l" and isinstance(v, int):
                r[k] = v + off_l
            elif k == "p" and isinstance(v, list):
                r[k] = [re.sub(r"^\[_(\d+)\]$", lambda m: "[_%d]" % (int(m.group(1)) + off_l), e) if isinstance(e, str) else _shift(e, off_l, off_b) for e in v]
            else:
                r[k] = _shift(v, off_l, off_b)
        return r
    if isinstance(o, list):
        return [_shift(x, off_l, off_b) for x in o]
    return o


def _shift_term(t, off_l, off_b):
    r = _shift(t, off_l, off_b)
    for k in ("t", "unwind", "drop", "otherwise"):
        if isinstance(t.get(k), int):
            r[k] = t[k] + off_b
    if t.get("k") == "switch":
        r["targets"] = [[v, tb + off_b] for v, tb in t["targets"]]
    return r


_HEAVY = {}


def heavy_types(F):
    """types whose public methods are operations in their own right (never inlined): the engine, the database struct, the
    table types, the RPC server"""
    k = id(F)
    if k not in _HEAVY:
        hv = set()
        try:
            import roles
            hv.add(roles.database_struct(F)["name"])
            hv |= set(roles.table_types(F))
        except Exception:
            pass
        for a in F.adts.values():
            n = a["name"]
            if n.endswith("BRC20ProgEngine") or n.endswith("RpcServer") or n.endswith("ConfigDatabase") or n.endswith("SharedData"):
                hv.add(n)
        _HEAVY[k] = hv
    return _HEAVY[k]


def is_private_helper(g):
    """a private, non-anchor, non-trait method / associated function: the kind of helper an extract-method refactoring creates"""
    if g is None or not g.blocks or g.kind not in ("method", "fn") or g.j.get("trait") or g.j.get("in_trait"):
        return False
    if (g.j.get("vis") or "") == "Public":
        return False
    if hasattr(g, "facts") and g.id in getattr(g.facts, "_anchor_ids", ()):
        return False       # found to play an anchor role by its behaviour (e.g. a renamed validator)
    if not type_known_to_rules(g.j.get("self_ty")) and g.j.get("self_ty"):
        return True
    return (g.j.get("method") or g.name.split("::")[-1]) not in rule_names()


def _closure_of_operand(blocks, locs, op, depth=0):
    """id of the closure body an operand holds: follows plain copies back to a local whose type names exactly one closure"""
    seen = set()
    while isinstance(op, dict) and "l" in op and not op.get("p") and op["l"] not in seen and depth < 10:
        depth += 1
        seen.add(op["l"])
        cl = locs[op["l"]].get("cl") or [] if op["l"] < len(locs) else []
        if len(cl) == 1:
            return cl[0]
        srcs = []
        for b in blocks:
            if b.get("cleanup"):
                continue
            for s_ in b["stmts"]:
                if s_["k"] == "assign" and s_["lhs"]["l"] == op["l"] and not s_["lhs"].get("p"):
                    srcs.append(s_["rv"])
        if len(srcs) != 1 or srcs[0]["k"] not in ("use", "ref") :
            return None
        op = srcs[0]["ops"][0] if srcs[0]["k"] == "use" else dict(srcs[0]["place"], k="copy")
    return None


def _subst_generics(x, gmap, key=None):
    """replace whole-word type parameter names inside the type strings of a copied block (self_ty / full / args / ty)"""
    if isinstance(x, dict):
        return {k: _subst_generics(v, gmap, k) for k, v in x.items()}
    if isinstance(x, list):
        return [_subst_generics(v, gmap, key) for v in x]
    if isinstance(x, str) and key in ("self_ty", "full", "args", "ty", "fn_ty"):
        for n, a in gmap.items():
            x = re.sub(r"\b%s\b" % re.escape(n), a.replace("\\", "\\\\"), x)
        return x
    return x


def inline_private_helpers(F, fn, depth=2, max_blocks=4000, light=True, also_types=frozenset()):
    """A copy of `fn` in which calls to *private, non-anchor methods / associated functions of the same type* are replaced by
    the callee's body (locals renumbered, parameters assigned from the arguments, `return` turned into an assignment of the
    destination plus a jump to the call's successor).  Extract-method refactorings inside a type therefore leave the
    dominance / must-pass / ordering facts the rules look at unchanged.  Anchor methods (any name a rule mentions), public
    methods, trait methods and recursive calls are kept as calls."""
    import copy
    base_ty = (fn.j.get("self_ty") or "").split("<")[0]
    if not base_ty and fn.j.get("root") and fn.j["root"] in F.fns:
        base_ty = (F.fns[fn.j["root"]].j.get("self_ty") or "").split("<")[0]     # a closure: the type of the method it sits in
    if not fn.blocks:
        return fn
    anchors = rule_names()
    j = copy.deepcopy(fn.j)
    blocks = j["mir"]["blocks"]
    locs = j["mir"]["locals"]
    inlined = []
    for _round in range(depth):
        changed = False
        for bi in range(len(blocks)):
            b = blocks[bi]
            t = b["term"]
            if t["k"] != "call" or b.get("cleanup") or len(blocks) > max_blocks:
                continue
            f = t["func"].get("fn") or {}
            cid = (f.get("res") or {}).get("id") or f.get("id")
            g = F.fns.get(cid) if cid else None
            if (f.get("trait") or "") in ("std::ops::FnOnce", "std::ops::FnMut", "std::ops::Fn") and b.get("from") and len(t.get("args", [])) == 2:
                # inside an inlined helper: `update(history)` applies the helper's closure parameter - when the caller handed it a
                # closure literal, that closure's body is what runs here (`update_history(key, |h| h.reorg(n))`)
                clid = _closure_of_operand(blocks, locs, t["args"][0])
                cg = F.fns.get(clid) if clid else None
                if cg is not None and cg.blocks and cg.kind == "closure" and len(cg.blocks) <= 60 and cg.id != fn.id and inlined.count(cg.name) < 4:
                    n_args = cg.j["mir"]["argc"] - 1
                    off_l, off_b = len(locs), len(blocks)
                    for l in cg.j["mir"]["locals"]:
                        locs.append(dict(l))
                    dest, tgt = t["dest"], t.get("t")
                    for gbi, gb in enumerate(cg.j["mir"]["blocks"]):
                        nb = {"stmts": [_shift(s_, off_l, off_b) for s_ in gb["stmts"]], "term": _shift_term(gb["term"], off_l, off_b),
                              "from": gb.get("from") or [cg.id, gbi]}
                        if gb.get("cleanup"):
                            nb["cleanup"] = True
                        if gb["term"]["k"] == "return":
                            nb["stmts"].append({"k": "assign", "lhs": dict(dest), "rv": {"k": "use", "ops": [{"l": off_l, "k": "move"}]}, "line": t["loc"]["l"]})
                            nb["term"] = {"k": "goto", "t": tgt, "loc": gb["term"].get("loc", t["loc"])} if tgt is not None else {"k": "unreachable", "loc": t["loc"]}
                        blocks.append(nb)
                    b["stmts"].append({"k": "assign", "lhs": {"l": off_l + 1}, "rv": {"k": "use", "ops": [t["args"][0]]}, "line": t["loc"]["l"]})
                    tup = t["args"][1]
                    for i in range(n_args):
                        if "l" in tup:
                            src = {"l": tup["l"], "p": list(tup.get("p", [])) + [".%d" % i], "k": "copy"}
                            b["stmts"].append({"k": "assign", "lhs": {"l": off_l + 2 + i}, "rv": {"k": "use", "ops": [src]}, "line": t["loc"]["l"]})
                    b["term"] = {"k": "goto", "t": off_b, "loc": t["loc"]}
                    inlined.append(cg.name)
                    changed = True
                continue
            if g is None or not g.blocks or g.id == fn.id or g.kind not in ("method", "fn"):
                continue
            g_ty = (g.j.get("self_ty") or "").split("<")[0]
            # a conversion impl (`impl From<TxED> for WaitingTx`) written in the caller's file for a type of that file is a
            # constructor helper in trait clothing; the call is statically resolved to it
            conv_impl = (g.j.get("trait") or "").split("<")[0] in ("std::convert::From", "std::convert::TryFrom", "std::default::Default") \
                and g.loc.get("f") == fn.loc.get("f") and g_ty in F.adt_by_name and g_ty not in heavy_types(F) \
                and (F.adt_by_name[g_ty].get("loc") or {}).get("f", g.loc.get("f")) == g.loc.get("f")
            # an impl of a *private helper trait of the caller's file* (`trait Guarded` implemented for Request and Notification so
            # that one generic function serves both): its methods are helpers of that file
            if g.j.get("trait") and not conv_impl and (g.j.get("trait_vis") or "Public") != "Public" \
                    and (g.j.get("trait_loc") or {}).get("f") == fn.loc.get("f") == g.loc.get("f"):
                conv_impl = True
            if (g.j.get("trait") and not conv_impl) or g.j.get("in_trait") or g.id in getattr(F, "_anchor_ids", ()):
                continue
            if (g.j.get("method") or g.name.split("::")[-1]) in anchors and g_ty not in also_types and g.id not in also_types and not conv_impl \
                    and type_known_to_rules(g_ty):
                continue        # (a name some rule looks for stays a call - except on a type / function the caller asked to open up)
            same_type = g_ty == base_ty
            # a non-public function or method written in the same file as its caller (module privacy: only this module can call
            # it) - a free helper, or a private method put on another type of the module (`ConfigDatabase::record_creation_config`)
            same_file_free_fn = g.loc.get("f") == fn.loc.get("f")
            private_helper = ((same_type or same_file_free_fn) and (g.j.get("vis") or "") != "Public") or conv_impl
            # methods of small record types (not the engine, the database struct or a table type), whatever their visibility:
            # logic moved onto the record it concerns (`info.require_next_tx(..)`) is still the caller's logic
            light_method = (light or g_ty in also_types) and bool(g_ty) and g_ty not in heavy_types(F) and len(g.blocks) <= 120
            if not (private_helper or light_method):
                continue
            if g.name in inlined and _round > 0 and any(x == g.name for x in inlined[-50:]) and len(inlined) > 200:
                continue
            argc = g.j["mir"]["argc"]
            if argc != len(t.get("args", [])):
                continue
            off_l, off_b = len(locs), len(blocks)
            for l in g.j["mir"]["locals"]:
                locs.append(dict(l))
            dest = t["dest"]
            tgt = t.get("t")
            # is the helper's Result handed on (returned, or consumed by `?`) - then its error exits are error exits of the caller
            propagated = dest["l"] == 0 and not dest.get("p")
            if not propagated and not dest.get("p"):
                # handed on: consumed by `?`, or mapped by a Result adapter (`.map(|_| ())`, `.map_err(..)`) / moved into a
                # local that is itself handed on (the return slot of an enclosing inlined helper, the return place)
                frontier, seen_l = {dest["l"]}, set()
                rets_known = {0} | set(j.get("ret_locals", []))
                for _ in range(6):
                    nxt = set()
                    for l_ in frontier:
                        if l_ in seen_l:
                            continue
                        seen_l.add(l_)
                        if l_ in rets_known:
                            propagated = True
                        for ob in blocks:
                            if ob.get("cleanup"):
                                continue
                            for os_ in ob["stmts"]:
                                if os_["k"] == "assign" and os_["rv"]["k"] == "use" and os_["rv"]["ops"][0].get("l") == l_ and not os_["rv"]["ops"][0].get("p") \
                                        and not os_["lhs"].get("p"):
                                    nxt.add(os_["lhs"]["l"])
                            ot = ob["term"]
                            if ot["k"] == "call" and any(a.get("l") == l_ and not a.get("p") for a in ot.get("args", [])):
                                op_ = ((ot["func"].get("fn") or {}).get("path") or "")
                                if op_.endswith("Try::branch"):
                                    propagated = True
                                elif op_.split("::")[-1] in ("map", "map_err", "and_then", "or_else", "into", "from") and "Result" in op_:
                                    nxt.add(ot["dest"]["l"])
                    frontier = nxt
                    if propagated or not frontier:
                        break
            if propagated:
                j.setdefault("ret_locals", []).append(off_l)
            # a generic helper (`skip::<T>`) is inlined with its type parameters replaced by the call site's arguments, so a
            # `T::decode` inside it reads as the concrete component type
            gmap = {}
            gnames, gargs = g.j.get("generics") or [], f.get("args") or []
            if gnames and len(gnames) == len(gargs):
                gmap = {n: a for n, a in zip(gnames, gargs) if not n.startswith("'") and n != a and re.match(r"^[A-Za-z_][A-Za-z0-9_]*$", n)}
            for gbi, gb in enumerate(g.j["mir"]["blocks"]):
                nb = {"stmts": [_shift(s, off_l, off_b) for s in gb["stmts"]], "term": _shift_term(gb["term"], off_l, off_b),
                      "from": gb.get("from") or [g.id, gbi]}
                if gmap:
                    nb = _subst_generics(nb, gmap)
                    tt = nb["term"]
                    f2 = (tt.get("func") or {}).get("fn") if tt.get("k") == "call" else None
                    if f2 and f2.get("trait") and not f2.get("res") and f2.get("self_ty"):
                        # `message.guarded_method()` with T := Request: the impl is now known
                        want_ty = re.sub(r"<.*$", "", re.sub(r"^&(mut )?", "", f2["self_ty"])).strip()
                        cands = [g2 for g2 in F.fns.values() if g2.j.get("trait") == f2["trait"] and g2.j.get("method") == f2.get("method") and g2.blocks
                                 and re.sub(r"<.*$", "", g2.j.get("self_ty") or "").strip() == want_ty]
                        if len(cands) == 1:
                            f2["res"] = {"id": cands[0].id, "path": cands[0].name, "full": cands[0].name, "local": True, "kind": "Item"}
                if gb.get("cleanup"):
                    nb["cleanup"] = True
                if gb["term"]["k"] == "return":
                    nb["stmts"].append({"k": "assign", "lhs": dict(dest), "rv": {"k": "use", "ops": [{"l": off_l, "k": "move"}]}, "line": t["loc"]["l"]})
                    if tgt is not None:
                        nb["term"] = {"k": "goto", "t": tgt, "loc": gb["term"].get("loc", t["loc"])}
                    else:
                        nb["term"] = {"k": "unreachable", "loc": gb["term"].get("loc", t["loc"])}
                blocks.append(nb)
            for i, a in enumerate(t.get("args", [])):
                b["stmts"].append({"k": "assign", "lhs": {"l": off_l + 1 + i}, "rv": {"k": "use", "ops": [a]}, "line": t["loc"]["l"]})
            b["term"] = {"k": "goto", "t": off_b, "loc": t["loc"]}
            inlined.append(g.name)
            changed = True
        if not changed:
            break
    if not inlined:
        return fn
    j["inlined"] = inlined
    reg = F.__dict__.setdefault("_inl_children", {})
    for nm in inlined:
        for g in F.by_name.get(nm, []):
            reg.setdefault(fn.id, set()).add(g.id)
    nf = Fn(j, F)
    return nf
