"""UNORD rules (DESIGN 4.4): iteration-order taint.

U(site)  : the value is an iterator / sequence whose internal order is the
           iteration order of a std HashMap/HashSet (any hasher) created at site.
Sources  : resolved calls to HashMap/HashSet iteration APIs and IntoIterator for
           (&)HashMap/HashSet.
Flow     : through assignments, references, aggregates and calls (default: the
           result of a call carries the U-taint of its arguments) -- except into
           unordered/sorted containers, scalars via commutative consumers, and
           after a dominating `sort*` on the same root local.
           A `push`/`push_str`/`extend`/`insert(len)` on an outer ordered container
           inside a loop driven by a U iterator taints that container.
Sinks    : (ret) the function's return value -> interprocedural summary, callers
           continue the flow; (arg) a U value handed to a local function -> callee
           analysed with that parameter tainted; (terminal) a U value stored
           (map insert / DB put / Encode / hashing / string building) or returned
           by an entry function (RPC handler, trait callback).
Control  : an edge leaving a U-driven loop whose condition depends on the drawn
           element (other than `?` error propagation) makes the set of processed
           elements order dependent (U-EXIT).
Effects  : calls with `&mut` arguments inside a U-driven loop must be commutative
           keyed writes (auto-recognised) or rows of tables/unord_loops.json.
"""
import re
from collections import defaultdict

from terms import origin, show, calls_in, control_deps, leaves

HASH_ITER_METHODS = {"iter", "keys", "values", "iter_mut", "values_mut", "drain", "into_keys", "into_values", "into_iter",
                     "extract_if", "retain"}
HASH_TY_RE = re.compile(r"std::collections::(HashMap|HashSet)\b|hashbrown::|std::collections::hash_(map|set)::")
UNORDERED_OR_SORTED_CONTAINER_RE = re.compile(
    r"^(&(mut )?)?(std::collections::(HashMap|HashSet|BTreeMap|BTreeSet)<|hashbrown::)")
SCALAR_RE = re.compile(r"^(bool|u8|u16|u32|u64|u128|usize|i8|i16|i32|i64|i128|isize|\(\)|!)$")
COMMUTATIVE = {"len", "is_empty", "count", "sum", "product", "min", "max", "any", "all", "contains", "contains_key",
               "capacity", "size_hint"}
PICKS = {"last", "find", "find_map", "position", "nth", "take", "skip", "fold", "reduce", "for_each", "try_for_each",
         "try_fold", "take_while", "skip_while", "step_by", "first", "rev", "zip", "enumerate", "peekable", "nth_back",
         "rposition", "min_by", "max_by", "min_by_key", "max_by_key", "scan"}
SORTS = {"sort", "sort_by", "sort_by_key", "sort_unstable", "sort_unstable_by", "sort_unstable_by_key", "sort_by_cached_key"}
ORDERED_MUTATORS = {"push", "push_str", "push_back", "push_front", "extend", "extend_from_slice", "append", "insert",
                    "write", "write_all", "write_str", "write_fmt", "put_slice", "put_u8"}
KEYED_COMMUTATIVE_RE = re.compile(
    r"std::collections::(HashMap|HashSet|BTreeMap|BTreeSet)::<[^>]*>::(insert|remove|entry|get_mut|retain|clear)$|"
    r"rocksdb::.*::(put|delete|put_cf|delete_cf)$")
STORE_RE = re.compile(
    r"std::collections::(HashMap|BTreeMap)::<[^>]*>::insert$|rocksdb::.*::(put|put_cf|merge)$|"
    r"::Encode::encode$|::Encode::encode_vec$|keccak256$|sha256::digest$|::Serialize::serialize$|"
    r"rs_merkle::.*::from_leaves$|::Encodable::encode$|alloy_rlp::encode|::join$|::concat$")
TRY_BRANCH = "std::ops::Try::branch"


def is_hash_source(call):
    p = call.target_path or ""
    full = (call.res or {}).get("full") or call.full or ""
    m = call.method or p.split("::")[-1]
    if m not in HASH_ITER_METHODS:
        return False
    if m == "retain":
        return False
    if m == "into_iter":
        st = call.self_ty or ""
        # IntoIterator for HashMap / &HashMap / HashSet
        return bool(re.match(r"^&?('[a-z_]+ )?(mut )?std::collections::(HashMap|HashSet)<", st)) or \
            bool(re.match(r"^<&?('[a-z_]+ )?(mut )?std::collections::(HashMap|HashSet)<", full))
    return bool(re.match(r"^std::collections::(HashMap|HashSet)::<", p))


CARRY_RE = re.compile(r"Vec<|VecDeque<|\[|String|\bstr\b|Iter|iter::|impl |Keys|Values|Drain|Box<\[|LinkedList<")
GENERIC_RE = re.compile(r"(^|[<, (&])[A-Z][A-Za-z0-9]{0,2}($|[>, )])")


def make_can_carry(F):
    """types that can hold an ordered sequence: std sequences/iterators, generic params, and local ADTs that
    (transitively) own one"""
    carriers = set()
    changed = True
    while changed:
        changed = False
        for a in F.adts.values():
            if a["name"] in carriers:
                continue
            for v in a["variants"]:
                for fd in v["fields"]:
                    t = fd["ty"]
                    if CARRY_RE.search(t) or GENERIC_RE.search(t) or any(c in t for c in carriers):
                        carriers.add(a["name"])
                        changed = True
                        break
                if a["name"] in carriers:
                    break
    names = sorted(carriers, key=len, reverse=True)

    def can(ty):
        if UNORDERED_OR_SORTED_CONTAINER_RE.match(_strip(ty)):
            # a hash/btree container of sequences still carries them as values
            inner = ty[ty.find("<") + 1:]
            return bool(CARRY_RE.search(inner)) or any(n in inner for n in names)
        if CARRY_RE.search(ty) or GENERIC_RE.search(ty):
            return True
        return any(n in ty for n in names)
    return can


class Unord:
    def __init__(self, F, CG, loop_table=None):
        self.F = F
        self.CG = CG
        self.loop_table = loop_table or {}
        self.memo = {}
        self.in_progress = set()
        self.sources = []       # (fn, call)
        for f in F.body_fns():
            for c in f.calls():
                if not f.is_cleanup(c.bb) and is_hash_source(c):
                    self.sources.append((f, c))
        self.events = []        # terminal events: dict(kind, fn, where, site, detail)
        self.loops_seen = {}    # (fn id, head bb) -> info
        self.reviewed_effects = []
        self.can_carry = make_can_carry(F)
        self.debug = None

    # ---------- helpers
    def site_of(self, fn, call):
        return "%s@%s:%d" % (fn.name, call.t["loc"]["f"].split("/")[-1], call.line)

    def natural_loops(self, fn):
        dom = fn.dominators()
        loops = defaultdict(set)
        for b in dom:
            for s in fn.succ(b):
                if s in dom.get(b, ()):  # back edge b->s
                    body = {s, b}
                    st = [b]
                    preds = fn.preds()
                    while st:
                        x = st.pop()
                        if x == s:
                            continue
                        for p in preds[x]:
                            if p not in body and p in dom:
                                body.add(p)
                                st.append(p)
                    loops[s] |= body
        return loops

    INJECTIVE_CALLS = {"encode_vec", "encode", "clone", "to_vec", "to_owned", "as_ref", "as_slice", "deref", "borrow", "into", "from", "to_be_bytes",
                       "to_le_bytes", "to_string", "as_bytes", "as_str", "to_bytes", "into_inner", "cloned", "copied", "Reverse"}

    def _injective_in(self, t, pnames):
        """term t determines the element bound to one of the closure parameters pnames: the element itself or its `.0` (the key of
        a map entry - unique in a map), through conversions that lose nothing; a tuple is as fine as its finest component"""
        k = t[0]
        if k in ("ref", "deref"):
            return self._injective_in(t[1], pnames)
        if k == "param":
            return isinstance(t[1], int) and t[1] >= 2          # local 1 of a closure body is its environment
        if k == "field":
            return t[2] in (".0",) and self._injective_in(t[1], pnames) and t[1][0] != "field"
        if k == "call":
            return t[1].split("::")[-1].split("<")[0] in self.INJECTIVE_CALLS and bool(t[2]) and self._injective_in(t[2][0], pnames)
        if k == "agg":
            return any(self._injective_in(a, pnames) for a in t[2])
        return False

    def sort_is_total(self, fn, c):
        """the sort call c orders its elements by something that differs for any two of them: no key (Ord of the elements), a key
        closure whose result determines the element (or the entry's key), or a comparator `cmp` of two such projections, possibly
        refined by `then*`.  Anything else is not accepted as removing hash order"""
        from terms import closures_in_term
        if len(c.args) < 2:
            return True
        cids = closures_in_term(origin(fn, c.args[1]))
        if not cids:
            return False
        for cid in cids:
            cl = self.F.fns.get(cid)
            if cl is None:
                return False
            pn = None
            t = origin(cl, {"l": 0, "k": "copy"})
            alts = t[1] if t[0] == "phi" else [t]
            for a in alts:
                if not self._total_term(a, pn):
                    return False
        return True

    def _total_term(self, t, pn):
        if t[0] == "call":
            last = t[1].split("::")[-1].split("<")[0]
            if last in ("cmp", "partial_cmp", "total_cmp") and len(t[2]) == 2:
                return self._injective_in(t[2][0], pn) and self._injective_in(t[2][1], pn)
            if last in ("then", "then_with", "reverse", "unwrap", "unwrap_or", "expect") and t[2]:
                from terms import closures_in_term
                if self._total_term(t[2][0], pn):
                    return True
                return any(self._total_term(x, pn) for x in t[2][1:])
        return self._injective_in(t, pn)

    def root_local(self, fn, op, depth=0):
        """root local a reference-ish operand points to (through &, &mut, deref/deref_mut/as_mut_slice calls)"""
        if "l" not in op or depth > 12:
            return None
        l = op["l"]
        if op.get("p"):
            # place projection: root is the local itself (field of a local) unless deref
            if op["p"][0] != "*":
                return l
        lty = fn.local_ty(l)
        if not (lty.startswith("&") or lty.startswith("*")):
            return l      # an owned value is its own root
        defs = [d for d in fn.defs().get(l, []) if d[2] in ("assign", "call")]
        if len(defs) != 1:
            return l
        bb, idx, kind, payload = defs[0]
        if kind == "assign":
            rv = payload["rv"]
            if rv["k"] in ("ref", "rawptr"):
                pl = rv["place"]
                if pl.get("p") and pl["p"][0] == "*":
                    return self.root_local(fn, {"l": pl["l"]}, depth + 1)
                return pl["l"]
            if rv["k"] in ("use", "cast") and "l" in rv["ops"][0]:
                o = rv["ops"][0]
                if o.get("p") and o["p"][0] != "*":
                    return o["l"]
                return self.root_local(fn, {"l": o["l"]}, depth + 1)
            return l
        else:
            f = payload["func"].get("fn") or {}
            m = f.get("method") or f.get("path", "").split("::")[-1]
            if m in ("deref", "deref_mut", "as_mut", "as_ref", "as_mut_slice", "as_slice", "borrow", "borrow_mut",
                     "as_mut_vec", "by_ref", "iter", "iter_mut"):
                a = payload.get("args", [])
                if a and "l" in a[0]:
                    return self.root_local(fn, a[0], depth + 1)
            return l

    # ---------- per-function analysis with tainted params
    def analyze(self, fid, ptaint=frozenset()):
        """returns (ret_sites: frozenset of site strings flowing to the return value)"""
        key = (fid, ptaint)
        if key in self.memo:
            return self.memo[key]
        if key in self.in_progress:
            return frozenset()
        fn = self.F.fns.get(fid)
        if fn is None or not fn.blocks:
            return frozenset()
        self.in_progress.add(key)
        res = self._analyze(fn, ptaint)
        self.in_progress.discard(key)
        self.memo[key] = res
        return res

    def _analyze(self, fn, ptaint):
        F = self.F
        taint = defaultdict(set)      # local -> set(sites)   (U taint)
        elem = defaultdict(set)       # local -> set(sites)   (ELEM taint)
        taint_bb = defaultdict(dict)  # local -> site -> first bb where it got tainted
        sorts = defaultdict(list)     # root local -> [bb]
        for (l, site) in ptaint:
            taint[l].add(site)
            taint_bb[l][site] = 0
        loops = self.natural_loops(fn)
        dom = fn.dominators()

        def eff(l, bb):
            out = set()
            for s in taint.get(l, ()):
                ok = True
                for sb in sorts.get(l, []):
                    tb = taint_bb[l].get(s, 0)
                    if fn.dominates(sb, bb) and sb != bb and not (fn.dominates(sb, tb) and sb != tb):
                        ok = False
                if ok:
                    out.add(s)
            return out

        def op_taint(op, bb):
            if "l" not in op:
                return set()
            r = self.root_local(fn, op)
            out = set(eff(op["l"], bb))
            if r is not None and r != op["l"]:
                out |= eff(r, bb)
            return out

        def op_elem(op):
            if "l" not in op:
                return set()
            return set(elem.get(op["l"], ()))

        def add(l, sites, bb):
            ch = False
            if not self.can_carry(fn.local_ty(l)):
                return False
            for s in sites:
                if s not in taint[l]:
                    taint[l].add(s)
                    taint_bb[l][s] = bb
                    ch = True
            return ch

        # loop membership of blocks: bb -> set of loop heads
        in_loop = defaultdict(set)
        for h, body in loops.items():
            for b in body:
                in_loop[b].add(h)
        uloops = {}    # head -> set(sites) for loops driven by a U iterator
        next_blocks = {}

        changed = True
        rounds = 0
        while changed and rounds < 40:
            changed = False
            rounds += 1
            for bi, b in enumerate(fn.blocks):
                if b.get("cleanup"):
                    continue
                for s in b["stmts"]:
                    if s["k"] != "assign":
                        continue
                    rv = s["rv"]
                    lhs = s["lhs"]["l"]
                    ts = set()
                    es = set()
                    ops = list(rv.get("ops", []))
                    if "place" in rv:
                        ops.append(dict(rv["place"], k="copy"))
                    for o in ops:
                        ts |= op_taint(o, bi)
                        es |= op_elem(o)
                    if rv["k"] in ("bin", "un", "discr"):
                        ts = set()   # scalars computed from sequences carry no order
                    if ts and add(lhs, ts, bi):
                        changed = True
                    if es - elem[lhs]:
                        elem[lhs] |= es
                        changed = True
                t = b["term"]
                if t["k"] != "call":
                    continue
                c = self._call_at(fn, bi)
                dst = t["dest"]["l"]
                dty = fn.local_ty(dst)
                m = c.method or (c.target_path or "?").split("::")[-1]
                p = c.target_path or ""
                arg_ts = [op_taint(a, bi) for a in c.args]
                allts = set().union(*arg_ts) if arg_ts else set()
                arg_es = set().union(*[op_elem(a) for a in c.args]) if c.args else set()
                if is_hash_source(c):
                    if add(dst, {self.site_of(fn, c)}, bi):
                        changed = True
                    continue
                if m in SORTS and c.args:
                    r = self.root_local(fn, c.args[0])
                    # a sort removes hash order only if its key separates any two elements (ties keep their incoming order)
                    if r is not None and bi not in sorts[r] and self.sort_is_total(fn, c):
                        sorts[r].append(bi)
                        changed = True
                    continue
                if m in ("next", "next_back") and (c.trait or "").endswith("Iterator") and allts:
                    if allts - elem[dst]:
                        elem[dst] |= allts
                        changed = True
                    next_blocks[bi] = allts
                    for h in in_loop.get(bi, ()):
                        if h not in uloops or allts - uloops[h]:
                            uloops.setdefault(h, set()).update(allts)
                            changed = True
                    continue
                # ordered container mutated inside a U-driven loop, or fed a U value
                if m in ORDERED_MUTATORS and c.args and not KEYED_COMMUTATIVE_RE.search(p):
                    recv_ty = fn.local_ty(c.args[0]["l"]) if "l" in c.args[0] else ""
                    if not UNORDERED_OR_SORTED_CONTAINER_RE.match(_strip(recv_ty)):
                        r = self.root_local(fn, c.args[0])
                        sites = set()
                        for h in in_loop.get(bi, ()):
                            sites |= uloops.get(h, set())
                        for ats in arg_ts[1:]:
                            sites |= ats
                        if r is not None and sites and add(r, sites, bi):
                            changed = True
                    continue
                # local callee: use its summary for the tainted params
                tids = [x for x in self.CG.site_targets(c) if x in F.fns]
                local_direct = c.res and c.res.get("local") and c.res["id"] in F.fns
                if local_direct:
                    callee = F.fns[c.res["id"]]
                    pt = frozenset((i + 1, s) for i, ats in enumerate(arg_ts) for s in ats)
                    rs = self.analyze(callee.id, pt)
                    if rs and add(dst, rs, bi):
                        changed = True
                    continue
                # closures passed to foreign adapters: analyse closure bodies for their own returns (e.g. map(|x| ..))
                # default for foreign calls: result carries the U-taint of the arguments ...
                if allts:
                    if UNORDERED_OR_SORTED_CONTAINER_RE.match(_strip(dty)) or SCALAR_RE.match(dty.strip()):
                        pass
                    elif m in COMMUTATIVE:
                        pass
                    else:
                        if add(dst, allts, bi):
                            changed = True
                if arg_es and not SCALAR_RE.match(dty.strip()):
                    if arg_es - elem[dst]:
                        elem[dst] |= arg_es
                        changed = True
        if self.debug and self.debug in fn.name:
            for l in sorted(taint):
                if taint[l]:
                    print("   DBG %s _%d %s : %s @bb%s sorts=%s" % (fn.name[-40:], l, fn.local_ty(l)[:60], sorted(x.split("@")[-1] for x in taint[l]), taint_bb[l], sorts.get(l)))
        # ---------- sinks
        ret_sites = set()
        for rb in fn.return_blocks():
            ret_sites |= eff(0, rb)
        # terminal sinks at calls
        for bi, b in enumerate(fn.blocks):
            if b.get("cleanup") or b["term"]["k"] != "call":
                continue
            c = self._call_at(fn, bi)
            p = c.target_path or ""
            m = c.method or p.split("::")[-1]
            if is_hash_source(c) or m in SORTS:
                continue
            arg_ts = [op_taint(a, bi) for a in c.args]
            allts = set().union(*arg_ts) if arg_ts else set()
            if not allts:
                continue
            if m in PICKS and (c.trait or "").endswith("Iterator") or (m in ("first", "last") and "slice" in p):
                if m in ("for_each", "try_for_each") and self._closure_effects_commutative(fn, c):
                    continue        # a loop body in closure form whose only effects are keyed map updates: order irrelevant
                for s in sorted(allts):
                    self._event("U-PICK", fn, c, s, "order-sensitive consumer %s of an unordered sequence" % m)
            if STORE_RE.search(p) and not (KEYED_COMMUTATIVE_RE.search(p) and not any(arg_ts[2:] if len(arg_ts) > 2 else [])):
                # value argument of a store / encode / hash is order-tainted
                val_ts = set().union(*arg_ts[1:]) if len(arg_ts) > 1 else allts
                if KEYED_COMMUTATIVE_RE.search(p):
                    val_ts = set().union(*arg_ts[2:]) if len(arg_ts) > 2 else set()
                if (c.method in ("encode", "encode_vec", "serialize")):
                    val_ts = allts
                for s in sorted(val_ts):
                    self._event("U-STORE", fn, c, s, "unordered sequence reaches %s" % p.split("::")[-1])
        # U-EXIT and loop effects
        for h, sites in uloops.items():
            body = loops[h]
            self._check_loop(fn, h, body, sites, next_blocks, elem)
        return frozenset(ret_sites)

    def _call_at(self, fn, bi):
        for c in fn.calls():
            if c.bb == bi:
                return c
        raise KeyError

    def _event(self, kind, fn, c, site, detail):
        ev = {"kind": kind, "fn": fn.name, "where": c.where() if c is not None else fn.where(), "site": site, "detail": detail}
        if ev not in self.events:
            self.events.append(ev)

    def _check_loop(self, fn, h, body, sites, next_blocks, elem):
        key = (fn.id, h)
        info = self.loops_seen.setdefault(key, {"fn": fn.name, "sites": set(), "exits": [], "effects": [], "line": None})
        info["sites"] |= set(sites)
        nb = [b for b in next_blocks if b in body]
        if nb:
            info["line"] = fn.term(nb[0])["loc"]["l"]
        cd = control_deps(fn)
        # the exhaustion exit: switch on discr(next()) directly following a next block
        exhaustion = set()
        for b in nb:
            s = fn.succ(b)
            if s:
                exhaustion.add(s[0])
        for a in sorted(body):
            for s in fn.succ(a):
                if s in body:
                    continue
                if a in exhaustion:
                    continue
                if fn.term(s)["k"] == "unreachable":
                    continue        # the `otherwise` edge of an exhaustive match: not an exit
                # condition(s) controlling this exit inside the loop
                conds = []
                if fn.term(a)["k"] == "switch":
                    conds.append((a, s))
                else:
                    for (x, y) in cd.get(a, ()):
                        if x in body and x not in exhaustion:
                            conds.append((x, y))
                for (x, y) in conds:
                    term = origin(fn, fn.term(x)["discr"])
                    cs = calls_in(term)
                    if term[0] == "discr" and cs and cs[0][1].endswith("::branch") and "Try" in cs[0][1]:
                        continue  # `?`: error propagation
                    involves_elem = any(c[1].endswith("Iterator>::next") or c[1].endswith("::next") for c in cs) or \
                        self._term_uses_elem(fn, fn.term(x)["discr"], elem)
                    if involves_elem:
                        d = {"at": "%s:%d" % (fn.loc["f"], fn.term(x)["loc"]["l"]), "cond": show(term)[:200]}
                        if d not in info["exits"]:
                            info["exits"].append(d)
        # effects inside the loop
        for b in sorted(body):
            t = fn.term(b)
            if t["k"] != "call" or fn.is_cleanup(b):
                continue
            c = self._call_at(fn, b)
            p = c.target_path or ""
            has_mut = any("l" in a and re.match(r"^&('[a-z_]+ )?mut ", fn.local_ty(a["l"])) for a in c.args)
            if not has_mut:
                continue
            m = c.method or p.split("::")[-1]
            if (c.trait or "").endswith("Iterator") or m in ("deref_mut", "as_mut", "expect", "unwrap", "borrow_mut", "fmt", "by_ref"):
                continue
            kind = "keyed-commutative" if KEYED_COMMUTATIVE_RE.search(p) else ("ordered-mutator" if m in ORDERED_MUTATORS else "other")
            if kind == "other":
                kind = self._helper_effect(c) or kind
            if kind == "other":
                # a private helper (possibly taking a closure it applies to the state): its own mutable calls, and those of the
                # closure literal handed to it, are the loop's effects - reviewed rows name *those* callees
                ex = self._expand_effects(fn, c)
                if ex:
                    for (p2, k2, ln2) in ex:
                        d2 = {"callee": p2, "kind": k2, "line": ln2}
                        if d2 not in info["effects"]:
                            info["effects"].append(d2)
                    continue
            if kind == "ordered-mutator" and c.args:
                # pushing into a container *owned by this body* (a local Vec/String that is not a parameter and not reached
                # through one) makes that local order-tainted - which the taint pass above records and follows to every
                # sink (store / pick / return); the effect itself touches no shared state
                r = self.root_local(fn, c.args[0])
                argc = fn.j["mir"]["argc"]
                if r is not None and r > argc and not (fn.local_ty(r).startswith("&") or fn.local_ty(r).startswith("*")):
                    kind = "keyed-commutative"
            d = {"callee": p, "kind": kind, "line": c.line}
            if d not in info["effects"]:
                info["effects"].append(d)

    def _closure_effects_commutative(self, fn, c):
        """every closure literal handed to this call has only keyed-commutative mutable effects (and at least one closure is known)"""
        cls = [self.F.fns.get(x) for x in ((c.func or {}).get("arg_cl") or [])]
        if not cls or any(x is None for x in cls):
            return False
        for cl in cls:
            for cc in self._mut_calls(cl):
                pp = cc.target_path or ""
                if KEYED_COMMUTATIVE_RE.search(pp):
                    continue
                if (self._helper_effect(cc) or "") == "keyed-commutative":
                    continue
                return False
            # no direct stores through captured references either
            for b in cl.blocks:
                if b.get("cleanup"):
                    continue
                for st in b["stmts"]:
                    if st["k"] == "assign" and "*" in (st["lhs"].get("p") or []):
                        return False
        return True

    def _mut_calls(self, g):
        out = []
        for cc in g.calls():
            if g.is_cleanup(cc.bb):
                continue
            if not any("l" in a and re.match(r"^&('[a-z_]+ )?mut ", g.local_ty(a["l"])) for a in cc.args):
                continue
            pp = cc.target_path or ""
            mm = cc.method or pp.split("::")[-1]
            if (cc.trait or "").endswith("Iterator") or mm in ("deref_mut", "as_mut", "expect", "unwrap", "borrow_mut", "fmt", "by_ref"):
                continue
            out.append(cc)
        return out

    def _expand_effects(self, fn, c, depth=0):
        """[(callee path, kind, line)] of the mutable calls a private helper makes - through further private helpers, and through
        the closure literal(s) the call site hands it when the helper applies a closure parameter; None when it is not a
        private helper or something in it cannot be named"""
        from facts import is_private_helper
        g = self.F.fns.get(c.target_id) if c.target_id else None
        if g is None or not is_private_helper(g) or depth > 2:
            return None
        out = []
        closures = [self.F.fns.get(x) for x in ((c.func or {}).get("arg_cl") or [])]
        for cc in self._mut_calls(g):
            pp = cc.target_path or ""
            mm = cc.method or pp.split("::")[-1]
            if cc.trait in ("std::ops::FnOnce", "std::ops::FnMut", "std::ops::Fn") and cc.res is None:
                if not closures or any(x is None for x in closures):
                    return None
                for cl in closures:
                    for c3 in self._mut_calls(cl):
                        p3 = c3.target_path or ""
                        m3 = c3.method or p3.split("::")[-1]
                        out.append((p3, "keyed-commutative" if KEYED_COMMUTATIVE_RE.search(p3) else ("ordered-mutator" if m3 in ORDERED_MUTATORS else "other"), c.line))
                continue
            k2 = "keyed-commutative" if KEYED_COMMUTATIVE_RE.search(pp) else ("ordered-mutator" if mm in ORDERED_MUTATORS else "other")
            if k2 == "other":
                sub = self._expand_effects(g, cc, depth + 1)
                if sub:
                    out += sub
                    continue
            out.append((pp, k2, c.line))
        return out or None

    def _helper_effect(self, c, depth=0):
        """a private helper handed `&mut` state is what it does with it: keyed-commutative when every mutable call in its own
        body is (map insert/remove ...), recursively through further private helpers"""
        from facts import is_private_helper
        g = self.F.fns.get(c.target_id) if c.target_id else None
        if g is None or not is_private_helper(g) or depth > 2:
            return None
        kinds = set()
        for cc in g.calls():
            if g.is_cleanup(cc.bb):
                continue
            if not any("l" in a and re.match(r"^&('[a-z_]+ )?mut ", g.local_ty(a["l"])) for a in cc.args):
                continue
            pp = cc.target_path or ""
            mm = cc.method or pp.split("::")[-1]
            if (cc.trait or "").endswith("Iterator") or mm in ("deref_mut", "as_mut", "expect", "unwrap", "borrow_mut", "fmt", "by_ref"):
                continue
            if KEYED_COMMUTATIVE_RE.search(pp):
                kinds.add("keyed-commutative")
            elif mm in ORDERED_MUTATORS:
                kinds.add("ordered-mutator")
            else:
                kinds.add(self._helper_effect(cc, depth + 1) or "other")
        for b in g.blocks:
            if b.get("cleanup"):
                continue
            for st in b["stmts"]:
                if st["k"] == "assign" and "*" in (st["lhs"].get("p") or []) and re.match(r"^&('[a-z_]+ )?mut ", g.local_ty(st["lhs"]["l"])):
                    return None       # writes through the reference directly: last writer wins, order matters
        if kinds == {"keyed-commutative"}:
            return "keyed-commutative"
        return None

    def _term_uses_elem(self, fn, op, elem):
        if "l" not in op:
            return False
        # walk the def chain of the discriminant looking for ELEM-tainted locals
        seen = set()
        st = [op["l"]]
        while st:
            l = st.pop()
            if l in seen:
                continue
            seen.add(l)
            if elem.get(l):
                return True
            for (bb, idx, kind, payload) in fn.defs().get(l, []):
                if payload.get("k") == "assign":
                    rv = payload["rv"]
                    for o in rv.get("ops", []):
                        if "l" in o:
                            st.append(o["l"])
                    if "place" in rv:
                        st.append(rv["place"]["l"])
                elif payload.get("k") == "call":
                    for a in payload.get("args", []):
                        if "l" in a:
                            st.append(a["l"])
        return False

    # ---------- whole-program driver
    def run(self, entry_ids):
        """analyse every body (no tainted params) and report where U values reach entry returns"""
        ret = {}
        for f in self.F.body_fns():
            ret[f.id] = self.analyze(f.id, frozenset())
        out = []
        for e in entry_ids:
            for s in sorted(ret.get(e, ())):
                out.append({"kind": "U-RETURN", "fn": self.F.fns[e].name, "where": self.F.fns[e].where(), "site": s,
                            "detail": "entry function returns a sequence in hash-iteration order"})
        return ret, out


def _strip(t):
    return re.sub(r"^&('[a-z_0-9]+ )?(mut )?", "", t.strip())
