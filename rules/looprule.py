"""LOOP rules (DESIGN 4.11): request-controlled trip counts."""
from guards import edge_forms, lin
from terms import origin, show, rvalue_origin, control_deps, mentions
from unord import Unord
from facts import const_value

SUBS = {"Sub", "SubWithOverflow", "SubUnchecked"}


def _subterms(t, out):
    out.append(t)
    k = t[0]
    if k == "call" or k == "callind":
        for a in t[2]:
            _subterms(a, out)
    elif k in ("cast", "ref", "deref", "discr", "repeat", "field"):
        _subterms(t[1], out)
    elif k == "bin":
        _subterms(t[2], out)
        _subterms(t[3], out)
    elif k == "un":
        _subterms(t[2], out)
    elif k == "agg":
        for a in t[2]:
            _subterms(a, out)
    elif k == "phi":
        for a in t[1]:
            _subterms(a, out)
    return out


def loop_bounds(F, fn):
    """[(kind, bound term, line, bb, bound operand)] for `for x in a..b` loops (Range aggregates)"""
    out = []
    for bi, b in enumerate(fn.blocks):
        if b.get("cleanup"):
            continue
        for s in b["stmts"]:
            if s["k"] == "assign" and s["rv"]["k"] == "agg" and (s["rv"].get("adt") or "").startswith("std::ops::Range"):
                t = rvalue_origin(fn, s["rv"], 0, frozenset(), 60)
                if len(t[2]) >= 2:
                    out.append(("range", t[2][1], s.get("line"), bi, s["rv"]["ops"][1]))
    return out


def backward_locals(fn, op):
    """locals in the backward slice of an operand (through assignments and call arguments)"""
    seen = set()
    st = [op["l"]] if "l" in op else []
    while st:
        l = st.pop()
        if l in seen:
            continue
        seen.add(l)
        for (bb, idx, kind, payload) in fn.defs().get(l, []):
            if payload.get("k") == "assign":
                rv = payload["rv"]
                for o in rv.get("ops", []):
                    if "l" in o:
                        st.append(o["l"])
                if "place" in rv:
                    st.append(rv["place"]["l"])
            elif payload.get("k") == "call":
                for a in payload.get("args", []):
                    if "l" in a:
                        st.append(a["l"])
    return seen


def unguarded_subs(F, fn, bound, bound_op=None):
    """subtractions feeding a loop bound whose minuend is request derived (a parameter / capture or derived from one)
    and that no controlling comparison proves non-negative"""
    bad = []
    if bound_op is None:
        return bad
    slice_ = backward_locals(fn, bound_op)
    params = set(range(1, fn.argc + 1))
    for bi, b in enumerate(fn.blocks):
        if b.get("cleanup"):
            continue
        for s in b["stmts"]:
            if s["k"] == "assign" and s["rv"]["k"] == "bin" and s["rv"]["op"] in SUBS and s["lhs"]["l"] in slice_:
                a_op, b_op = s["rv"]["ops"]
                if "l" not in a_op:
                    continue
                if not (backward_locals(fn, a_op) & params) and fn.kind not in ("closure", "coroutine"):
                    continue
                a, bt = origin(fn, a_op), origin(fn, b_op)
                if not _nonneg_guard(fn, bi, a, bt):
                    bad.append((rvalue_origin(fn, s["rv"], 0, frozenset(), 12), [bi]))
    return bad


def _nonneg_guard(fn, bb, a, b):
    """some controlling edge of bb implies a - b >= 0"""
    want = lin(a).add(lin(b), -1)    # a - b
    seen = set()
    stack = [bb]
    forms = edge_forms(fn)
    while stack:
        x = stack.pop()
        if x in seen:
            continue
        seen.add(x)
        for (p, s) in control_deps(fn).get(x, set()):
            for (b2, s2, fm, line) in forms:
                if b2 == p and s2 == s and fm.rel == "<=":
                    # fm: e <= 0 ; need  -(a-b) + c <= 0 with c >= 0   i.e. e == -(a - b) + c, c >= 0
                    neg = want.neg()
                    d = fm.lin.add(neg, -1)
                    if not d.terms and d.k >= 0:
                        return True
                if b2 == p and s2 == s and fm.rel == "!=" and fm.lin.k == 0 and len(fm.lin.terms) == 1:
                    # unsigned x != 0  ==>  x - 1 >= 0
                    la, lb = lin(a), lin(b)
                    if not lb.terms and lb.k == 1 and _same_var(fm.lin, la):
                        return True
            stack.append(p)
    return False


def _same_var(l1, l2):
    """both are  ±1 * x  for the same variable x (phi of a mutable parameter counts as that parameter)"""
    def var(l):
        if len(l.terms) != 1 or l.k != 0:
            return None
        t = list(l.terms)[0]
        return _base_var(t)
    v1, v2 = var(l1), var(l2)
    return v1 is not None and v1 == v2


def _base_var(t):
    if t[0] == "param":
        return ("param", t[1])
    if t[0] == "loop":
        return ("param", t[1])
    if t[0] == "phi":
        vs = {_base_var(x) for x in t[1] if x[0] in ("param", "loop")}
        if len(vs) == 1:
            return vs.pop()
    if t[0] in ("cast", "deref", "ref"):
        return _base_var(t[1])
    return None


def proportional(fn, bound):
    """does the bound derive from an integer parameter used as given (not a collection length)?"""
    subs = _subterms(bound, [])
    has_len = any(x[0] == "call" and x[1].split("::")[-1] in ("len", "count") for x in subs)
    params = [x for x in subs if x[0] in ("param", "upvar")]
    return bool(params) and not has_len


# ---------------------------------------------------------------------------------------------------------------
# LOOP-PROGRESS: hand-written `loop`/`while` loops (no iterator drives them) make progress on every cycle

SHRINKERS = ("remove", "pop", "pop_front", "pop_back", "swap_remove", "truncate", "drain", "split_off", "clear")


def natural_loops(fn):
    """[(head, body blocks, back-edge sources)] on normal edges"""
    heads = {}
    for b in range(len(fn.blocks)):
        if fn.is_cleanup(b):
            continue
        for s in fn.succ(b):
            if fn.dominates(s, b):
                heads.setdefault(s, []).append(b)
    preds = fn.preds()
    out = []
    for h, backs in sorted(heads.items()):
        body = {h}
        st = list(backs)
        while st:
            x = st.pop()
            if x in body:
                continue
            body.add(x)
            st += [p for p in preds[x] if not fn.is_cleanup(p)]
        out.append((h, body, backs))
    return out


def every_cycle_passes(fn, bb):
    """the innermost natural loop containing block bb cannot go round (head -> ... -> head) without passing bb: what happens in
    bb happens once per iteration"""
    inner = [(h, body) for (h, body, backs) in natural_loops(fn) if bb in body]
    if not inner:
        return False
    h, body = min(inner, key=lambda x: len(x[1]))
    seen, st = set(), [sx for sx in fn.succ(h) if sx in body]
    while st:
        x = st.pop()
        if x == h:
            return False
        if x in seen or x == bb or x not in body:
            continue
        seen.add(x)
        st += [sx for sx in fn.succ(x) if sx in body]
    return True


def hand_written_loops(fn):
    """natural loops that are neither await polling loops, nor macro generated, nor driven by an iterator"""
    out = []
    for (h, body, backs) in natural_loops(fn):
        if any(fn.blocks[b]["term"]["k"] == "yield" for b in body):
            continue
        calls = [c for c in fn.calls() if c.bb in body and not fn.is_cleanup(c.bb)]
        if calls and all(c.from_expansion for c in calls):
            continue
        if any((c.path or "").endswith("Iterator::next") or (c.method or "") == "next" for c in calls):
            continue
        out.append((h, body, backs))
    return out


def _const_steps(fn, body):
    """{block: [local]} for stores `L = L ± c` (c a non-zero constant) inside `body`, directly or through the
    checked-arithmetic temporary (`t = AddWithOverflow(L, c); assert; L = move t.0`)"""
    tmps = {}
    out = {}

    def cnz(o):
        return o.get("k") == "const" and isinstance(const_value(o), int) and const_value(o) != 0

    for b in sorted(body):
        for s in fn.blocks[b]["stmts"]:
            if s["k"] != "assign" or s["lhs"].get("p"):
                continue
            rv = s["rv"]
            if rv["k"] == "bin" and any(rv["op"].startswith(x) for x in ("Add", "Sub")):
                a, c = rv["ops"]
                src = None
                if "l" in a and not a.get("p") and cnz(c):
                    src = a["l"]
                elif rv["op"].startswith("Add") and "l" in c and not c.get("p") and cnz(a):
                    src = c["l"]
                if src is not None:
                    if s["lhs"]["l"] == src:
                        out.setdefault(b, []).append(src)
                    else:
                        tmps[s["lhs"]["l"]] = src
    for b in sorted(body):
        for s in fn.blocks[b]["stmts"]:
            if s["k"] == "assign" and not s["lhs"].get("p") and s["rv"]["k"] == "use":
                o = s["rv"]["ops"][0]
                if "l" in o and o["l"] in tmps and o.get("p", []) in ([], [".0"]) and tmps[o["l"]] == s["lhs"]["l"]:
                    out.setdefault(b, []).append(s["lhs"]["l"])
    return out


def loop_progress(fn, h, body):
    """returns (ok, progress description, offending cycle blocks).  A cycle through the head must contain
    (P1) a constant non-zero step of a loop-carried local on which an exit test of the loop depends, or
    (P2) a shrinking call (remove/pop/...) on a collection on which an exit test depends."""
    # exit tests: switches inside the body with a successor outside the body (and calls whose unwind we ignore)
    exit_locals = set()
    for b in body:
        t = fn.blocks[b]["term"]
        if t["k"] == "switch" and any(s not in body for s in fn.succ(b)):
            if "l" in t["discr"]:
                exit_locals |= backward_locals(fn, t["discr"])
    prog_blocks = {}
    for b, ls in _const_steps(fn, body).items():
        for l in ls:
            if l in exit_locals:
                prog_blocks.setdefault(b, []).append("%s += c" % (fn.local_name(l) or "_%d" % l))
    for b in body:
        t = fn.blocks[b]["term"]
        if t["k"] == "call":
            f = t["func"].get("fn") or {}
            m = f.get("method") or (f.get("path") or "").split("::")[-1]
            if m in SHRINKERS and t.get("args") and "l" in t["args"][0]:
                if backward_locals(fn, t["args"][0]) & exit_locals:
                    prog_blocks.setdefault(b, []).append("%s()" % m)
    # a cycle through h that avoids every progress block?
    seen = set()
    st = [s for s in fn.succ(h) if s in body] if h not in prog_blocks else []
    parent = {}
    bad = None
    while st:
        x = st.pop()
        if x == h:
            bad = True
            break
        if x in seen or x in prog_blocks or x not in body:
            continue
        seen.add(x)
        for s in fn.succ(x):
            if s in body:
                parent.setdefault(s, x)
                st.append(s)
    desc = sorted({d for v in prog_blocks.values() for d in v})
    if bad:
        cyc = []
        x = h
        for _ in range(60):
            x = parent.get(x)
            if x is None or x in cyc:
                break
            cyc.append(x)
        return False, desc, list(reversed(cyc))
    return True, desc, []
