"""LOOP rules (DESIGN 4.11): request-controlled trip counts."""
from guards import edge_forms, lin
from terms import origin, show, rvalue_origin, control_deps, mentions
from unord import Unord

SUBS = {"Sub", "SubWithOverflow", "SubUnchecked"}


def _subterms(t, out):
    out.append(t)
    k = t[0]
    if k == "call" or k == "callind":
        for a in t[2]:
            _subterms(a, out)
    elif k in ("cast", "ref", "deref", "discr", "repeat", "field"):
        _subterms(t[1], out)
    elif k == "bin":
        _subterms(t[2], out)
        _subterms(t[3], out)
    elif k == "un":
        _subterms(t[2], out)
    elif k == "agg":
        for a in t[2]:
            _subterms(a, out)
    elif k == "phi":
        for a in t[1]:
            _subterms(a, out)
    return out


def loop_bounds(F, fn):
    """[(kind, bound term, line, bb, bound operand)] for `for x in a..b` loops (Range aggregates)"""
    out = []
    for bi, b in enumerate(fn.blocks):
        if b.get("cleanup"):
            continue
        for s in b["stmts"]:
            if s["k"] == "assign" and s["rv"]["k"] == "agg" and (s["rv"].get("adt") or "").startswith("std::ops::Range"):
                t = rvalue_origin(fn, s["rv"], 0, frozenset(), 60)
                if len(t[2]) >= 2:
                    out.append(("range", t[2][1], s.get("line"), bi, s["rv"]["ops"][1]))
    return out


def backward_locals(fn, op):
    """locals in the backward slice of an operand (through assignments and call arguments)"""
    seen = set()
    st = [op["l"]] if "l" in op else []
    while st:
        l = st.pop()
        if l in seen:
            continue
        seen.add(l)
        for (bb, idx, kind, payload) in fn.defs().get(l, []):
            if payload.get("k") == "assign":
                rv = payload["rv"]
                for o in rv.get("ops", []):
                    if "l" in o:
                        st.append(o["l"])
                if "place" in rv:
                    st.append(rv["place"]["l"])
            elif payload.get("k") == "call":
                for a in payload.get("args", []):
                    if "l" in a:
                        st.append(a["l"])
    return seen


def unguarded_subs(F, fn, bound, bound_op=None):
    """subtractions feeding a loop bound whose minuend is request derived (a parameter / capture or derived from one)
    and that no controlling comparison proves non-negative"""
    bad = []
    if bound_op is None:
        return bad
    slice_ = backward_locals(fn, bound_op)
    params = set(range(1, fn.argc + 1))
    for bi, b in enumerate(fn.blocks):
        if b.get("cleanup"):
            continue
        for s in b["stmts"]:
            if s["k"] == "assign" and s["rv"]["k"] == "bin" and s["rv"]["op"] in SUBS and s["lhs"]["l"] in slice_:
                a_op, b_op = s["rv"]["ops"]
                if "l" not in a_op:
                    continue
                if not (backward_locals(fn, a_op) & params) and fn.kind not in ("closure", "coroutine"):
                    continue
                a, bt = origin(fn, a_op), origin(fn, b_op)
                if not _nonneg_guard(fn, bi, a, bt):
                    bad.append((rvalue_origin(fn, s["rv"], 0, frozenset(), 12), [bi]))
    return bad


def _nonneg_guard(fn, bb, a, b):
    """some controlling edge of bb implies a - b >= 0"""
    want = lin(a).add(lin(b), -1)    # a - b
    seen = set()
    stack = [bb]
    forms = edge_forms(fn)
    while stack:
        x = stack.pop()
        if x in seen:
            continue
        seen.add(x)
        for (p, s) in control_deps(fn).get(x, set()):
            for (b2, s2, fm, line) in forms:
                if b2 == p and s2 == s and fm.rel == "<=":
                    # fm: e <= 0 ; need  -(a-b) + c <= 0 with c >= 0   i.e. e == -(a - b) + c, c >= 0
                    neg = want.neg()
                    d = fm.lin.add(neg, -1)
                    if not d.terms and d.k >= 0:
                        return True
                if b2 == p and s2 == s and fm.rel == "!=" and fm.lin.k == 0 and len(fm.lin.terms) == 1:
                    # unsigned x != 0  ==>  x - 1 >= 0
                    la, lb = lin(a), lin(b)
                    if not lb.terms and lb.k == 1 and _same_var(fm.lin, la):
                        return True
            stack.append(p)
    return False


def _same_var(l1, l2):
    """both are  ±1 * x  for the same variable x (phi of a mutable parameter counts as that parameter)"""
    def var(l):
        if len(l.terms) != 1 or l.k != 0:
            return None
        t = list(l.terms)[0]
        return _base_var(t)
    v1, v2 = var(l1), var(l2)
    return v1 is not None and v1 == v2


def _base_var(t):
    if t[0] == "param":
        return ("param", t[1])
    if t[0] == "loop":
        return ("param", t[1])
    if t[0] == "phi":
        vs = {_base_var(x) for x in t[1] if x[0] in ("param", "loop")}
        if len(vs) == 1:
            return vs.pop()
    if t[0] in ("cast", "deref", "ref"):
        return _base_var(t[1])
    return None


def proportional(fn, bound):
    """does the bound derive from an integer parameter used as given (not a collection length)?"""
    subs = _subterms(bound, [])
    has_len = any(x[0] == "call" and x[1].split("::")[-1] in ("len", "count") for x in subs)
    params = [x for x in subs if x[0] in ("param", "upvar")]
    return bool(params) and not has_len
