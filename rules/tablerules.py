"""Clauses about the database struct D, its table fields and the versioned
table types (TABLES / DOM / WIRE / GUARD instances shared by C01 C03 C04 C13)."""
import re

import roles
from guards import edge_forms, return_form, compare_form, lin
from terms import origin, show, rvalue_origin, calls_in, leaves, control_deps, bool_edge, call_origin, mentions


# ---------------------------------------------------------------- helpers

ACCESSORS = {}      # callee path -> field of D it hands out (see init_accessors)
_ACCESSOR_OK_CALLS = ("Option::<T>::as_ref", "Option::<T>::as_mut", "Option::<T>::expect", "Option::<T>::unwrap",
                      "Option::<&T>::expect", "Deref::deref", "DerefMut::deref_mut", "Option::<T>::as_deref", "Option::<T>::as_deref_mut")


def init_accessors(F):
    """field accessors of the database struct: methods taking only `self` whose every returned value is a reference
    into exactly one field of `*self`, reached through Option::as_ref/as_mut/expect only.  A call to one is read as
    the field itself, so `self.receipts_mut().commit(..)` is the same rule instance as
    `self.db_tx_receipt.as_mut().expect(..).commit(..)`."""
    ACCESSORS.clear()
    try:
        db = roles.database_struct(F)
    except Exception:
        return
    for f in F.fns.values():
        if f.kind != "method" or f.j.get("self_ty") != db["name"] or f.j.get("trait") or not f.blocks:
            continue
        if f.j["mir"]["argc"] != 1 or not (f.j.get("output") or "").startswith("&"):
            continue
        vals = [origin(f, {"l": 0, "k": "copy"})]
        if vals[0][0] == "phi":
            vals = list(vals[0][1])
        flds = set()
        ok = bool(vals)
        for v in vals:
            fl = self_fields(v)
            if len(set(fl)) != 1:
                ok = False
                break
            flds.add(fl[0])
            for c in calls_in(v):
                if not any(c[1].endswith(x) for x in _ACCESSOR_OK_CALLS):
                    ok = False
        if ok and len(flds) == 1:
            ACCESSORS[f.name] = flds.pop()


def self_fields(t, out=None):
    """names of fields of `*self` (param #1) mentioned in a term (a call to a field accessor of D counts as the field)"""
    if out is None:
        out = []
    k = t[0]
    if k == "call" and ACCESSORS and t[2]:
        nm = t[4] if len(t) > 4 and isinstance(t[4], str) and t[4] in ACCESSORS else t[1]
        if nm in ACCESSORS:
            b = t[2][0]
            while b[0] in ("deref", "ref", "cast"):
                b = b[1]
            if b[0] == "param" and b[1] == 1:
                out.append(ACCESSORS[nm])
                return out
    if k == "field":
        b = t[1]
        while b[0] in ("deref", "ref", "cast"):
            b = b[1]
        if b[0] == "param" and b[1] == 1:
            out.append(t[2][1:])
        self_fields(t[1], out)
    elif k in ("deref", "ref", "cast", "discr", "repeat"):
        self_fields(t[1], out)
    elif k == "call":
        for a in t[2]:
            self_fields(a, out)
    elif k == "callind":
        for a in t[2]:
            self_fields(a, out)
    elif k == "bin":
        self_fields(t[2], out)
        self_fields(t[3], out)
    elif k == "un":
        self_fields(t[2], out)
    elif k == "agg":
        for a in t[2]:
            self_fields(a, out)
    elif k == "phi":
        for a in t[1]:
            self_fields(a, out)
    return out


def error_blocks(fn):
    return fn.error_blocks()


def success_returns_avoiding(fn, avoid):
    """is a return block reachable from entry on normal edges avoiding `avoid` ∪ error blocks?"""
    av = set(avoid) | error_blocks(fn)
    reach = fn.reachable(0, avoid=av)
    return [b for b in fn.return_blocks() if b in reach]


def must_pass_on_success(fn, bbs):
    return not success_returns_avoiding(fn, bbs)


def _forwards_to(F, c, method_names):
    """the method of `method_names` a local trait method forwards to in every one of its implementations
    (`impl ReorgTable for BlockCachedDatabase { fn reorg_to(&mut self, n) { self.reorg(n) } }`), else None"""
    tr = c.trait or ""
    m = c.method or ""
    if not tr or not m:
        return None
    impls = [g for g in F.fns.values() if (g.j.get("trait") or "") == tr and g.j.get("method") == m and g.blocks]
    if not impls:
        return None
    found = set()
    for g in impls:
        inner = [x for x in g.calls() if not g.is_cleanup(x.bb)]
        fw = [x for x in inner if (x.method or "") in method_names and x.args and _strip_all(origin(g, x.args[0]))[0] == "param"
              and _strip_all(origin(g, x.args[0]))[1] == 1]
        # nothing but the forwarding call (and `?` / conversions of its result), all arguments handed on unchanged
        others = [x for x in inner if x not in fw and (x.method or "") not in ("branch", "from_residual", "into", "from")]
        if len(fw) != 1 or others:
            return None
        if any(_strip_all(origin(g, a))[0] != "param" for a in fw[0].args[1:]):
            return None
        found.add(fw[0].method)
    return found.pop() if len(found) == 1 else None


def _strip_all(t):
    while t[0] in ("deref", "ref", "cast"):
        t = t[1]
    return t


def _table_of_accessors(F, fn, recv):
    """receiver `(TABLE[i])(self)` of a call inside `for accessor in TABLE.iter()`: TABLE is a static array of non-capturing
    closures `|db| <a table field of db>`; returns the fields the closures return (one per element) or None.  The loop must
    draw every element (plain `iter()` / `into_iter()`, no adapter in between)."""
    from terms import subst_params
    t = _strip_all(recv)
    if t[0] != "callind":
        return None
    callee, args = t[1], t[2]
    statics = [x for x in _subterms(callee) if x[0] == "static"]
    adapters = {x[1].split("::")[-1] for x in calls_in(callee)}
    if len(statics) != 1 or not adapters <= {"iter", "into_iter", "next", "iter_mut", "deref"}:
        return None
    sname = statics[0][1]
    closures = [g for g in F.fns.values() if g.kind == "closure" and g.blocks
                and (g.j.get("parent") or "").endswith("::" + sname.split("::")[-1]) and g.name.startswith(sname + "::")]
    if not closures:
        return None
    fields = []
    import re as _re
    def _ord(g):
        m = _re.search(r"\{closure#(\d+)\}$", g.name)
        return int(m.group(1)) if m else 10 ** 6
    # closure ordinals follow source order: element i of the literal is {closure#i}
    for g in sorted(closures, key=_ord):
        gv = F.inlined(g)
        rets = _return_values(gv)
        if len(rets) != 1:
            return None
        rt = subst_params(rets[0], (("unknown", "closure-self"),) + tuple(args))
        fl = self_fields(rt)
        if len(set(fl)) != 1:
            return None
        fields.append(fl[0])
    return fields


def _subterms(t):
    from terms import subterms
    return subterms(t)


def _array_of_receivers(recv):
    """receiver drawn from a local array literal of table references iterated in full
    (`for s in [store(&mut self.a), store(&mut self.b)] { s.commit_at(h)? }`): the fields, one per element, else None"""
    arrs = [x for x in _subterms(recv) if x[0] == "agg" and x[1] == "array" and len(x[2]) >= 2]
    if len(arrs) != 1:
        return None
    a = arrs[0]
    # between the literal and the receiver only element drawing: next / into_iter / iter / iter_mut / deref, `Some.0`
    t = recv
    while t is not a:
        if t[0] in ("ref", "deref", "cast"):
            t = t[1]
        elif t[0] == "field" and (t[2] in (".0",) or "Some" in t[2]):
            t = t[1]
        elif t[0] == "call" and t[1].split("::")[-1] in ("next", "into_iter", "iter", "iter_mut", "deref", "deref_mut", "as_mut_slice", "as_slice") and t[2]:
            t = t[2][0]
        else:
            return None
    fields = []
    for e in a[2]:
        fl = self_fields(e)
        if len(set(fl)) != 1:
            return None
        fields.append(fl[0])
    return fields


def calls_on_field(fn, method_names):
    """{field: [Call]} for calls whose callee method is in method_names and whose receiver derives from self.<field>.
    Two indirections are looked through: a local trait method that only forwards to the wanted method in all its impls
    (`reorg_to` -> `reorg`), and a receiver obtained from a static table of field accessors iterated in full (the call then
    stands for one call per table entry)."""
    out = {}
    F = fn.facts
    for c in fn.calls():
        if fn.is_cleanup(c.bb):
            continue
        m = c.method or (c.target_path or "").split("::")[-1]
        if not c.args:
            continue
        if m not in method_names:
            if not (c.trait and c.target_id and c.target_id in F.fns and not F.fns[c.target_id].blocks or (c.trait or "").startswith("db::")):
                continue
            if _forwards_to(F, c, method_names) is None:
                continue
        recv = origin(fn, c.args[0])
        arr = _array_of_receivers(recv)
        if arr:
            drv = _loop_driver(fn, c)
            if drv is not None:
                for i, f in enumerate(arr):
                    out.setdefault(f, []).append(VCall(c, i, drv[0], drv[1]))
            continue
        flds = self_fields(recv)
        if not flds:
            tf = _table_of_accessors(F, fn, recv)
            drv = _loop_driver(fn, c) if tf else None
            if tf and drv is not None:
                for i, f in enumerate(tf):
                    out.setdefault(f, []).append(VCall(c, i, drv[0], drv[1]))
            continue
        for f in flds[:1]:
            out.setdefault(f, []).append(c)
    return out


class VCall:
    """one entry of a table-driven call site: the call `c` inside `for accessor in TABLE.iter()` standing for TABLE[index]"""
    virtual = True

    def __init__(self, c, index, driver_bb, body):
        self.c, self.index, self.driver_bb, self.body = c, index, driver_bb, body
        self.bb, self.args, self.method, self.self_ty, self.target_path, self.t = c.bb, c.args, c.method, c.self_ty, c.target_path, c.t
        self.trait, self.path, self.line = c.trait, c.path, c.line

    def where(self):
        return self.c.where()


def _loop_driver(fn, c):
    """(block of the `next()` call that drives the innermost loop around call c, that loop's body) when every iteration passes c"""
    import looprule as LR
    inner = [(h, body) for (h, body, backs) in LR.natural_loops(fn) if c.bb in body]
    if not inner or not LR.every_cycle_passes(fn, c.bb):
        return None
    h, body = min(inner, key=lambda x: len(x[1]))
    nx = [x for x in fn.calls() if x.bb in body and (x.method or "") == "next" and not fn.is_cleanup(x.bb)]
    if len(nx) != 1:
        return None
    return nx[0].bb, body


def on_every_success_path(fn, cs):
    """some call of cs is executed on every success path (a table-driven entry: its loop is entered on every success path and
    every iteration passes the call - the table is a non-empty literal, each entry is drawn)"""
    real = [c.bb for c in cs if not getattr(c, "virtual", False)]
    virt = [c for c in cs if getattr(c, "virtual", False)]
    if real and must_pass_on_success(fn, real):
        return True
    return any(must_pass_on_success(fn, [v.driver_bb]) for v in virt)


def precedes(fn, a, b):
    """a is executed before b on every success path that reaches b"""
    va, vb = getattr(a, "virtual", False), getattr(b, "virtual", False)
    if va and vb:
        if a.c is b.c:
            return a.index < b.index
        return b.driver_bb not in a.body and fn.sdominates(a.driver_bb, b.driver_bb)
    if va:
        return b.bb not in a.body and fn.sdominates(a.driver_bb, b.bb)
    if vb:
        return a.bb not in b.body and fn.sdominates(a.bb, b.driver_bb)
    return fn.sdominates(a.bb, b.bb) and a.bb != b.bb


def db_fn(F, method):
    db = roles.database_struct(F)
    cands = [f for f in F.fns.values() if f.kind == "method" and f.j.get("self_ty") == db["name"]
             and f.j.get("method") == method and not f.j.get("trait")]
    return F.inlined(cands[0]) if len(cands) == 1 else None


# ---------------------------------------------------------------- TABLES

LIFECYCLE = {
    # D method -> {table type suffix: table method}
    "commit_changes": {"BlockCachedDatabase": "commit", "BlockDatabase": "commit", "ConfigDatabase": "flush"},
    "clear_caches": {"BlockCachedDatabase": "clear_cache", "BlockDatabase": "clear_cache"},
    "reorg": {"BlockCachedDatabase": "reorg", "BlockDatabase": "reorg"},
}


def fields_touched(F, dmethods, depth=4):
    """table fields of D that the given D methods (and the D methods they call on self) call anything on"""
    db = roles.database_struct(F)
    tfs = {f for (f, _, _) in roles.table_fields(F)}
    out, seen = set(), set()
    work = [(db_fn(F, m), 0) for m in dmethods]
    while work:
        fn, d = work.pop()
        if fn is None or fn.id in seen:
            continue
        seen.add(fn.id)
        for body in [fn] + F.descendants(fn.id):
            for c in body.calls():
                if body.is_cleanup(c.bb):
                    continue
                fl = recv_field(body, c) if body is fn else None
                if fl in tfs:
                    out.add(fl)
                g = F.fns.get(c.target_id) if c.target_id else None
                if g is not None and g.blocks and g.j.get("self_ty") == db["name"] and d < depth:
                    work.append((g, d + 1))
    return out


def clause_tables(R, F, dmethod, only_fields=None):
    """every table field (or every one of `only_fields`) is visited by the life-cycle method on every success path"""
    fn = db_fn(F, dmethod)
    if fn is None:
        R.violation("TABLES", "database", "TABLES|%s|missing" % dmethod, "database method %s not found" % dmethod)
        return
    tf = roles.table_fields(F)
    want = LIFECYCLE[dmethod]
    n = 0
    for (field, ttype, fullty) in tf:
        short = ttype.split("::")[-1]
        if short not in want or (only_fields is not None and field not in only_fields):
            continue
        meth = want[short]
        cs = calls_on_field(fn, {meth}).get(field, [])
        cs = [c for c in cs if getattr(c, "virtual", False) or short in (c.self_ty or c.target_path or "")]
        ok = bool(cs) and on_every_success_path(fn, cs)
        n += 1
        R.ob(ok, "TABLES", fn.where(), "TABLES|%s|%s" % (dmethod, field),
             "%s does not call %s::%s on self.%s on every success path%s" % (
                 fn.name.split("::")[-1], short, meth, field, "" if cs else " (no such call at all)"),
             sample={"rule": "TABLES", "method": dmethod, "field": field, "call": "%s::%s" % (short, meth),
                     "at": cs[0].where() if cs else None})
    return n


def clause_tables_new(R, F):
    """D::new opens every table, each under its own distinct directory name"""
    fn = db_fn(F, "new")
    db = roles.database_struct(F)
    tf = {f: t for (f, t, _) in roles.table_fields(F)}
    agg = None
    for b in fn.blocks:
        for s in b["stmts"]:
            if s["k"] == "assign" and s["rv"]["k"] == "agg" and s["rv"].get("adt") == db["name"]:
                agg = rvalue_origin(fn, s["rv"], 0, frozenset(), 30)
    if agg is None:
        R.violation("TABLES", fn.where(), "TABLES|new|aggregate", "D::new builds no %s value" % db["name"])
        return
    names = {}
    for fld, op in zip(agg[3], agg[2]):
        if fld not in tf:
            continue
        cs = [c for c in calls_in(op) if c[1].endswith("::new") and tf[fld].split("::")[-1] in c[1]]
        ok = bool(cs)
        dirname = None
        if cs:
            for a in cs[0][2]:
                for lf in leaves(a):
                    if lf[0] == "const" and lf[1].startswith("'"):
                        dirname = lf[1].strip("'")
        R.ob(ok and dirname is not None, "TABLES", fn.where(), "TABLES|new|%s" % fld,
             "field %s is not initialised by %s::new(path, <name>)" % (fld, tf[fld]),
             sample={"rule": "TABLES new", "field": fld, "dir": dirname})
        if dirname:
            names.setdefault(dirname, []).append(fld)
    for d, flds in names.items():
        R.ob(len(flds) == 1, "TABLES", fn.where(), "TABLES|new|dir:%s" % d,
             "tables %s share the on-disk directory %r" % (flds, d))
    # versioned tables additionally derive a `<name>_cache` directory: names must not collide with it
    for d in names:
        R.ob(d + "_cache" not in names, "TABLES", fn.where(), "TABLES|new|dir-cache:%s" % d,
             "directory %r collides with the history directory of table %r" % (d + "_cache", d))


def clause_clear_resets_height(R, F):
    fn = db_fn(F, "clear_caches")
    hits = []
    for bi, b in enumerate(fn.blocks):
        for s in b["stmts"]:
            if s["k"] == "assign" and s["lhs"].get("p") and s["lhs"]["p"][-1] == ".latest_block_number":
                t = rvalue_origin(fn, s["rv"], 0, frozenset(), 10)
                if t[0] == "agg" and t[1].endswith("Option::None"):
                    hits.append(bi)
    R.ob(bool(hits) and must_pass_on_success(fn, hits), "TABLES", fn.where(), "TABLES|clear_caches|latest_block_number",
         "clear_caches does not reset the cached latest block (self.latest_block_number = None) on every success path",
         sample={"rule": "TABLES cached height reset", "blocks": hits})


def clause_derived_caches_coherent(R, F):
    """A non-table field of D that some reader prefers over a table (the cached chain tip) is re-derived whenever
    the table it shadows can lose rows: every D method that calls clear_cache / reorg on a shadowed table assigns the
    cache field (directly, or through a D method it calls) on every success path.  Otherwise the tip outlives the
    blocks it points at."""
    db = roles.database_struct(F)
    tfs = {f for (f, _, _) in roles.table_fields(F)}
    caches = [fd["name"] for fd in db["variants"][0]["fields"] if fd["name"] not in tfs and not fd["ty"].startswith("std::option::Option<db::")]
    caches = [c for c in caches if c not in tfs]
    from facts import is_private_helper
    dmethods = [F.inlined(f) for f in F.fns.values() if f.kind == "method" and f.j.get("self_ty") == db["name"] and not f.j.get("trait") and f.blocks
                and not is_private_helper(f)]
    pairs = []     # (cache field, shadowed table field)
    for f in dmethods:
        if f.j["mir"]["argc"] != 1:
            continue
        # a getter that switches on the cache field and falls back to a table
        reads_cache = set()
        for b in range(len(f.blocks)):
            t = f.term(b)
            if t["k"] == "switch" and not f.is_cleanup(b):
                reads_cache |= {x for x in self_fields(origin(f, t["discr"])) if x in caches}
        if reads_cache:
            for tf in fields_touched(F, [f.j["method"]], depth=0):
                for c in reads_cache:
                    pairs.append((c, tf))
    pairs = sorted(set(pairs))
    R.floor("derived_cache_pairs", len(pairs), 1)

    def assigns(fn, cache):
        hits = []
        for bi, b in enumerate(fn.blocks):
            if fn.is_cleanup(bi):
                continue
            for s2 in b["stmts"]:
                if s2["k"] == "assign" and s2["lhs"]["l"] == 1 and s2["lhs"].get("p") and s2["lhs"]["p"][-1] == "." + cache:
                    hits.append(bi)
        return hits

    memo = {}

    def resets(fn, cache, depth=0):
        k = (fn.id, cache)
        if k in memo:
            return memo[k]
        memo[k] = False
        hits = assigns(fn, cache)
        if depth < 4:
            for c in fn.calls():
                g = F.fns.get(c.target_id) if c.target_id else None
                if g is not None and g.blocks and g.j.get("self_ty") == db["name"] and not fn.is_cleanup(c.bb) and g.id != fn.id and resets(g, cache, depth + 1):
                    hits.append(c.bb)
        memo[k] = bool(hits) and must_pass_on_success(fn, hits)
        return memo[k]

    n = 0
    for (cache, table) in pairs:
        for m in dmethods:
            low = calls_on_field(m, {"clear_cache", "reorg"}).get(table, [])
            if not low:
                continue
            n += 1
            R.ob(resets(m, cache), "TABLES", m.where(), "TABLES|%s|%s" % (m.j["method"], cache),
                 "%s drops rows of self.%s (%s) but does not re-derive the cached self.%s on every success path: readers that "
                 "prefer the cache keep seeing a tip whose blocks are gone" % (m.j["method"], table, "/".join(sorted({c.method for c in low})), cache),
                 sample={"rule": "TABLES derived cache", "method": m.j["method"], "cache": cache, "shadows": table})
    R.floor("derived_cache_invalidation_sites", n, 2)


# ---------------------------------------------------------------- ordering in D

def clause_commit_order(R, F):
    """height source table durable before any state table; global flush first; clear_caches last"""
    fn = db_fn(F, "commit_changes")
    tf = roles.table_fields(F)
    # which table is the height derived from on reopen
    glh = db_fn(F, "get_latest_block_height")
    src_fields = set()
    for c in glh.calls():
        if (c.method or "") == "last_key" and c.args:
            src_fields |= set(self_fields(origin(glh, c.args[0])))
    R.ob(len(src_fields) == 1, "WIRE", glh.where(), "WIRE|get_latest_block_height|source",
         "latest height after reopen must come from exactly one committed table's last_key(); found %s" % sorted(src_fields),
         sample={"rule": "WIRE height source", "table": sorted(src_fields)})
    if len(src_fields) != 1:
        return
    src = list(src_fields)[0]
    commits = calls_on_field(fn, {"commit"})
    flush = calls_on_field(fn, {"flush"})
    hs = commits.get(src, [])
    R.ob(bool(hs), "DOM-order", fn.where(), "DOM-order|commit_changes|%s" % src, "height table %s is not committed" % src)
    if not hs:
        return
    hb = hs[0].bb
    for (field, ttype, _) in tf:
        if field == src:
            continue
        for c in commits.get(field, []):
            R.ob(precedes(fn, hs[0], c), "DOM-order", c.where(), "DOM-order|commit_changes|%s<%s" % (src, field),
                 "commit of table %s is not dominated by the commit of the table the height is read from after a reopen (%s): a crash in "
                 "between reopens at a height below rows that are already persisted, and a reorg to that height is a no-op that leaves "
                 "them behind" % (field, src),
                 sample={"rule": "DOM-order", "first": src, "then": field})
    for f2, cs in flush.items():
        for c in cs:
            R.ob(precedes(fn, c, hs[0]) or c.bb == hb, "DOM-order", c.where(), "DOM-order|commit_changes|flush<%s" % src,
                 "flush of %s does not precede the height table commit" % f2, sample={"rule": "DOM-order", "first": f2 + ".flush", "then": src})
    # clear_caches after all commits
    cc = [c for c in fn.calls() if (c.method or "") == "clear_caches" and not fn.is_cleanup(c.bb)]
    R.ob(bool(cc) and must_pass_on_success(fn, [c.bb for c in cc]), "DOM-order", fn.where(), "DOM-order|commit_changes|clear_caches",
         "commit_changes does not drop the caches after committing")
    for c in cc:
        for fld, cs in commits.items():
            for x in cs:
                R.ob(precedes(fn, x, c), "DOM-order", c.where(), "DOM-order|commit_changes|%s<clear" % fld,
                     "caches are dropped before %s is committed" % fld)


def clause_reorg_order(R, F):
    """D::reorg: depth check (against the recorded max, the one window constant) dominates every table call with
    Err on violation; every table reorg dominates commit_changes; commit_changes on every success path"""
    fn = db_fn(F, "reorg")
    reorgs = calls_on_field(fn, {"reorg"})
    all_reorg = [c for cs in reorgs.values() for c in cs]
    fld_of = {id(c): f for f, cs in reorgs.items() for c in cs}
    cc = [c for c in fn.calls() if (c.method or "") == "commit_changes" and not fn.is_cleanup(c.bb)]
    R.ob(bool(cc) and must_pass_on_success(fn, [c.bb for c in cc]), "DOM-order", fn.where(), "DOM-order|reorg|commit",
         "D::reorg does not commit on every success path")
    for c in cc:
        for x in all_reorg:
            R.ob(precedes(fn, x, c), "DOM-order", x.where(), "DOM-order|reorg|%s<commit" % (fld_of.get(id(x)) or "?"),
                 "a table reorg does not precede commit_changes")
    # depth guard
    guard = None
    for (b, s, fm, line) in edge_forms(fn):
        roles_, k, rel, bad = fm.roles(lambda a: _role_dreorg(a))
        if set(roles_) == {"max", "N"} and rel == "<=":
            # the edge leading to the error
            if s in error_blocks(fn) or _leads_to_error_only(fn, s):
                guard = (b, s, roles_, k, fm, line)
    ok = guard is not None
    R.ob(ok, "GUARD", fn.where(), "GUARD|D::reorg|depth", "D::reorg has no `max_recorded - N > window => Err` check")
    if guard:
        b, s, roles_, k, fm, line = guard
        # error edge form must be:  N - max + W + 1 <= 0   (i.e. max > W + N)
        want = roles_.get("N") == 1 and roles_.get("max") == -1 and k == 11
        R.ob(want and any("MAX_REORG_HISTORY_SIZE" in c for c in fm.lin.consts), "GUARD", "%s:%s" % (fn.loc["f"], line),
             "GUARD|D::reorg|depth-form", "depth check is `%s` on the error edge; expected `N - max + 10 + 1 <= 0` from MAX_REORG_HISTORY_SIZE" % fm.text(_role_dreorg),
             sample={"rule": "GUARD", "fn": "D::reorg", "error_edge": fm.text(_role_dreorg)})
        for x in all_reorg:
            R.ob(fn.sdominates(b, x.bb), "DOM-before", x.where(), "DOM-before|D::reorg|depth<%s" % (fld_of.get(id(x)) or "?"),
                 "table reorg is not dominated by the depth check")
        # max comes from the global table under the one key
        t = [a for a in fm.lin.terms if _role_dreorg(a) == "max"][0]
        R.ob(mentions(t, "db_global_values") and mentions(t, "MAX_BLOCK_NUMBER_KEY"), "WIRE", "%s:%s" % (fn.loc["f"], line),
             "WIRE|D::reorg|max-source", "depth check does not read the recorded maximum (db_global_values[MAX_BLOCK_NUMBER_KEY]): %s" % show(t)[:200])
    # every other refusal decision of D::reorg is a propagated error of a callee (`?`), not a condition of its own: a reorg
    # inside the window must be accepted
    for (ln, cond) in unexpected_refusals(fn, known_blocks={guard[0]} if guard else ()):
        R.violation("GUARD", "%s:%s" % (fn.loc["f"], ln), "GUARD|D::reorg|unexpected-refusal",
                    "D::reorg refuses on a condition the contract does not give (`%s`)" % cond)


def clause_reorg_height_last(R, F):
    """crash safety of D::reorg itself: every versioned (state) table is rolled back before the table the reopened
    height is derived from; otherwise a crash in between reopens at N with state still above N, and engine.reorg(N)
    returns early (N == current) and cannot clean up"""
    fn = db_fn(F, "reorg")
    glh = db_fn(F, "get_latest_block_height")
    src = set()
    for c in glh.calls():
        if (c.method or "") == "last_key" and c.args:
            src |= set(self_fields(origin(glh, c.args[0])))
    if len(src) != 1:
        R.violation("WIRE", glh.where(), "WIRE|get_latest_block_height|source", "height source table not unique: %s" % sorted(src))
        return
    src = list(src)[0]
    reorgs = calls_on_field(fn, {"reorg"})
    hs = reorgs.get(src, [])
    R.ob(bool(hs), "DOM-order", fn.where(), "DOM-order|D::reorg|%s" % src, "the height table %s is not rolled back" % src)
    tf = roles.table_fields(F)
    for (field, ttype, _) in tf:
        if not ttype.endswith("BlockCachedDatabase"):
            continue
        for c in reorgs.get(field, []):
            for h in hs:
                R.ob(precedes(fn, c, h), "DOM-order", h.where(), "DOM-order|D::reorg|%s<%s" % (field, src),
                     "the height table %s is rolled back before state table %s: a crash in between reopens at the target height with "
                     "state of orphaned blocks still present, and a reorg to that height is then a no-op" % (src, field),
                     sample={"rule": "DOM-order", "fn": "D::reorg", "first": field, "then": src})


def _role_dreorg(a):
    if a[0] == "param" and a[1] == 2:
        return "N"
    if mentions(a, "ConfigDatabase::get"):
        return "max"
    return None


def _leads_to_error_only(fn, s):
    """every return reachable from s passes an error block"""
    eb = error_blocks(fn)
    reach = fn.reachable(s, avoid=eb)
    return not any(b in reach for b in fn.return_blocks())


def unexpected_refusals(fn, known_blocks=(), allow=None):
    """[(line, condition text)] for the function's own refusal decisions: switches with an edge that leads to Err only (and
    another that does not), other than `?` on a callee's Result/Option, the blocks in `known_blocks`, and conditions `allow`
    accepts.  Used where a property says an operation is accepted *whenever* stated conditions hold."""
    eb = error_blocks(fn)
    out = []
    for b in range(len(fn.blocks)):
        t = fn.term(b)
        if t["k"] != "switch" or fn.is_cleanup(b) or b in known_blocks:
            continue
        succs = [sx for sx in fn.succ(b) if fn.term(sx)["k"] != "unreachable"]
        rej = [sx for sx in succs if sx in eb or _leads_to_error_only(fn, sx)]
        if not rej or len(rej) == len(succs):
            continue
        d = origin(fn, t["discr"])
        if d[0] == "discr" and mentions(d, "branch"):
            continue
        if allow is not None and allow(d):
            continue
        out.append((t.get("loc", {}).get("l"), show(d)[:100]))
    return out


def _mentions_deep(F, t, needle):
    from terms import mentions_deep
    return mentions_deep(F, t, needle)


def clause_index_scan_bounds(R, F, only_methods=None):
    """every range scan of the (block, index) -> hash table runs over [key(a, 0), key(b + 1, 0)) built by the one key helper:
    whole blocks, inclusive of block b, nothing of block b + 1"""
    from terms import calls_in as _calls_in
    db = roles.database_struct(F)
    n = 0
    from facts import is_private_helper
    for fn in list(F.fns.values()):
        if fn.kind != "method" or fn.j.get("self_ty") != db["name"] or not fn.blocks:
            continue
        if only_methods is not None and fn.j.get("method") not in only_methods:
            continue
        if is_private_helper(fn):
            continue            # a shared private scan helper is read in each of its callers (inlined below)
        fn = F.inlined(fn)
        for c in calls_on_field(fn, {"get_range"}).get("db_number_and_index_to_tx_hash", []):
            n += 1

            def key_arg(t):
                ks = [x for x in _calls_in(t) if x[1].endswith("get_number_and_index_key") and len(x[2]) == 2]
                if len(ks) != 1:
                    return None
                l0, l1 = lin(ks[0][2][0]), lin(ks[0][2][1])
                if len(l0.terms) != 1 or l1.terms or l1.k != 0:
                    return None
                return l0.k
            lo, hi = origin(fn, c.args[1]), origin(fn, c.args[2])
            R.ob(key_arg(lo) == 0 and key_arg(hi) == 1, "WIRE", c.where(), "WIRE|%s|scan-bounds" % fn.j.get("method"),
                 "%s scans the index over [%s, %s); expected [key(first block, 0), key(last block + 1, 0))" % (fn.j.get("method"), show(lo)[:60], show(hi)[:60]),
                 sample={"rule": "WIRE index scan bounds", "fn": fn.j.get("method"), "scan": "[key(a,0), key(b+1,0))"})
    return n


# ---------------------------------------------------------------- stamps

def clause_stamps(R, F, CG):
    """every versioned write in D is stamped with the height under construction"""
    db = roles.database_struct(F)
    tf = {f: t for (f, t, _) in roles.table_fields(F)}
    n = 0
    height_fns = {"get_next_block_height"}
    for fn in F.fns.values():
        if fn.j.get("self_ty") != db["name"] or not fn.blocks:
            continue
        for c in fn.calls():
            if fn.is_cleanup(c.bb):
                continue
            m = c.method or ""
            if m not in ("set", "unset") or "BlockCachedDatabase" not in (c.self_ty or c.target_path or ""):
                continue
            fld = (self_fields(origin(fn, c.args[0])) or ["?"])[0]
            t = origin(fn, c.args[1])
            n += 1
            ok, why = _stamp_ok(F, CG, fn, t, set())
            R.ob(ok, "WIRE-stamp", c.where(), "WIRE-stamp|%s|%s" % (fn.name.split("::")[-1], fld),
                 "write to %s in %s is stamped with `%s`, not with the height under construction (%s)" % (
                     fld, fn.name.split("::")[-1], show(t)[:120], why),
                 sample={"rule": "WIRE-stamp", "fn": fn.name.split("::")[-1], "table": fld, "stamp": show(t)[:100]})
    R.floor("versioned_write_sites", n, 13)


def _stamp_ok(F, CG, fn, t, seen, depth=0):
    while t[0] in ("cast", "ref", "deref"):
        t = t[1]
    if t[0] == "field" and t[2] in (".0",) and t[1][0] == "call" and t[1][1].endswith("Try::branch"):
        t = t[1]
    if t[0] == "field" and t[1][0] == "field":
        pass
    s = show(t)
    if t[0] == "const":
        return False, "const:%r" % (t[1],)
    # `next height + offset` inside a loop that finalises several blocks (mine_blocks): one +1 term that is the next height,
    # the rest a loop offset (range iterator / constants)
    lf = lin(t)
    if len(lf.terms) >= 2 and lf.k >= 0:
        base = [a for a, c in lf.terms.items() if c == 1 and any(x[1].split("::")[-1] == "get_next_block_height" for x in calls_in(a))
                and not any(x[1].split("::")[-1] == "get_latest_block_height" for x in calls_in(a))]
        rest = [a for a, c in lf.terms.items() if a not in base]
        if len(base) == 1 and all(lf.terms[a] > 0 and (mentions(a, "next") or mentions(a, "into_iter") or a[0] in ("loop", "phi")) for a in rest):
            return True, "get_next_block_height() + loop offset"
    # result of D::get_next_block_height / engine get_next_block_height (through `?`)
    cs = calls_in(t)
    if cs:
        heads = [c for c in cs if c[1].split("::")[-1] == "get_next_block_height"]
        if heads and all(x[1].split("::")[-1] in ("branch", "get_next_block_height", "from", "into", "map_err", "clone")
                         for x in cs):
            return True, "get_next_block_height()"
        if any(c[1].split("::")[-1] == "get_latest_block_height" for c in cs):
            return False, "the latest (already finalised) height"
        return False, "derived from %s" % ", ".join(sorted({c[1].split("::")[-1] for c in cs}))
    if t[0] == "field" and t[1][0] in ("field", "call"):
        return False, "derived from a field"
    if t[0] == "field":
        base = t[1]
        while base[0] in ("cast", "ref", "deref"):
            base = base[1]
        if base[0] == "param" and isinstance(base[1], int):
            # a field of a parameter struct (`slot.block_height`): what each caller put into that field
            from terms import simplify as _simp
            key = (fn.id, base[1], t[2])
            if key in seen or depth > 6:
                return True, "recursive"
            seen.add(key)
            callers = [(g, c) for g in F.body_fns() for c in g.calls() if c.target_id == fn.id and not g.is_cleanup(c.bb)]
            if not callers:
                return True, "no callers in the crate (public API parameter)"
            for g, c in callers:
                if base[1] - 1 >= len(c.args):
                    continue
                a = origin(g, c.args[base[1] - 1])
                while a[0] in ("cast", "ref", "deref"):
                    a = a[1]
                ok, why = _stamp_ok(F, CG, g, _simp(("field", a, t[2])), seen, depth + 1)
                if not ok:
                    return False, "caller %s passes %s" % (g.name.split("::")[-1], why)
            return True, "all callers put the height under construction into %s" % t[2]
    if t[0] == "param":
        # recurse into callers: the argument at that position
        key = (fn.id, t[1])
        if key in seen or depth > 6:
            return True, "recursive"
        seen.add(key)
        callers = []
        for g in F.body_fns():
            for c in g.calls():
                if c.target_id == fn.id and not g.is_cleanup(c.bb):
                    callers.append((g, c))
        if not callers:
            return True, "no callers in the crate (public API parameter)"
        for g, c in callers:
            idx = t[1] - 1
            if idx >= len(c.args):
                continue
            ok, why = _stamp_ok(F, CG, g, origin(g, c.args[idx]), seen, depth + 1)
            if not ok and why == "const:0" and _genesis_guard(g, c):
                # height 0 while block 0 does not exist: the height under construction *is* 0
                continue
            if not ok:
                return False, "caller %s passes %s" % (g.name.split("::")[-1], why)
        return True, "all callers pass the height under construction"
    if t[0] == "upvar":
        pf = F.fns.get(fn.j.get("parent"))
        if pf:
            for b in pf.blocks:
                for st in b["stmts"]:
                    if st["k"] == "assign" and st["rv"]["k"] == "agg" and st["rv"].get("def") == fn.id:
                        ops = st["rv"]["ops"]
                        if t[1] < len(ops):
                            return _stamp_ok(F, CG, pf, origin(pf, ops[t[1]]), seen, depth + 1)
        return False, "unresolved capture"
    if t[0] == "phi":
        for x in t[1]:
            ok, why = _stamp_ok(F, CG, fn, x, seen, depth + 1)
            if not ok:
                return ok, why
        return True, "phi"
    return False, "origin %s" % s[:80]


def _genesis_guard(g, c):
    """call c in g is control dependent on `get_block_by_number(0)...is_none() == true`"""
    for (a, s) in control_deps(g).get(c.bb, set()):
        be = bool_edge(g, a, s)
        if not be:
            continue
        t, truth = be
        if ((truth is True and mentions(t, "is_none")) or (truth is False and mentions(t, "is_some"))) and mentions(t, "get_block_by_number"):
            for x in calls_in(t):
                if x[1].split("::")[-1] == "get_block_by_number" and len(x[2]) > 1 and x[2][1][0] == "const" and x[2][1][1] == 0:
                    return True
    return False


def clause_max_monotone(R, F):
    """the store of the recorded maximum must be conditional on new > stored (or go through max)"""
    db = roles.database_struct(F)
    sites = []
    from facts import is_private_helper
    for fn0 in F.fns.values():
        if fn0.j.get("self_ty") != db["name"] or not fn0.blocks or is_private_helper(fn0):
            continue
        fn = F.inlined(fn0)
        for c in fn.calls():
            if (c.method or "") == "set" and "ConfigDatabase" in (c.self_ty or c.target_path or "") and not fn.is_cleanup(c.bb):
                k = show(origin(fn, c.args[1]))
                if "MAX_BLOCK_NUMBER_KEY" in k:
                    sites.append((fn, c))
    R.floor("max_block_store_sites", len(sites), 1)
    for fn, c in sites:
        val = origin(fn, c.args[2])
        vs = show(val)
        through_max = any(x[1].split("::")[-1] in ("max",) for x in calls_in(val))
        cd = control_deps(fn).get(c.bb, set())
        guarded = False
        for (a, s) in cd:
            t = fn.term(a)
            if t["k"] != "switch":
                continue
            f = compare_form(origin(fn, t["discr"]))
            if f is None:
                continue
            tt = origin(fn, t["discr"])
            if mentions(tt, "ConfigDatabase::get") and mentions(tt, "MAX_BLOCK_NUMBER_KEY"):
                # ... and the edge taken to the store says new > stored (or >=): `!=` also passes a *smaller* number
                from guards import edge_forms as _ef

                def role(a_):
                    if mentions(a_, "ConfigDatabase::get") and mentions(a_, "MAX_BLOCK_NUMBER_KEY"):
                        return "stored"
                    if mentions(a_, "block_number"):
                        return "new"
                    return None
                for (b_, s_, fm_, _ln) in _ef(fn):
                    if b_ != a or s_ != s:
                        continue
                    r_, k_, rel_, bad_ = fm_.roles(role)
                    if not bad_ and rel_ == "<=" and r_ == {"stored": 1, "new": -1} and k_ in (0, 1):
                        guarded = True
        R.ob(through_max or guarded, "MONO", c.where(), "MONO|%s|max_block_number" % fn.name.split("::")[-1],
             "the recorded maximum block number is overwritten unconditionally with `%s`: after a reorg and one new block it "
             "moves backwards, so a later reorg deeper than the pruned history is accepted" % vs[:80],
             sample={"rule": "MONO", "fn": fn.name, "value": vs[:80], "guarded": guarded, "max": through_max})


def clause_next_height_siblings(R, F):
    """engine and database 'height under construction' agree case by case: no block => 0, else last + 1"""
    eng = [f for f in F.fns.values() if f.j.get("method") == "get_next_block_height" and f.blocks and f.kind == "method"]
    R.floor("next_height_fns", len(eng), 2)
    for fn in eng:
        vals = _return_values(fn)
        is_db = fn.j.get("self_ty") == roles.database_struct(F)["name"]
        # classify every returned value as  k + c
        forms = []
        for t0 in vals:
            # `Ok(if c { 1 } else { 0 })` returns a choice of values: each alternative is a case of its own
            for t in (t0[1] if t0[0] == "phi" else (t0,)):
                l = lin(t)
                forms.append((l, show(t)))
        for l, s in forms:
            atoms = [show(a) for a in l.terms]
            R.samples.append({"rule": "NEXT-HEIGHT", "fn": fn.name, "returns": "%s  [k=%d]" % (s[:120], l.k)})
        if is_db:
            # the value when no block exists: the default of `last_key().unwrap_or(d) + c` or of `last_key().map_or(d, f)`
            found = 0
            for l, s in forms:
                for a in l.terms:
                    for c in calls_in(a):
                        m = c[1].split("::")[-1]
                        if m in ("unwrap_or", "map_or") and (mentions(c, "last_key") or _mentions_deep(F, c, "last_key")):
                            d = lin(c[2][1])
                            empty_value = d.k + (l.k if m == "unwrap_or" else 0)
                            found += 1
                            R.ob(empty_value == 0 and not d.terms, "NEXT-HEIGHT", fn.where(),
                                 "NEXT-HEIGHT|%s|empty" % fn.name.split("::")[-2],
                                 "on an empty database (no last key) the stamp height evaluates to %d; the engine builds height 0 "
                                 "first, so genesis state is stamped %d and a reorg to 0 drops it" % (empty_value, empty_value),
                                 sample={"rule": "NEXT-HEIGHT", "fn": fn.name, "empty_db_value": empty_value})
                            if m == "map_or":
                                # the non-empty arm: closure must be last + 1
                                from terms import closures_in_term
                                from guards import return_form
                                okc = False
                                for cid in closures_in_term(c[2][2]):
                                    g = fn.facts.fns.get(cid)
                                    for b in g.blocks:
                                        for st_ in b["stmts"]:
                                            if st_["k"] == "assign" and st_["lhs"]["l"] == 0:
                                                lt = lin(rvalue_origin(g, st_["rv"], 0, frozenset(), 20))
                                                if lt.k == 1 and len(lt.terms) == 1:
                                                    okc = True
                                R.ob(okc, "NEXT-HEIGHT", fn.where(), "NEXT-HEIGHT|%s|succ-closure" % fn.name.split("::")[-2],
                                     "with a last block the next height is not last + 1")
            R.ob(found >= 1, "NEXT-HEIGHT", fn.where(), "NEXT-HEIGHT|%s|empty-case-found" % fn.name.split("::")[-2],
                 "cannot determine the stamp height of an empty database (idiom not recognised: expected last_key().unwrap_or(d)+c or "
                 ".map_or(d, |l| l + 1)); returned forms: %s" % [s for _, s in forms])
            # the non-empty cases must be last + 1
            for l, s in forms:
                if l.terms:
                    R.ob(l.k in (0, 1), "NEXT-HEIGHT", fn.where(), "NEXT-HEIGHT|%s|succ" % fn.name.split("::")[-2],
                         "next height is last %+d" % l.k)
        else:
            consts = sorted(l.k for l, s in forms if not l.terms)
            nonconst = [l for l, s in forms if l.terms]
            R.ob(0 in consts and all(l.k == 1 for l in nonconst), "NEXT-HEIGHT", fn.where(), "NEXT-HEIGHT|engine|cases",
                 "engine next height cases changed: constants %s, successor offsets %s" % (consts, [l.k for l in nonconst]),
                 sample={"rule": "NEXT-HEIGHT", "fn": fn.name, "const_cases": consts})


def _return_values(fn):
    """terms of the payload of every `_0 = Ok(x)` / `_0 = x` assignment"""
    out = []
    for b in fn.blocks:
        if b.get("cleanup"):
            continue
        for s in b["stmts"]:
            if s["k"] == "assign" and s["lhs"]["l"] == 0 and not s["lhs"].get("p"):
                t = rvalue_origin(fn, s["rv"], 0, frozenset(), 40)
                if t[0] == "agg" and t[1].endswith("Result::Ok") and t[2]:
                    out.append(t[2][0])
                elif t[0] == "agg" and t[1].endswith("Result::Err"):
                    continue
                else:
                    out.append(t)
    return out


# ---------------------------------------------------------------- versioned table internals

def _tt(F, suffix):
    return [n for n in roles.table_types(F) if n.endswith(suffix)][0]


def _tfn(F, tname, method):
    c = [f for f in F.fns.values() if f.kind == "method" and f.j.get("method") == method
         and (f.j.get("self_ty") or "").split("<")[0] == tname and not f.j.get("trait")]
    return F.inlined(c[0]) if len(c) == 1 else None


def recv_field(fn, c):
    if not c.args:
        return None
    fl = self_fields(origin(fn, c.args[0]))
    return fl[0] if fl else None


def clause_scan_unord(R, F, CG, U=None):
    """range/full scans of the versioned table: complete (no element-dependent exit from the cache merge loop)
    and not in hash order"""
    from unord import Unord
    if U is None:
        U = Unord(F, CG)
        U.run([])
    tts = set(roles.table_types(F))
    n = 0
    for key, info in sorted(U.loops_seen.items()):
        fn = F.fns[key[0]]
        if (fn.j.get("self_ty") or "").split("<")[0] not in tts:
            continue
        n += 1
        m = fn.j.get("method")
        R.ob(not info["exits"], "U-EXIT", "%s:%s" % (fn.loc["f"], info["line"]), "U-EXIT|%s|line-independent" % fn.name,
             "the loop over a hash container in %s can be left on a condition that depends on the element drawn (%s): which "
             "rows are seen depends on hash iteration order, so uncommitted rows can be missed" % (
                 m, "; ".join("%s at %s" % (e["cond"][:90], e["at"]) for e in info["exits"])),
             sample={"rule": "U-EXIT", "fn": fn.name, "loop_line": info["line"], "effects": [e["callee"].split("::")[-1] for e in info["effects"]]})
    R.floor("hash_loops_in_tables", n, 4)
    for m in ("get_range", "all"):
        fn = _tfn(F, _tt(F, "BlockCachedDatabase"), m)
        if fn is None:
            R.violation("U-RETURN", "table", "U-RETURN|%s|missing" % m, "scan method %s not found" % m)
            continue
        sites = U.analyze(fn.id, frozenset())
        R.ob(not sites, "U-RETURN", fn.where(), "U-RETURN|%s" % fn.name,
             "%s returns its rows in hash iteration order (collected from a HashMap at %s); callers that need chain/key "
             "order get an arbitrary one" % (m, ", ".join(sorted(s.split("@")[-1] for s in sites))),
             sample={"rule": "U-RETURN", "fn": fn.name, "ordered": True})
    return U


def clause_read_merge(R, F, scans=("get_range", "all")):
    """point reads consult the cache first and fall to disk only on a miss; scans (those named in `scans`) merge disk then cache"""
    for (tsuf, meth, mapget) in (("BlockCachedDatabase", "latest", "HashMap"), ("BlockDatabase", "get", "BTreeMap")):
        fn = _tfn(F, _tt(F, tsuf), meth)
        if fn is None:
            R.violation("READ-MERGE", "table", "READ-MERGE|%s.%s|missing" % (tsuf, meth), "read method missing")
            continue
        cache_get = [c for c in fn.calls() if (c.method or "") == "get" and recv_field(fn, c) == "cache" and not fn.is_cleanup(c.bb)]
        disk_get = [c for c in fn.calls() if (c.method or "") in ("get", "get_pinned") and recv_field(fn, c) == "db" and not fn.is_cleanup(c.bb)]
        ok = bool(cache_get) and bool(disk_get)
        if ok:
            # the disk read must be unreachable once the `Some` edge of the cache lookup is taken, and dominated by the lookup
            cg = cache_get[0]
            ok = fn.sdominates(cg.bb, disk_get[0].bb)
            # the decision "is there an in-memory entry for this key" : a switch on the discriminant of the cache lookup's
            # result, possibly through presence-preserving adapters (map / as_ref / cloned / copied).  `and_then` / `flatten`
            # / `filter` conflate "no entry" with "entry whose latest value is None" and are not accepted.
            PRESERVING = ("map", "as_ref", "cloned", "copied", "as_deref")
            some_targets = []
            dec = None
            for b in range(len(fn.blocks)):
                t = fn.term(b)
                if t["k"] != "switch" or fn.is_cleanup(b):
                    continue
                d = origin(fn, t["discr"])
                if d[0] != "discr":
                    continue
                inner = d[1]
                while True:
                    while inner[0] in ("ref", "deref", "cast"):
                        inner = inner[1]
                    if inner[0] == "call" and inner[1].split("::")[-1] in PRESERVING and inner[2]:
                        inner = inner[2][0]
                        continue
                    break
                if not (inner[0] == "call" and inner[1].split("::")[-1] == "get" and mentions(inner, ".cache") and not mentions(inner, "cache_db")):
                    continue
                dec = b
                for v, tb in t["targets"]:
                    names = [n for (n, val) in (d[3] if len(d) > 3 and d[3] else ()) if val == v]
                    if "Some" in names:
                        some_targets.append(tb)
                if not some_targets and [v for v, _ in t["targets"]] == [0]:
                    some_targets.append(t["otherwise"])
            hit_reach = set()
            for s2 in some_targets:
                hit_reach |= fn.reachable(s2)
            ok = ok and dec is not None and bool(some_targets) and disk_get[0].bb not in hit_reach and fn.sdominates(dec, disk_get[0].bb)
        R.ob(ok, "READ-MERGE", fn.where(), "READ-MERGE|%s.%s" % (tsuf, meth),
             "%s::%s does not read the cache first and the disk only on a cache miss" % (tsuf, meth),
             sample={"rule": "READ-MERGE point read", "fn": fn.name})
    # scans
    tname = _tt(F, "BlockCachedDatabase")
    for meth, scan in (("get_range", "iterator"), ("all", "full_iterator")):
        if meth not in scans:
            continue
        fn = _tfn(F, tname, meth)
        if fn is None:
            continue
        disk = [c for c in fn.calls() if (c.method or "") == scan and recv_field(fn, c) == "db" and not fn.is_cleanup(c.bb)]
        mem = [c for c in fn.calls() if (c.method or "") in ("keys", "iter", "into_iter", "values") and recv_field(fn, c) == "cache"
               and not fn.is_cleanup(c.bb)]
        ok = bool(disk) and bool(mem) and must_pass_on_success(fn, [disk[0].bb]) and must_pass_on_success(fn, [mem[0].bb]) \
            and fn.sdominates(disk[0].bb, mem[0].bb)
        R.ob(ok, "READ-MERGE", fn.where(), "READ-MERGE|table.%s" % meth,
             "%s does not merge the persisted rows first and the cached rows over them on every path" % meth,
             sample={"rule": "READ-MERGE scan", "fn": fn.name, "disk": scan, "then": "self.cache"})
        # a cached history whose latest value is None (uncommitted unset) must hide the persisted row:
        # insert on Some and remove on None, on opposite edges of the latest() test, after the cache iteration starts
        ins = [c for c in fn.calls() if (c.method or "") == "insert" and not fn.is_cleanup(c.bb) and mem and fn.sdominates(mem[0].bb, c.bb)]
        rem = [c for c in fn.calls() if (c.method or "") == "remove" and not fn.is_cleanup(c.bb) and mem and fn.sdominates(mem[0].bb, c.bb)]
        okr = False
        for r in rem:
            for (a, s2) in control_deps(fn).get(r.bb, set()):
                t = fn.term(a)
                if t["k"] == "switch" and mentions(origin(fn, t["discr"]), "latest"):
                    # the insert must be on the other edge of the same switch
                    for i in ins:
                        if any(a2 == a and s3 != s2 for (a2, s3) in control_deps(fn).get(i.bb, set())):
                            okr = True
        # the overlay as `cache.iter()...for_each(|(k, h)| match h.latest() { Some(v) => insert, None => remove })`
        for c in fn.calls():
            if (c.method or "") not in ("for_each", "try_for_each") or fn.is_cleanup(c.bb) or not (mem and fn.sdominates(mem[0].bb, c.bb)):
                continue
            for cid in ((c.func or {}).get("arg_cl") or []):
                g = F.fns.get(cid)
                if g is None:
                    continue
                g = F.inlined(g)
                ins2 = [x for x in g.calls() if (x.method or "") == "insert" and not g.is_cleanup(x.bb)]
                rem2 = [x for x in g.calls() if (x.method or "") == "remove" and not g.is_cleanup(x.bb)]
                for r in rem2:
                    for (a, s2) in control_deps(g).get(r.bb, set()):
                        t = g.term(a)
                        if t["k"] == "switch" and mentions(origin(g, t["discr"]), "latest"):
                            for i in ins2:
                                if any(a2 == a and s3 != s2 for (a2, s3) in control_deps(g).get(i.bb, set())):
                                    okr = True
        # equivalent idiom: the merged result is filtered afterwards by `retain(|k, _| <cache says k still has a value>)`
        for c in fn.calls():
            if (c.method or "") == "retain" and not fn.is_cleanup(c.bb) and mem and (fn.sdominates(disk[0].bb, c.bb) if disk else False):
                for cid in ((c.func or {}).get("arg_cl") or []):
                    g = F.fns.get(cid)
                    if g is not None and any((x.method or "") == "latest" for gg in [g] + F.descendants(g.id) for x in gg.calls()):
                        okr = True
        R.ob(okr, "READ-MERGE", fn.where(), "READ-MERGE|table.%s|unset-shadows" % meth,
             "%s: an uncommitted removal (cached history whose latest value is None) does not remove the persisted row from the scan result: "
             "the row reappears until the next commit" % meth, sample={"rule": "READ-MERGE scan", "fn": fn.name, "row": "latest()==None => remove(key)"})
        if meth == "get_range":
            # the scan is half open, `[start, end)`, for the persisted rows *and* for the cached ones: every comparison of a row's
            # key with the end key is `key >= end` (stop / skip) or `key < end` (keep), with the start key `key < start` (skip) or
            # `key >= start` (keep) - an inclusive end returns the first row of the next block while it is still uncommitted
            n_cmp = 0
            for g in [fn] + list(F.descendants(fn.id)):
                for c in g.calls():
                    if g.is_cleanup(c.bb) or (c.method or "") not in ("lt", "le", "gt", "ge") or len(c.args) != 2:
                        continue
                    a0, a1 = origin(g, c.args[0]), origin(g, c.args[1])
                    import wire as _W2
                    a0, a1 = _W2.resolve(F, g, a0), _W2.resolve(F, g, a1)
                    def _uncap(t):
                        # captured values are read in place; a field of a captured struct literal is that field's operand
                        from terms import simplify as _simp
                        if not isinstance(t, tuple) or not t:
                            return t
                        if t[0] == "captured":
                            return _uncap(t[1])
                        if t[0] == "field":
                            b_ = _uncap(t[1])
                            while b_[0] in ("ref", "deref", "cast") and b_[1][0] in ("agg", "ref", "deref", "cast"):
                                b_ = b_[1]
                            return _simp(("field", b_, t[2]))
                        if t[0] in ("ref", "deref", "cast"):
                            return (t[0], _uncap(t[1])) + tuple(t[2:])
                        if t[0] == "call":
                            return ("call", t[1], tuple(_uncap(a) for a in t[2]), t[3], t[4])
                        return t
                    a0, a1 = _uncap(a0), _uncap(a1)

                    def _is_bound(t, name):
                        # the encoded bound itself (`end_key.encode_vec()` behind references / views), not a row key that merely
                        # comes from an iterator positioned at it
                        from terms import leaves as _leaves
                        ps = {l_[1] for l_ in _leaves(t) if l_[0] == "param"}
                        cs = {x[1].split("::")[-1] for x in calls_in(t)}
                        return ps == {name} and cs <= {"encode_vec", "deref", "as_slice", "as_ref", "clone", "to_vec", "borrow"}
                    for bound, ok_fwd, ok_rev in (("end_key", ("ge", "lt"), ("le", "gt")), ("start_key", ("lt", "ge"), ("gt", "le"))):
                        if _is_bound(a1, bound) and not _is_bound(a0, bound):
                            n_cmp += 1
                            R.ob(c.method in ok_fwd, "READ-MERGE", c.where(), "READ-MERGE|table.get_range|half-open:%s" % bound,
                                 "get_range compares a row's key with the %s by `%s`: the scan is [start, end) for every source of rows" % (bound.replace("_key", " key"), c.method),
                                 sample={"rule": "READ-MERGE bounds", "bound": bound, "comparison": "key %s %s" % (c.method, bound)})
                        elif _is_bound(a0, bound) and not _is_bound(a1, bound):
                            n_cmp += 1
                            R.ob(c.method in ok_rev, "READ-MERGE", c.where(), "READ-MERGE|table.get_range|half-open:%s" % bound,
                                 "get_range compares the %s with a row's key by `%s`: the scan is [start, end) for every source of rows" % (bound.replace("_key", " key"), c.method))
            R.floor("get_range_bound_comparisons", n_cmp, 3)
        if meth == "get_range" and disk:
            a = show(origin(fn, disk[0].args[1]))
            R.ob("From" in a and "Forward" in a and mentions(origin(fn, disk[0].args[1]), "start_key"), "WIRE", disk[0].where(),
                 "WIRE|get_range|iterator-mode", "range scan does not start at the encoded start key going forward: %s" % a[:160])
    fn = _tfn(F, _tt(F, "BlockDatabase"), "last_key")
    if fn:
        disk = [c for c in fn.calls() if (c.method or "") == "full_iterator" and recv_field(fn, c) == "db"]
        mem = [c for c in fn.calls() if (c.method or "") in ("keys", "last_key_value", "iter") and recv_field(fn, c) == "cache"]
        # std::cmp::max(a, b) or a.max(b) - also on the Option<u64>s themselves (None < Some(_), so an empty side never wins)
        mx = [c for c in fn.calls() if ((c.target_path or "").endswith("cmp::max") or (c.method or "") == "max") and not fn.is_cleanup(c.bb)]
        okm = bool(disk) and bool(mem) and bool(mx)
        if disk:
            okm = okm and "End" in show(origin(fn, disk[0].args[1]))
        R.ob(okm, "READ-MERGE", fn.where(), "READ-MERGE|blockdb.last_key",
             "last_key is not max(last persisted key [IteratorMode::End], last cached key)",
             sample={"rule": "READ-MERGE last_key", "fn": fn.name})


def clause_commit_per_key(R, F):
    """BlockCachedDatabase::commit: per key, the history row is written before the latest-value row"""
    fn = _tfn(F, _tt(F, "BlockCachedDatabase"), "commit")
    hist = [c for c in fn.calls() if (c.method or "") in ("put", "delete") and recv_field(fn, c) == "cache_db" and not fn.is_cleanup(c.bb)]
    late = [c for c in fn.calls() if (c.method or "") in ("put", "delete") and recv_field(fn, c) == "db" and not fn.is_cleanup(c.bb)]
    R.floor("commit_history_writes", len(hist), 2)
    R.floor("commit_latest_writes", len(late), 2)
    from unord import Unord
    loops = Unord(F, None).natural_loops(fn)
    for c in late:
        heads = [h for h, body in loops.items() if c.bb in body]
        ok = bool(heads)
        for h in heads:
            # from the loop head, reach c without passing a history write and without going round the loop again
            avoid = {x.bb for x in hist}
            reach = set()
            st = [s for s in fn.succ(h)]
            while st:
                b = st.pop()
                if b in reach or b in avoid or b == h:
                    continue
                reach.add(b)
                st.extend(fn.succ(b))
            if c.bb in reach:
                ok = False
        R.ob(ok, "DOM-order", c.where(), "DOM-order|table.commit|history<latest:%s" % (c.method),
             "latest-value %s on `db` can execute before the history row of the same key is written to `cache_db`: a crash in "
             "between leaves a new latest value whose pre-image is not recoverable by reorg" % c.method,
             sample={"rule": "DOM-order per key", "first": "cache_db.put|delete", "then": "db." + (c.method or "")})
        # same key both sides
    keys = set()
    for c in hist + late:
        keys.add(show(origin(fn, c.args[1]))[:120])
    R.ob(len(keys) == 1, "WIRE", fn.where(), "WIRE|table.commit|same-key", "history and latest rows are written under different keys: %s" % sorted(keys))
    # is_old pairing: the predicate that deletes the history row also removes the in-memory entry, same argument
    iso = [c for c in fn.calls() if (c.method or "") == "is_old" and not fn.is_cleanup(c.bb)]
    desc = F.descendants(fn.id)
    for d in desc:
        iso += [c for c in d.calls() if (c.method or "") == "is_old"]
    args = set()
    for c in iso:
        a = origin(c.fn, c.args[1])
        args.add(show(a))
    R.ob(len(iso) >= 1 and all(("block_number" in a) for a in args), "GUARD", fn.where(), "GUARD|table.commit|is_old-pair",
         "the use(s) of is_old in commit (history row deletion, and cache eviction where present) do not test the block number being committed: %s" % sorted(args),
         sample={"rule": "GUARD pairing", "fn": "table.commit", "is_old_args": sorted(args)})
    dels = [c for c in hist if c.method == "delete"]
    for c in dels:
        cd = control_deps(fn).get(c.bb, set())
        ok = False
        for (a, s) in cd:
            be = bool_edge(fn, a, s)
            if be and be[1] is True and mentions(be[0], "is_old"):
                ok = True
        R.ob(ok, "GUARD", c.where(), "GUARD|table.commit|history-delete", "history row is deleted on a path not guarded by is_old == true")
    # latest row written iff latest() is Some
    for c in late:
        cd = control_deps(fn).get(c.bb, set())
        ok = any(mentions(origin(fn, fn.term(a)["discr"]), "latest") for (a, s) in cd if fn.term(a)["k"] == "switch")
        R.ob(ok, "GUARD", c.where(), "GUARD|table.commit|latest-%s" % c.method, "db.%s is not selected by latest() being Some/None" % c.method)


def clause_blockdb_commit(R, F):
    fn = _tfn(F, _tt(F, "BlockDatabase"), "commit")
    puts = [c for c in fn.calls() if (c.method or "") == "put" and recv_field(fn, c) == "db" and not fn.is_cleanup(c.bb)]
    if not puts:
        # `self.cache.iter().try_for_each(|(n, v)| self.db.put(..))?`: the writes sit in the closure the adapter call runs; that
        # call is the write site for ordering purposes
        for c in fn.calls():
            if fn.is_cleanup(c.bb) or (c.method or "") not in ("try_for_each", "for_each", "try_fold"):
                continue
            for cid in ((c.func or {}).get("arg_cl") or []):
                g = F.fns.get(cid)
                if g is not None and any((x.method or "") == "put" and mentions(origin(g, x.args[0]), "db") for x in g.calls() if not g.is_cleanup(x.bb)):
                    puts.append(c)
    fl = [c for c in fn.calls() if (c.method or "") == "flush" and recv_field(fn, c) == "db" and not fn.is_cleanup(c.bb)]
    R.ob(bool(puts) and bool(fl) and must_pass_on_success(fn, [c.bb for c in fl]), "DOM-all", fn.where(), "DOM-all|blockdb.commit|flush",
         "BlockDatabase::commit does not flush on every success path", sample={"rule": "DOM-all", "fn": "blockdb.commit", "step": "flush"})
    for f in fl:
        for p in puts:
            R.ob(not fn.sdominates(f.bb, p.bb), "DOM-order", f.where(), "DOM-order|blockdb.commit|put<flush", "flush precedes the puts")


def clause_cache_insert_sites(R, F):
    """An in-memory history is newer than (or equal to) the persisted one, so nothing may replace it: every `insert` into the
    versioned table's `cache` map sits where the key is known to be absent (behind `!contains_key`, through a vacant entry), in
    whichever method it is written - not only in the one loader"""
    from terms import reachable_without_edges
    tn = _tt(F, "BlockCachedDatabase")
    n = 0
    for f0 in F.fns.values():
        if f0.kind != "method" or not (f0.j.get("self_ty") or "").startswith(tn.split("<")[0]) or f0.j.get("trait") or not f0.blocks:
            continue
        from facts import is_private_helper
        if is_private_helper(f0):
            continue            # read in its callers
        fn = F.inlined(f0)
        ins = [c for c in fn.calls() if (c.method or "") == "insert" and recv_field(fn, c) == "cache" and not fn.is_cleanup(c.bb)]
        cks = [c for c in fn.calls() if (c.method or "") == "contains_key" and recv_field(fn, c) == "cache" and not fn.is_cleanup(c.bb)]
        for c in ins:
            n += 1
            ok = "VacantEntry" in (c.target_path or "") + (c.self_ty or "")
            for ck in cks:
                if ok:
                    break
                sw = fn.succ(ck.bb)[0]
                removed = [(sw, s_) for s_ in fn.succ(sw) if (bool_edge(fn, sw, s_) or (None, None))[1] is False]
                if removed and c.bb not in reachable_without_edges(fn, removed):
                    ok = True
            R.ob(ok, "GUARD", c.where(), "GUARD|table.cache-insert|%s" % f0.j.get("method"),
                 "%s puts a history into the in-memory cache without knowing the key is absent: a newer uncommitted history can be "
                 "replaced by the persisted (older) one" % f0.j.get("method"),
                 sample={"rule": "GUARD", "fn": f0.j.get("method"), "cache.insert": "only for an absent key"})
    R.floor("cache_insert_sites", n, 1)


def clause_retrieve_cache(R, F):
    clause_cache_insert_sites(R, F)
    fn = _tfn(F, _tt(F, "BlockCachedDatabase"), "retrieve_cache")
    ins = [c for c in fn.calls() if (c.method or "") == "insert" and recv_field(fn, c) == "cache" and not fn.is_cleanup(c.bb)]
    ck = [c for c in fn.calls() if (c.method or "") == "contains_key" and recv_field(fn, c) == "cache" and not fn.is_cleanup(c.bb)]
    R.floor("retrieve_cache_inserts", len(ins), 1)
    for c in ins:
        # never overwrite: unreachable once contains_key == true
        ok = False
        if "VacantEntry" in (c.target_path or "") + (c.self_ty or ""):
            ok = True       # `match map.entry(k) { Occupied(e) => return .., Vacant(v) => v }.insert(h)`: a vacant entry exists only for an absent key
        if ck and not ok:
            sw = fn.succ(ck[0].bb)[0]
            removed = []
            for s in fn.succ(sw):
                be = bool_edge(fn, sw, s)
                if be and be[1] is False:
                    removed.append((sw, s))
            from terms import reachable_without_edges
            ok = bool(removed) and c.bb not in reachable_without_edges(fn, removed)
        R.ob(ok, "GUARD", c.where(), "GUARD|retrieve_cache|no-overwrite",
             "a cached history can be overwritten: insert is reachable when the key is already cached",
             sample={"rule": "GUARD", "fn": "retrieve_cache", "insert_guarded_by": "!contains_key"})
    # the seed of a fresh history is the stored latest value
    seeds = [c for c in fn.calls() if (c.method or "") == "new" and (c.trait or "").endswith("BlockHistoryCache")]
    def _seed_ok(c):
        from terms import closures_in_term
        t = origin(fn, c.args[0])
        if not (mentions(t, ".db") and not mentions(t, "cache_db") and mentions(t, "get")):
            return False
        if mentions(t, "decode_vec") or mentions(t, "decode"):
            return True
        for cid in closures_in_term(t):
            g = F.fns.get(cid)
            if g and any((x.method or "") in ("decode_vec", "decode") for x in g.calls()):
                return True
        return False
    R.ob(bool(seeds) and all(_seed_ok(c) for c in seeds),
         "WIRE", fn.where(), "WIRE|retrieve_cache|seed", "a fresh history is not seeded from the persisted latest value (db.get -> decode)",
         sample={"rule": "WIRE", "fn": "retrieve_cache", "seed": "C::new(db.get(key).decode)"})
    hist = [c for c in fn.calls() if (c.method or "") in ("get", "get_pinned") and recv_field(fn, c) == "cache_db"]
    R.ob(bool(hist), "WIRE", fn.where(), "WIRE|retrieve_cache|history-row", "persisted history (cache_db) is not consulted before seeding")
    # ... and it is consulted unconditionally: every insertion of a history for an uncached key is dominated by the
    # cache_db lookup (a key deleted from the value table still has a history that a rollback needs)
    for c in ins:
        R.ob(any(fn.sdominates(h.bb, c.bb) for h in hist), "DOM-before", c.where(), "DOM-before|retrieve_cache|history<insert",
             "a history is put into the cache on a path that did not look the key up in the persisted histories (cache_db): "
             "an existing history can be replaced by a fresh one, and a rollback across that point restores the wrong value",
             sample={"rule": "DOM-before", "fn": "retrieve_cache", "a": "cache_db.get(key)", "b": "cache.insert(key, history)"})
    # a fresh history is started only when there is no persisted one
    from terms import edge_dominates
    for c in seeds:
        ok = False
        for b in range(len(fn.blocks)):
            t = fn.term(b)
            if t["k"] != "switch" or fn.is_cleanup(b):
                continue
            d = origin(fn, t["discr"])
            if not (d[0] == "discr" and mentions(d, "cache_db")):
                continue
            names = d[3] if len(d) > 3 and d[3] else []
            none_vals = [val for (n, val) in names if n == "None"]
            for v, tb in t["targets"]:
                if v in none_vals and edge_dominates(fn, (b, tb), c.bb):
                    ok = True
            if t.get("otherwise") is not None and none_vals and all(v not in none_vals for v, tb in t["targets"]):
                if edge_dominates(fn, (b, t["otherwise"]), c.bb):
                    ok = True
        R.ob(ok, "GUARD", c.where(), "GUARD|retrieve_cache|fresh-only-if-no-history",
             "a fresh history (C::new) is started although the persisted-history lookup did not say None",
             sample={"rule": "GUARD", "fn": "retrieve_cache", "fresh_history_iff": "cache_db.get(key) is None"})


def clause_who_touches_disk(R, F, E):
    """RocksDB reads/writes occur only inside the table types and the config database"""
    allowed = set(roles.table_types(F))
    n = 0
    for fid, effs in E.direct.items():
        for e in effs:
            if e[0] in ("RDISK", "WDISK") and not e[1].startswith("fs::"):
                n += 1
                fn = F.fns[fid]
                owner = (fn.j.get("self_ty") or "").split("<")[0]
                # closures inside table methods
                if not owner:
                    root = F.fns.get(fn.j.get("root") or "")
                    owner = ((root.j.get("self_ty") if root else "") or "").split("<")[0]
                R.ob(owner in allowed, "WHO-DISK", E.where[(fid, e)][0], "WHO-DISK|%s|%s" % (fn.name, e[1]),
                     "RocksDB %s (%s) outside the table types: reads/writes that bypass the block cache" % (e[0], e[1]),
                     sample=None)
    R.floor("disk_access_sites", n, 15)


def clause_engine_commit_clear(R, F):
    """commit only at block boundaries; clear_caches resets LastBlockInfo and wakes waiters before dropping caches"""
    from windowrules import _engine_fn, _err_propagated
    fn = _engine_fn(F, "commit_to_db")
    import enginerules as ER
    em = ER.engine_methods(F)
    sites = []
    for body in [fn] + F.descendants(fn.id):
        for c in body.calls():
            if (c.method or "") in ("write_fn", "write_fn_unchecked") and not body.is_cleanup(c.bb) and ".db" in show(origin(body, c.args[0])):
                sites.append((body, c))
    R.ob(bool(sites) and all(ER.validated_at(F, em, {}, body, c.bb) for body, c in sites), "DOM-before", fn.where(),
         "DOM-before|commit_to_db|require_no_waiting_txes", "commit_to_db can commit in the middle of a block (no validator / waiting-count guard dominates the commit, or its error is dropped)",
         sample={"rule": "DOM-before", "fn": "commit_to_db", "a": "no-waiting-txes check", "b": "db.write_fn(commit_changes)"})
    fn = _engine_fn(F, "clear_caches")
    wr = [c for c in fn.calls() if (c.method or "") in ("write_fn", "write_fn_unchecked") and not fn.is_cleanup(c.bb)]
    nt = [c for c in fn.calls() if (c.method or "") == "notify_waiters" and not fn.is_cleanup(c.bb)]
    lbi = [c for c in wr if "last_block_info" in show(origin(fn, c.args[0]))]
    dbw = [c for c in wr if ".db" in show(origin(fn, c.args[0]))]
    # the block record is reset no later than the caches are dropped (under the same or an earlier critical section), and the
    # waiters are woken on every success path (before or after the drop: either way they re-check the count)
    nested = False
    for c in lbi:
        for cid in ((c.func or {}).get("arg_cl") or []):
            g = F.fns.get(cid)
            if g is not None and any((x.method or "") in ("write_fn", "write_fn_unchecked") and ".db" in show(origin(gg, x.args[0])) for gg in [g] + F.descendants(g.id) for x in gg.calls()):
                nested = True
    R.ob(bool(lbi) and (nested or (bool(dbw) and fn.sdominates(lbi[0].bb, dbw[0].bb))) and bool(nt) and must_pass_on_success(fn, [c.bb for c in nt]), "DOM-order",
         fn.where(), "DOM-order|clear_caches|reset<drop",
         "clear_caches does not reset the unfinished-block info no later than it drops the caches, or does not wake the waiters on every success path",
         sample={"rule": "DOM-order", "fn": "engine.clear_caches", "order": "LastBlockInfo reset, notify, db.clear_caches"})
