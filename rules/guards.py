"""GUARD rules (DESIGN 4.8): linear normal forms of comparison guards.

A comparison `a ⋈ b` found on a CFG edge (or as the value of a small closure)
is rewritten over ℤ into  Σ cᵢ·xᵢ + k ≤ 0  (strict/non-strict, operand order,
branch negation and `a<b` vs `b>a` spellings are normalised away); == / != are
kept as `Σ + k == 0` / `!= 0`.  Atoms xᵢ are origin terms; the caller maps
them to *roles* with a classifier so that renaming locals or extracting a
helper does not change the normal form.  checked_/saturating_/wrapping_ and
*WithOverflow arithmetic are recognised as the same linear term plus a flag.
"""
from terms import origin, show, rvalue_origin

CMP = {"Lt", "Le", "Gt", "Ge", "Eq", "Ne"}
ADD = {"Add", "AddWithOverflow", "AddUnchecked"}
SUB = {"Sub", "SubWithOverflow", "SubUnchecked"}
MUL = {"Mul", "MulWithOverflow", "MulUnchecked"}


class Lin:
    def __init__(self, k=0, terms=None, flags=None, consts=None):
        self.k = k
        self.terms = dict(terms or {})
        self.flags = set(flags or ())
        self.consts = set(consts or ())

    def add(self, o, sign=1):
        r = Lin(self.k + sign * o.k, self.terms, self.flags | o.flags, self.consts | o.consts)
        for a, c in o.terms.items():
            r.terms[a] = r.terms.get(a, 0) + sign * c
            if r.terms[a] == 0:
                del r.terms[a]
        return r

    def scale(self, c):
        return Lin(self.k * c, {a: v * c for a, v in self.terms.items()}, self.flags, self.consts)

    def neg(self):
        return self.scale(-1)


def lin(t):
    """linearise an origin term"""
    k = t[0]
    if k == "const":
        v = t[1]
        if isinstance(v, bool):
            v = int(v)
        if isinstance(v, int):
            return Lin(v, consts={t[2]} if len(t) > 2 and t[2] else ())
        return Lin(0, {t: 1})
    if k == "cast":
        return lin(t[1])
    if k == "field" and t[2] == ".0" and t[1][0] == "bin" and t[1][1].endswith("WithOverflow"):
        return lin(t[1])
    if k == "field" and t[2] == ".0" and t[1][0] == "field" and t[1][2] == "as Continue" and t[1][1][0] == "call" \
            and t[1][1][1].endswith("::branch") and "Try" in t[1][1][1] and len(t[1][1][2]) == 1:
        # `x?` where x is (on its success alternative) the literal Ok(v) / Some(v) of an inlined helper: the value is v
        src = t[1][1][2][0]
        while src[0] in ("ref", "deref", "cast"):
            src = src[1]
        alts = list(src[1]) if src[0] == "phi" else [src]
        oks = [a for a in alts if a[0] == "agg" and (a[1].endswith("Result::Ok") or a[1].endswith("Option::Some")) and len(a[2]) == 1]
        rest = [a for a in alts if not (a[0] == "agg" and (a[1].endswith("Result::Err") or a[1].endswith("Option::None")
                                                        or a[1].endswith("Result::Ok") or a[1].endswith("Option::Some")))
                and not (a[0] == "call" and a[1].endswith("from_residual"))]
        if len(oks) == 1 and not rest:
            return lin(oks[0][2][0])
    if k == "field" and t[2] == ".0" and t[1][0] == "field" and t[1][2] == "as Some" and t[1][1][0] == "call" \
            and t[1][1][1].split("::")[-1] in ("checked_add", "checked_sub"):
        return lin(t[1][1])      # the payload of Some(a.checked_sub(b)) is a - b
    if k == "deref":
        inner = lin(t[1])
        if len(inner.terms) == 1 and inner.k == 0 and list(inner.terms.values()) == [1]:
            a = list(inner.terms)[0]
            return Lin(0, {("deref", a): 1}, inner.flags, inner.consts)
        return Lin(0, {t: 1})
    if k == "bin":
        op = t[1]
        if op in ADD:
            return lin(t[2]).add(lin(t[3]))
        if op in SUB:
            return lin(t[2]).add(lin(t[3]), -1)
        if op in MUL:
            a, b = lin(t[2]), lin(t[3])
            if not a.terms:
                return b.scale(a.k)
            if not b.terms:
                return a.scale(b.k)
        return Lin(0, {t: 1})
    if k == "call":
        p = t[1]
        m = p.split("::")[-1]
        args = t[2]
        for pre, flag in (("checked_", "checked"), ("saturating_", "saturating"), ("wrapping_", "wrapping"), ("overflowing_", "overflowing")):
            if m.startswith(pre) and len(args) == 2:
                op = m[len(pre):]
                a, b = lin(args[0]), lin(args[1])
                if op == "add":
                    r = a.add(b)
                elif op == "sub":
                    r = a.add(b, -1)
                elif op == "mul" and (not a.terms or not b.terms):
                    r = b.scale(a.k) if not a.terms else a.scale(b.k)
                else:
                    return Lin(0, {t: 1})
                r.flags.add(flag)
                return r
        # operator traits on references (`&u64 + u64` is a call to <&u64 as Add<u64>>::add in MIR)
        if len(args) == 2 and m in ("add", "sub") and ("::ops::" in p or p.endswith("Add::add") or p.endswith("Sub::sub") or "arith" in p):
            a, b = lin(args[0]), lin(args[1])
            return a.add(b) if m == "add" else a.add(b, -1)
        if m in ("from", "into", "clone", "to_owned", "deref", "borrow", "as_ref", "copied", "cloned") and len(args) == 1:
            return lin(args[0])
        return Lin(0, {t: 1})
    if k == "ref":
        return lin(t[1])
    return Lin(0, {t: 1})


class Form:
    """canonical comparison:  lin  rel  0   with rel in {'<=', '==', '!='}"""

    def __init__(self, l, rel):
        self.lin = l
        self.rel = rel

    def negate(self):
        if self.rel == "<=":
            # not(e <= 0)  ==  e > 0  ==  -e + 1 <= 0
            n = self.lin.neg()
            n.k += 1
            return Form(n, "<=")
        if self.rel == "==":
            return Form(self.lin, "!=")
        return Form(self.lin, "==")

    def roles(self, classify):
        """(dict role->coeff, k, rel, unclassified list)"""
        out = {}
        bad = []
        for a, c in self.lin.terms.items():
            r = classify(a)
            if r is None:
                bad.append(show(a))
                r = "?" + show(a)
            out[r] = out.get(r, 0) + c
        out = {r: c for r, c in out.items() if c != 0}
        k = self.lin.k
        rel = self.rel
        if rel in ("==", "!="):
            # sign-normalise: first role (sorted) positive
            if out:
                first = sorted(out)[0]
                if out[first] < 0:
                    out = {r: -c for r, c in out.items()}
                    k = -k
        return out, k, rel, bad

    def text(self, classify=None):
        if classify:
            terms, k, rel, bad = self.roles(classify)
            parts = ["%+d*%s" % (c, r) for r, c in sorted(terms.items())]
        else:
            parts = ["%+d*%s" % (c, show(a)) for a, c in sorted(self.lin.terms.items(), key=lambda x: show(x[0]))]
            k, rel = self.lin.k, self.rel
        return "%s %+d %s 0" % (" ".join(parts) or "0", k, rel)


def compare_form(t):
    """Form for a boolean term that is a comparison (true-form), or None"""
    pol = True
    while t[0] == "un" and t[1] == "Not":
        t = t[2]
        pol = not pol
    f = None
    if t[0] == "bin" and t[1] in CMP:
        a, b = lin(t[2]), lin(t[3])
        f = _cmp(t[1], a, b)
    elif t[0] == "call":
        m = t[1].split("::")[-1]
        mm = {"lt": "Lt", "le": "Le", "gt": "Gt", "ge": "Ge", "eq": "Eq", "ne": "Ne"}.get(m)
        if mm and len(t[2]) == 2:
            f = _cmp(mm, lin(t[2][0]), lin(t[2][1]))
    if f is None:
        return None
    return f if pol else f.negate()


def _cmp(op, a, b):
    if op == "Lt":      # a < b  ==  a - b + 1 <= 0
        r = a.add(b, -1)
        r.k += 1
        return Form(r, "<=")
    if op == "Le":
        return Form(a.add(b, -1), "<=")
    if op == "Gt":      # a > b  ==  b - a + 1 <= 0
        r = b.add(a, -1)
        r.k += 1
        return Form(r, "<=")
    if op == "Ge":
        return Form(b.add(a, -1), "<=")
    if op == "Eq":
        return Form(a.add(b, -1), "==")
    if op == "Ne":
        return Form(a.add(b, -1), "!=")


def edge_forms(fn):
    """[(switch bb, succ bb, Form holding on that edge, line)] for every comparison switch"""
    out = []
    for b in range(len(fn.blocks)):
        t = fn.term(b)
        if t["k"] != "switch" or fn.is_cleanup(b):
            continue
        term = origin(fn, t["discr"])
        f = compare_form(term)
        if f is None and term[0] == "phi":
            # a boolean variable assigned in several arms: `let ok = match x { Some(v) => a < b, None => false }; if ok {..}`
            # - on the true edge the one non-constant alternative holds (when all others are `false`), and dually for `true`
            alts = list(term[1])
            consts = [a for a in alts if a[0] == "const" and isinstance(a[1], (bool, int)) and a[1] in (0, 1, True, False)]
            others = [a for a in alts if a not in consts]
            if len(others) == 1 and consts:
                g0 = compare_form(others[0])
                if g0 is not None:
                    allfalse = all(not bool(a[1]) for a in consts)
                    alltrue = all(bool(a[1]) for a in consts)
                    # `let ok = a && b;` lowers to `if a { ok = b } else { ok = false }`: when ok is true the assignment `ok = b`
                    # was executed, so the conditions that block is control dependent on hold as well
                    extra = []
                    if allfalse and "l" in t["discr"]:
                        from terms import control_deps as _cd
                        cdm = _cd(fn)
                        L = t["discr"]["l"]
                        for _hop in range(4):
                            ds = [d for d in fn.defs().get(L, []) if d[2] == "assign"]
                            nonconst = [d for d in ds if not (d[3]["rv"]["k"] == "use" and d[3]["rv"]["ops"][0].get("k") == "const")]
                            if len(nonconst) != 1:
                                break
                            dbb = nonconst[0][0]
                            for (ab, asucc) in cdm.get(dbb, set()):
                                at = fn.term(ab)
                                if at["k"] != "switch":
                                    continue
                                af = compare_form(origin(fn, at["discr"]))
                                if af is None:
                                    continue
                                vals2 = [v for v, tb in at["targets"] if tb == asucc]
                                if vals2 == [0]:
                                    extra.append(af.negate())
                                elif vals2 == [1] or (not vals2 and at["otherwise"] == asucc and [v for v, _ in at["targets"]] == [0]):
                                    extra.append(af)
                            rv = nonconst[0][3]["rv"]
                            if rv["k"] == "use" and "l" in rv["ops"][0] and not rv["ops"][0].get("p"):
                                L = rv["ops"][0]["l"]
                            else:
                                break
                    for s in fn.succ(b):
                        vals = [v for v, tb in t["targets"] if tb == s]
                        is_true = vals == [1] or (not vals and t["otherwise"] == s and [v for v, _ in t["targets"]] == [0])
                        is_false = vals == [0]
                        if is_true and allfalse:
                            out.append((b, s, g0, t["loc"]["l"]))
                            for ef in extra:
                                out.append((b, s, ef, t["loc"]["l"]))
                        if is_false and alltrue:
                            out.append((b, s, g0.negate(), t["loc"]["l"]))
            continue
        if f is None:
            # `match a.checked_sub(b) { None => .., Some(d) => .. }` : None <=> a < b (unsigned)
            if term[0] == "discr" and term[1][0] == "call" and term[1][1].split("::")[-1] == "checked_sub" and len(term[1][2]) == 2 and len(term) > 3 and term[3]:
                a, b2 = lin(term[1][2][0]), lin(term[1][2][1])
                none_f = _cmp("Lt", a, b2)
                names = {val: n for (n, val) in term[3]}
                for s in fn.succ(b):
                    vals = [v for v, tb in t["targets"] if tb == s]
                    kinds = {names.get(v) for v in vals}
                    if not vals and t.get("otherwise") == s:
                        listed = {v for v, _ in t["targets"]}
                        kinds = {n for (n, val) in term[3] if val not in listed}
                    if kinds == {"None"}:
                        out.append((b, s, none_f, t["loc"]["l"]))
                    elif kinds == {"Some"}:
                        out.append((b, s, none_f.negate(), t["loc"]["l"]))
                continue
            # `match a.cmp(&b) { Less => .., Equal => .., Greater => .. }`
            if term[0] == "discr" and term[1][0] == "call" and term[1][1].split("::")[-1] == "cmp" and len(term[1][2]) == 2:
                a, b2 = lin(term[1][2][0]), lin(term[1][2][1])
                by_val = {-1: _cmp("Lt", a, b2), 0: _cmp("Eq", a, b2), 1: _cmp("Gt", a, b2), 255: _cmp("Lt", a, b2), 18446744073709551615: _cmp("Lt", a, b2)}
                names = {val: n for (n, val) in (term[3] if len(term) > 3 and term[3] else ())}
                by_name = {"Less": _cmp("Lt", a, b2), "Equal": _cmp("Eq", a, b2), "Greater": _cmp("Gt", a, b2)}
                listed = {v for v, _ in t["targets"]}
                for s in fn.succ(b):
                    vals = [v for v, tb in t["targets"] if tb == s]
                    forms = [by_name.get(names.get(v)) or by_val.get(v) for v in vals]
                    if not vals and t.get("otherwise") == s and names:
                        rest = [n for (n, val) in term[3] if val not in listed]
                        forms = [by_name.get(n) for n in rest]
                    forms = [x for x in forms if x is not None]
                    if len(forms) == 1:
                        out.append((b, s, forms[0], t["loc"]["l"]))
                continue
            # `match d { 0 => .., _ => .. }` on an integer: value edges are equalities, the rest inequalities
            if t.get("ty") in ("u8", "u16", "u32", "u64", "u128", "usize", "i32", "i64", "isize") and term[0] not in ("discr",):
                l0 = lin(term)
                if l0.terms:
                    for s in fn.succ(b):
                        vals = [v for v, tb in t["targets"] if tb == s]
                        if len(vals) == 1:
                            e = Lin(l0.k - vals[0], l0.terms, l0.flags, l0.consts)
                            out.append((b, s, Form(e, "=="), t["loc"]["l"]))
                        elif not vals and t.get("otherwise") == s and len(t["targets"]) == 1:
                            e = Lin(l0.k - t["targets"][0][0], l0.terms, l0.flags, l0.consts)
                            out.append((b, s, Form(e, "!="), t["loc"]["l"]))
            continue
        for s in fn.succ(b):
            vals = [v for v, tb in t["targets"] if tb == s]
            if vals == [0]:
                out.append((b, s, f.negate(), t["loc"]["l"]))
            elif vals == [1] or (not vals and t["otherwise"] == s and [v for v, _ in t["targets"]] == [0]):
                out.append((b, s, f, t["loc"]["l"]))
    return out


def return_form(fn):
    """Form of the value returned by a tiny function/closure that returns a comparison"""
    for b in fn.return_blocks():
        pass
    forms = []
    for bi, b in enumerate(fn.blocks):
        for s in b["stmts"]:
            if s["k"] == "assign" and s["lhs"]["l"] == 0 and not s["lhs"].get("p"):
                t = rvalue_origin(fn, s["rv"], 0, frozenset(), 40)
                f = compare_form(t)
                if f is not None:
                    forms.append((f, s.get("line")))
        tm = b["term"]
        if tm["k"] == "call" and tm["dest"]["l"] == 0 and not tm["dest"].get("p"):
            from terms import call_origin
            f = compare_form(call_origin(fn, tm, 0, frozenset(), 40))
            if f is not None:
                forms.append((f, tm["loc"]["l"]))
    return forms
