"""CONST rules (DESIGN 4.12): the consensus-constant manifest, read from evaluated MIR constants."""
import hashlib
import os

from terms import origin, show, calls_in, rvalue_origin


def lazy_static_values(F):
    """{static pretty name: normalised value} for lazy_static initialisers that build their value from literals"""
    out = {}
    for f in F.fns.values():
        if f.kind != "fn" or not f.id.endswith("::__static_ref_initialize"):
            continue
        deref = F.fns.get(f.id[: -len("::__static_ref_initialize")])
        name = deref.j.get("self_ty") if deref else None
        if not name:
            continue
        lits = []
        for b in f.blocks:
            if b.get("cleanup"):
                continue
            for s in b["stmts"]:
                if s["k"] == "assign" and s["lhs"]["l"] == 0 and not s["lhs"].get("p"):
                    t = rvalue_origin(f, s["rv"], 0, frozenset(), 30)
                    _lits(t, lits)
            tm = b["term"]
            if tm["k"] == "call" and tm["dest"]["l"] == 0:
                from terms import call_origin
                _lits(call_origin(f, tm, 0, frozenset(), 30), lits)
        vals = [x for x in lits if not (isinstance(x, str) and (x.startswith("alloc:") or x.startswith("Failed") or x.startswith("Invalid")))]
        if len(vals) == 1:
            v = vals[0]
            out[name] = v.lower() if isinstance(v, str) and v.lower().startswith("0x") else v
    return out


def _lits(t, out):
    k = t[0]
    if k == "const":
        if isinstance(t[1], (int, str)) and not isinstance(t[1], bool):
            out.append(t[1])
    elif k in ("call",):
        for a in t[2]:
            _lits(a, out)
    elif k in ("cast", "ref", "deref", "field", "discr"):
        _lits(t[1], out)
    elif k == "agg":
        for a in t[2]:
            _lits(a, out)
    elif k == "phi":
        for a in t[1]:
            _lits(a, out)


def manifest(F, repo):
    m = {}
    for n, c in F.consts.items():
        if c["kind"] == "const" and "v" in c and "CALLSITE" not in n and "::NAME" not in n and "::_::" not in n and not n.split("::")[-1].startswith("_"):
            m["const " + n] = c["v"]
    for n, v in lazy_static_values(F).items():
        m["static " + n] = v
    for c in F.j["consts"]:
        if "::SELECTOR" in c["name"] or "::SIGNATURE" in c["name"]:
            val = (c.get("indirect") or {}).get("hex") or (c.get("slice") or {}).get("str")
            if val:
                m["sol " + c["name"].split(" for ")[-1]] = val
    # embedded contract artefacts
    base = os.path.join(repo, "src/brc20_controller/contract/output")
    if os.path.isdir(base):
        for fn in sorted(os.listdir(base)):
            with open(os.path.join(base, fn), "rb") as fh:
                m["file contract/output/" + fn] = hashlib.sha256(fh.read()).hexdigest()
    return m
