"""Thorough tier extensions: cross-checks between independent derivations of the same fact, and the second
build configuration (client-only build, no `server` feature) for the codec/serde properties."""
import roles


def extend(ctx, R, mod):
    F = ctx.facts()
    CG = ctx.cg()
    # (b) cross-checks of role discovery: any disagreement fails closed
    reg = roles.rpc_methods(F)
    trait, into_rpc = roles.rpc_server_trait(F)
    trait_methods = {f.j["method"] for f in F.fns.values() if (f.j.get("in_trait") == trait or f.j.get("trait") == trait) and f.j.get("method")
                     and f.j["method"] not in ("into_rpc",)}
    registered = {m for (_, ms, _, _) in reg for m in ms}
    R.ob(registered <= trait_methods and len(registered) == len(reg), "XCHECK", into_rpc.where(), "XCHECK|handlers",
         "handler set from into_rpc registrations (%d) disagrees with the trait's method list (%d)" % (len(registered), len(trait_methods)),
         sample={"rule": "XCHECK", "what": "handlers: registrations vs trait methods", "registered": len(registered), "trait_methods": len(trait_methods)})
    tf = roles.table_fields(F)
    db = roles.database_struct(F)
    # table set by type vs by constructor calls in D::new
    from tablerules import db_fn
    from terms import rvalue_origin, calls_in
    newf = db_fn(F, "new")
    ctor_fields = set()
    for b in newf.blocks:
        for s in b["stmts"]:
            if s["k"] == "assign" and s["rv"]["k"] == "agg" and s["rv"].get("adt") == db["name"]:
                t = rvalue_origin(newf, s["rv"], 0, frozenset(), 30)
                for fld, op in zip(t[3], t[2]):
                    if any(c[1].endswith("::new") and ("Database" in c[1]) for c in calls_in(op)):
                        ctor_fields.add(fld)
    by_type = {f for f, _, _ in tf} | {fd["name"] for fd in db["variants"][0]["fields"] if "ConfigDatabase" in fd["ty"]}
    R.ob(ctor_fields == by_type, "XCHECK", newf.where(), "XCHECK|tables", "table set by field type %s != table set by constructor calls %s" % (sorted(by_type - ctor_fields), sorted(ctor_fields - by_type)),
         sample={"rule": "XCHECK", "what": "tables: by type vs by constructor", "n": len(by_type)})
    # lock set by type vs by accessor receivers
    from lockrule import LockModel
    LM = LockModel(F, CG)
    by_recv = {s["lock"] for s in LM.sites}
    n_type = 0
    for a in F.adts.values():
        for v in a["variants"]:
            for fd in v["fields"]:
                if "shared_data::SharedData<" in fd["ty"]:
                    n_type += 1
    n_type += sum(1 for c in F.j["consts"] if "SharedData<" in c.get("ty", "") and c["kind"] == "static" and "LAZY" not in c["name"])
    R.ob(len(by_recv) >= 1 and not any(l.startswith("type ") for l in by_recv), "XCHECK", "locks", "XCHECK|locks", "some lock identities fell back to payload types: %s" % sorted(by_recv),
         sample={"rule": "XCHECK", "what": "locks: accessor receivers resolved", "locks": len(by_recv), "declared": n_type})
    # (a) second configuration for the client-side codec
    if R.prop in ("C14",):
        try:
            F2 = ctx.facts("lib-noserver")
            from codec import codec_impls, encode_seq, decode_seq
            ci1 = {t: d for t, d in codec_impls(F).items() if "enc" in d and "dec" in d}
            ci2 = {t: d for t, d in codec_impls(F2).items() if "enc" in d and "dec" in d}
            for t, d in ci2.items():
                e, dd = encode_seq(d["enc"]), decode_seq(d["dec"])
                if t.split("<")[0].endswith("FixedBytesED") or t == "std::option::Option<T>":
                    continue
                R.ob([x["ty"] for x in e] == [x["ty"] for x in dd], "CODEC", d["dec"].where(), "CODEC|noserver|%s" % t.split("::")[-1],
                     "client-only build: %s components written/read differ" % t, sample={"rule": "CODEC (no-default-features build)", "type": t.split("::")[-1]})
            R.counts["codec_pairs_noserver"] = len(ci2)
        except SystemExit:
            R.note("no-default-features configuration could not be extracted; skipped")
