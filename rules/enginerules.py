"""Clauses about the engine's mutating entry points, validators and the pending-pool drain loop
(DOM / GUARD / PAIR instances shared by C05 and C08)."""
from effects import Effects
from guards import edge_forms, lin
from lockrule import LockModel
from tablerules import error_blocks, _leads_to_error_only, must_pass_on_success
from terms import origin, show, calls_in, mentions, control_deps, bool_edge, rvalue_origin, enumerate_paths
from unord import Unord
import roles

VALIDATORS = ("validate_next_tx", "require_no_waiting_txes")
ESCAPE_HATCH = {"clear_caches": "escape hatch by design: drops the unfinished block; callable at any time"}


def ensure_anchor_ids(F):
    """functions that play an anchor role by what they do, whatever they are called (the validators): never inlined"""
    if "_anchor_ids_done" in F.__dict__:
        return
    F.__dict__["_anchor_ids_done"] = True
    raw = {f.j["method"]: f for f in F.fns.values()
           if f.kind == "method" and f.name.startswith("engine::engine::BRC20ProgEngine::") and f.j.get("method")}
    try:
        ids = {raw[n].id for n in discovered_validators(F, raw)}
    except Exception:
        ids = set()
    F.__dict__.setdefault("_anchor_ids", set()).update(ids)
    _VALIDATOR_CACHE.clear()


def engine_methods(F):
    """name -> engine method, each with its private non-anchor helpers virtually inlined; helpers that exist only as the
    product of an extract-method refactoring are not entries of their own"""
    from facts import is_private_helper
    cache = F.__dict__.setdefault("_engine_methods", None)
    if cache is None:
        ensure_anchor_ids(F)
        cache = {f.j["method"]: F.inlined(f) for f in F.fns.values()
                 if f.kind == "method" and f.name.startswith("engine::engine::BRC20ProgEngine::") and f.j.get("method") and not is_private_helper(f)}
        F.__dict__["_engine_methods"] = cache
    return cache


def err_propagated(fn, call):
    """the call's Result reaches a `?` (Try::branch) or the return place, possibly through Result adapters
    (map_err, map, and_then, ok_or, ...) -- never dropped"""
    dst = call.t["dest"]["l"]
    frontier = {dst}
    seen = set()
    for _ in range(6):
        nxt = set()
        for l in frontier:
            if l == 0:
                return True
            if l in seen:
                continue
            seen.add(l)
            for b in fn.blocks:
                for st in b["stmts"]:
                    if st["k"] == "assign" and any(o.get("l") == l for o in st["rv"].get("ops", [])):
                        nxt.add(st["lhs"]["l"])
                t = b["term"]
                if t["k"] == "call" and any(a.get("l") == l for a in t.get("args", [])):
                    p = (t["func"].get("fn") or {}).get("path", "")
                    if p.endswith("::branch") and "Try" in p:
                        return True
                    m = p.split("::")[-1]
                    if m in ("map_err", "map", "and_then", "or_else", "ok_or", "ok_or_else", "into", "from", "await", "into_future", "poll"):
                        nxt.add(t["dest"]["l"])
        frontier = nxt
    return False


def _waiting_guard_edges(fn):
    """edges on which `waiting_tx_count == 0` is known while the other edge of the same switch only leads to Err"""
    out = []
    eb = error_blocks(fn)
    for (b, s, fm, line) in edge_forms(fn):
        if fm.rel == "==" and fm.lin.k == 0 and len(fm.lin.terms) == 1 and mentions(list(fm.lin.terms)[0], "waiting_tx_count"):
            others = [x for x in fn.succ(b) if x != s]
            if others and all(x in eb or _leads_to_error_only(fn, x) for x in others):
                out.append((b, s))
    return out


_VALIDATOR_CACHE = {}


def discovered_validators(F, em):
    """engine methods that *are* validators regardless of their name: they return Result<(), _>, contain a
    `waiting_tx_count`-based refusal (directly or in a closure handed to a lock accessor) and take no write lock"""
    key = id(F)
    if key in _VALIDATOR_CACHE:
        return _VALIDATOR_CACHE[key]
    out = set()
    for name, fn in em.items():
        if not (fn.j.get("output") or "").startswith("std::result::Result<()"):
            continue
        bodies = [fn] + F.descendants(fn.id)
        if any((c.method or "") in ("write_fn", "write_fn_unchecked") for b in bodies for c in b.calls()):
            continue
        refuses = False
        for b in bodies:
            eb = error_blocks(b)
            for (bb, s, fm, line) in edge_forms(b):
                if any(mentions(t, "waiting_tx_count") for t in fm.lin.terms) and fm.rel in ("!=", "==") and (s in eb or _leads_to_error_only(b, s)):
                    refuses = True
        if refuses:
            out.add(name)
    _VALIDATOR_CACHE[key] = out
    return out


def validated_at(F, em, validated, body, bb, depth=0):
    """is block bb of `body` only reachable after a validator: a dominating validator call with propagated error
    (validate_next_tx / require_no_waiting_txes / an engine method already shown to validate), a dominating inline
    `waiting_tx_count != 0 => Err` guard, or -- for closures -- the same at the place the closure is handed over"""
    from terms import edge_dominates
    for c in body.calls():
        if body.is_cleanup(c.bb) or c.bb == bb:
            continue
        m = c.method or ""
        is_v = (m in VALIDATORS or m in discovered_validators(F, em)) and c.target_id == em.get(m, body).id or (validated.get(m) and c.target_id == em.get(m, body).id)
        if is_v and err_propagated(body, c) and body.dominates(c.bb, bb):
            return "%s()" % m
    for e in _waiting_guard_edges(body):
        if edge_dominates(body, e, bb):
            return "inline waiting_tx_count guard"
    if body.kind in ("closure", "coroutine") and depth < 4:
        parent = F.fns.get(body.j.get("parent"))
        if parent is not None:
            for b in range(len(parent.blocks)):
                t = parent.term(b)
                if t["k"] == "call" and not parent.is_cleanup(b):
                    for a in t.get("args", []):
                        if "l" in a and body.id in parent.local_closures(a["l"]):
                            r = validated_at(F, em, validated, parent, b, depth + 1)
                            if r:
                                return r
    return None


def clause_validate_before_mutate(R, F, CG):
    LM = LockModel(F, CG)
    E = Effects(F, CG, LM)
    cl = E.closed()
    containers, _ = roles.state_containers(F)
    em = engine_methods(F)

    def writes(effs):
        return any((e[0] == "MUT" and e[1] in containers) or e[0] in ("WDISK", "COMMIT") for e in effs)

    # read-path shape excluded: functions whose only container effect is the slot move are not mutators
    def is_mutation_site(fn, c):
        site = LM.site_by_call.get(fn.prov(c.bb))
        if site and site["mode"] == "W":
            effs = set()
            for t in CG.site_targets(c):
                effs |= cl.get(t, set())
            return writes(effs)
        return False

    validated = {}     # engine method -> True if all its direct mutation sites are validated
    order = sorted(em)

    def sites_of(name):
        fn = em[name]
        out = []
        for body in [fn] + F.descendants(fn.id):
            for c in body.calls():
                if not body.is_cleanup(c.bb) and is_mutation_site(body, c):
                    out.append((body, c))
        return out
    def callers_validated(name):
        """a private engine method runs in its callers' context: if every call to it (from engine bodies) is itself
        dominated by a validator, its mutation sites are validated"""
        fn = em[name]
        if (fn.j.get("vis") or "") == "Public":
            return False
        callers = []
        for other in em.values():
            for body in [other] + F.descendants(other.id):
                for c in body.calls():
                    if c.target_id == fn.id and not body.is_cleanup(c.bb):
                        callers.append((body, c))
        return bool(callers) and all(validated_at(F, em, validated, body, c.bb) for body, c in callers)

    ctx_validated = set()
    for _ in range(4):
        for name in order:
            ss = sites_of(name)
            if not ss:
                continue
            validated[name] = all(validated_at(F, em, validated, body, c.bb) for body, c in ss)
            if not validated[name] and callers_validated(name):
                ctx_validated.add(name)
    n = 0
    for name in order:
        ss = sites_of(name)
        if not ss:
            continue
        if name in ESCAPE_HATCH:
            R.ok(1, sample={"rule": "DOM-before", "entry": name, "exception": ESCAPE_HATCH[name]})
            continue
        if name in ctx_validated:
            n += len(ss)
            R.ok(len(ss), sample={"rule": "DOM-before", "entry": name, "validator": "every call site of this private helper is dominated by a validator"})
            continue
        for body, s in ss:
            n += 1
            why = validated_at(F, em, validated, body, s.bb)
            what = []
            for t in sorted(CG.site_targets(s)):
                for cc in F.fns[t].calls():
                    if (cc.method or "").startswith(("set_", "remove_", "commit", "reorg", "clear")):
                        what.append(cc.method)
            R.ob(bool(why), "DOM-before", s.where(), "DOM-before|%s|%s" % (name, ",".join(sorted(set(what))[:3]) or "write"),
                 "engine.%s reaches a state mutation (%s) that is not dominated by a validator (%s, or an inline waiting-count guard) whose "
                 "error is propagated: a call that should be refused changes state" % (name, ", ".join(sorted(set(what))[:4]) or "write_fn", " / ".join(VALIDATORS)),
                 sample={"rule": "DOM-before", "entry": name, "mutation": sorted(set(what))[:3], "validator": why})
    R.floor("engine_mutation_sites", n, 6)
    # validators are effect free
    for role, v in (("next-tx", "validate_next_tx"), ("boundary", "require_no_waiting_txes")):
        f = validator_fn(F, role)
        if f is None:
            R.violation("ANCHOR", "engine", "ANCHOR|%s" % v, "validator %s not found (by name or by behaviour)" % v)
            continue
        bad = sorted(e for e in cl[f.id] if (e[0] == "MUT" and e[1] in containers) or e[0] in ("WDISK", "COMMIT", "WLOCK", "SLOT"))
        R.ob(not bad, "EFFECT", f.where(), "EFFECT|%s" % v, "validator %s has effects %s" % (v, bad), sample={"rule": "EFFECT", "fn": v, "effects": []})
    return E


def validator_fn(F, role):
    """the engine's two validators by what they do, not by their name: `boundary` = refuses while a block is under
    construction and takes nothing but self; `next-tx` = the one that also compares call parameters"""
    em = engine_methods(F)
    byname = {"next-tx": "validate_next_tx", "boundary": "require_no_waiting_txes"}[role]
    if byname in em:
        return em[byname]
    cands = [em[n] for n in sorted(discovered_validators(F, em))]
    cands = [f for f in cands if (f.j["mir"]["argc"] == 1) == (role == "boundary")]
    return cands[0] if len(cands) == 1 else None


def _refusal_variant(F, fn, gb):
    """the Option/enum variant of closure gb's result that makes validator fn return Err: fn switches on the discriminant of
    the value gb produced (through a lock accessor and `?`) and exactly one variant's edge leads to Err only.  None if fn does
    not branch on gb's result."""
    from terms import closures_in_term, no_inlining
    eb = error_blocks(fn)
    for b in range(len(fn.blocks)):
        t = fn.term(b)
        if t["k"] != "switch" or fn.is_cleanup(b):
            continue
        with no_inlining():
            d = origin(fn, t["discr"])
        if d[0] != "discr" or gb.id not in closures_in_term(d) or not (len(d) > 3 and d[3]):
            continue
        if d[1][0] == "call" and d[1][1].endswith("::branch"):
            continue        # the `?` on the accessor's Result, not a decision on the reported value
        names = {v: n for (n, v) in d[3]}
        rej, acc = [], []
        for (v, tb) in t.get("targets", []):
            (rej if (tb in eb or _leads_to_error_only(fn, tb)) else acc).append(names.get(v))
        other = [n for (n, v) in d[3] if v not in [x for x, _ in t.get("targets", [])]]
        if fn.term(t["otherwise"])["k"] != "unreachable":
            (rej if (t["otherwise"] in eb or _leads_to_error_only(fn, t["otherwise"])) else acc).extend(other)
        rej = [x for x in rej if x]
        if len(rej) == 1 and acc:
            return rej[0]
    return None


def clause_validator_rows(R, F):
    em = engine_methods(F)
    fn = validator_fn(F, "next-tx")
    fb = validator_fn(F, "boundary")
    R.ob(fn is not None and fb is not None, "ANCHOR", "(engine)", "ANCHOR|validators", "the engine's block-protocol validators were not found "
         "(no method that refuses on waiting_tx_count, by name or by behaviour)")
    if fn is None or fb is None:
        return
    # the comparison rows sit in the validator's body or in a closure it hands to a lock accessor
    row_bodies = [fn] + [g for g in F.descendants(fn.id) if g.kind == "closure"]
    g = row_bodies[-1] if len(row_bodies) > 1 else fn

    def role(a):
        if mentions(a, "waiting_tx_count"):
            return "waiting"
        if mentions(a, "timestamp") and a[0] != "upvar" and mentions(a, "info"):
            return "info.timestamp"
        s = show(a)
        if a[0] in ("upvar", "deref") and mentions(a, "tx_idx"):
            return "tx_idx"
        if mentions(a, "tx_idx"):
            return "tx_idx"
        if ".timestamp" in s:
            return "info.timestamp"
        if mentions(a, "timestamp"):
            return "timestamp"
        if ".hash" in s:
            return "info.hash"
        if mentions(a, "block_hash"):
            return "block_hash"
        return None
    rows = {}
    for gb in row_bodies:
        ebb = error_blocks(gb)
        refusal_variant = _refusal_variant(F, fn, gb) if gb is not fn else None
        for (b, s, fm, line) in edge_forms(gb):
            r, k, rel, bad = fm.roles(role)
            to_err = s in ebb or _leads_to_error_only(gb, s)
            if not to_err and refusal_variant is not None and r:
                # predicate style: the closure reports the broken rule as a value (`Ok(Some(violation))`) and the validator turns
                # exactly that variant into Err
                from terms import variant_chains
                ch = variant_chains(gb, s)
                to_err = bool(ch) and all(refusal_variant in c and "?" not in c for c in ch)
            if r:
                rows[(tuple(sorted(r.items())), k, rel)] = to_err
    R.floor("validate_next_tx_rows", len(rows), 3)
    want = [
        ((("tx_idx", -1), ("waiting", 1)), 0, "!=", True, "waiting_tx_count != tx_idx => Err"),
        ((("info.timestamp", 1), ("timestamp", -1)), 0, "!=", True, "timestamp differs from the block's => Err"),
        ((("block_hash", -1), ("info.hash", 1)), 0, "!=", True, "hash differs from the block's => Err"),
    ]
    for (r, k, rel, err, text) in want:
        hit = False
        for (rr, kk, rl), te in rows.items():
            if rl == rel and kk == 0 and set(x[0] for x in rr) == set(x[0] for x in r) and te == err:
                hit = True
        R.ob(hit, "GUARD", g.where(), "GUARD|validate_next_tx|%s" % text.split(" ")[0], "validate_next_tx lost the row `%s`" % text,
             sample={"rule": "GUARD", "fn": "validate_next_tx", "row": text})
    # timestamp/hash rows apply only when waiting != 0
    ok = False
    for (rr, kk, rl), te in rows.items():
        if rl in ("!=", "==") and [x[0] for x in rr] == ["waiting"] and kk == 0:
            ok = True
    R.ob(ok, "GUARD", g.where(), "GUARD|validate_next_tx|first-tx", "timestamp/hash comparison is no longer conditional on `waiting_tx_count != 0`")
    # refuses a block whose number OR whose hash already exists, on every success path, before returning Ok:
    # the two refusal rows may sit in the validator itself or in a local function it calls with its own
    # (hash, number) and whose result it returns / propagates
    def exists_rows(f, hash_name, number_name):
        """{'number','hash'} subsets: edges `get_block_hash(<number>).is_some() => Err` / `get_block_number(<hash>).is_some() => Err`"""
        eb2 = error_blocks(f)
        seen = {}
        for b in range(len(f.blocks)):
            t = f.term(b)
            if t["k"] != "switch" or f.is_cleanup(b):
                continue
            for s2 in f.succ(b):
                be = bool_edge(f, b, s2)
                cond = None
                if be and be[1] is True and mentions(be[0], "is_some"):
                    cond = be[0]
                elif be and be[1] is False and mentions(be[0], "is_none"):
                    cond = be[0]
                else:
                    # `match lookup { Some(_) => Err(..), None => .. }`: the Some edge of the lookup's discriminant
                    d = origin(f, t["discr"])
                    if d[0] == "discr" and len(d) > 3 and d[3]:
                        vals = [v for v, tb in t["targets"] if tb == s2]
                        names = [n for (n, v2) in d[3] if v2 in vals]
                        if not vals and t.get("otherwise") == s2:
                            names = [n for (n, v2) in d[3] if v2 not in [v for v, _ in t["targets"]]]
                        if names == ["Some"]:
                            cond = d
                if cond is not None and (s2 in eb2 or _leads_to_error_only(f, s2)):
                    if mentions(cond, "get_block_hash") and mentions(cond, number_name):
                        seen.setdefault("number", []).append(b)
                    if mentions(cond, "get_block_number") and mentions(cond, hash_name):
                        seen.setdefault("hash", []).append(b)
        return seen
    seen = {}
    for k2, bbs in exists_rows(fn, "block_hash", "block_number").items():
        if must_pass_on_success(fn, bbs):
            seen[k2] = "inline"
    # a closure handed to a lock accessor whose result is returned / propagated runs as part of the validator
    cl_calls = []
    for gcl in row_bodies[1:]:
        for c in gcl.calls():
            if not gcl.is_cleanup(c.bb) and c.target_id in F.fns and F.fns[c.target_id].blocks:
                cl_calls.append((gcl, c))
    for (gcl, c) in cl_calls:
        g2 = F.inlined(F.fns[c.target_id])
        if not (g2.j.get("output") or "").startswith("std::result::Result<()"):
            continue
        if not (must_pass_on_success(gcl, [c.bb]) and (c.t["dest"]["l"] == 0 or err_propagated(gcl, c))):
            continue
        import wire as _W
        names2 = g2.j.get("param_names") or []
        hn = [n for n, a in zip(names2, c.args) if mentions(_W.resolve(F, gcl, origin(gcl, a)), "block_hash")]
        nn = [n for n, a in zip(names2, c.args) if mentions(_W.resolve(F, gcl, origin(gcl, a)), "block_number")]
        for h in hn:
            for n in nn:
                for k2, bbs in exists_rows(g2, h, n).items():
                    if must_pass_on_success(g2, bbs):
                        seen[k2] = g2.name.split("::")[-1]
    for c in fn.calls():
        if fn.is_cleanup(c.bb) or not c.target_id or c.target_id not in F.fns or not F.fns[c.target_id].blocks:
            continue
        g2 = F.inlined(F.fns[c.target_id])
        if not (g2.j.get("output") or "").startswith("std::result::Result<()"):
            continue
        if not (must_pass_on_success(fn, [c.bb]) and (c.t["dest"]["l"] == 0 or err_propagated(fn, c))):
            continue
        names = g2.j.get("param_names") or []
        hn = [n for n, a in zip(names, c.args) if mentions(origin(fn, a), "block_hash")]
        nn = [n for n, a in zip(names, c.args) if mentions(origin(fn, a), "block_number")]
        for h in hn or [None]:
            for n in nn or [None]:
                if h is None or n is None:
                    continue
                for k2, bbs in exists_rows(g2, h, n).items():
                    if must_pass_on_success(g2, bbs):
                        seen[k2] = g2.name.split("::")[-1]
    R.ob(set(seen) == {"number", "hash"}, "GUARD", fn.where(), "GUARD|validate_next_tx|block-exists:%s" % ",".join(sorted({"number", "hash"} - set(seen))),
         "validate_next_tx no longer refuses, before any mutation, a block whose %s already exists (refusal rows found: %s)" % (
             " / ".join(sorted({"number", "hash"} - set(seen))), seen),
         sample={"rule": "GUARD", "fn": "validate_next_tx", "rows": seen})
    # require_no_waiting_txes: Err iff waiting_tx_count != 0
    f = fb
    ok = False
    for (b, s, fm, line) in edge_forms(f):
        r, k, rel, bad = fm.roles(lambda a: "waiting" if mentions(a, "waiting_tx_count") else None)
        if not bad and rel == "!=" and k == 0 and (s in error_blocks(f) or _leads_to_error_only(f, s)):
            ok = True
    R.ob(ok, "GUARD", f.where(), "GUARD|require_no_waiting_txes", "require_no_waiting_txes is no longer `waiting_tx_count != 0 => Err`",
         sample={"rule": "GUARD", "fn": "require_no_waiting_txes", "row": "waiting != 0 => Err"})


def clause_select_bytes(R, F):
    fn = [f for f in F.fns.values() if f.name.endswith("api::types::select_bytes")]
    R.floor("select_bytes", len(fn), 1)
    if not fn:
        return
    fn = fn[0]
    eb = error_blocks(fn)
    table = {}

    def which_var(t):
        if mentions(t, "base64"):
            return "b64"
        if mentions(t, "raw"):
            return "raw"
        return None
    # abstract execution over the four presence combinations: every switch the combination decides (a match on the pair, an
    # `is_some()` test, a count of the encodings present compared with 0 / 1, ...) takes only its decided edge
    from terms import explore_under
    for r in ("Some", "None"):
        for b6 in ("Some", "None"):
            def env_of(t, r=r, b6=b6):
                x = t
                while x[0] in ("ref", "deref", "cast"):
                    x = x[1]
                if x[0] == "param":
                    v = which_var(x)
                    return {"raw": r, "b64": b6}.get(v)
                return None
            rets, visited = explore_under(fn, env_of)
            outside = set(range(len(fn.blocks))) - visited
            # MIR funnels every path into one return block: the outcome is whether the path passed an error block
            if any(rb in fn.reachable(0, avoid=set(eb) | outside) for rb in rets):
                table.setdefault((r, b6), set()).add("Ok")
            if any(e in visited and any(rb in fn.reachable(e, avoid=outside) for rb in rets) for e in eb):
                table.setdefault((r, b6), set()).add("Err")
    want = {("Some", "None"): {"Ok"}, ("None", "Some"): {"Ok"}, ("None", "None"): {"Err"}, ("Some", "Some"): {"Err"}}
    for k, v in want.items():
        R.ob(table.get(k) == v, "GUARD", fn.where(), "GUARD|select_bytes|%s-%s" % k,
             "select_bytes(raw=%s, base64=%s) yields %s; exactly one encoding must be accepted (expected %s)" % (k[0], k[1], sorted(table.get(k, [])), sorted(v)),
             sample={"rule": "GUARD", "fn": "select_bytes", "raw": k[0], "base64": k[1], "result": sorted(table.get(k, []))})
    # Ok arms return the value of the field that was set
    for c in fn.calls():
        if (c.method or "") == "value" and not fn.is_cleanup(c.bb):
            R.ok(1)


def clause_decode_before_mutate(R, F, write_methods):
    """in each write handler every fallible decode dominates the engine call"""
    dec = ("select_bytes", "get_evm_address_from_pkscript", "parse_block_number")
    em = engine_methods(F)
    eng_ids = {f.id: n for n, f in em.items()}
    for (name, ms, handlers) in write_methods:
        for h in handlers:
            for d in F.descendants(h):
                engine_calls = [c for c in d.calls() if c.target_id in eng_ids and eng_ids[c.target_id] in
                                ("add_tx_to_block", "add_raw_tx_to_block", "finalise_block", "mine_blocks", "reorg", "initialise", "commit_to_db")
                                and not d.is_cleanup(c.bb)]
                decs = [c for c in d.calls() if (c.method or (c.target_path or "").split("::")[-1]) in dec and not d.is_cleanup(c.bb)]
                for e in engine_calls:
                    for x in decs:
                        R.ob(d.dominates(x.bb, e.bb) and err_propagated(d, x), "DOM-before", x.where(), "DOM-before|%s|%s" % (name, x.method or x.target_path.split("::")[-1]),
                             "%s: decoding step %s does not precede the engine call or its error is dropped" % (name, x.target_path),
                             sample={"rule": "DOM-before", "handler": name, "decode": (x.target_path or "").split("::")[-1], "before": eng_ids[e.target_id]})


def drain_loop(F):
    """(fn, loop head, body blocks, add_tx call inside loop, idx local)"""
    em = engine_methods(F)
    fn = em.get("add_raw_tx_to_block")
    if fn is None:
        return None
    loops = Unord(F, None).natural_loops(fn)
    best = None
    for h, body in loops.items():
        calls = [c for c in fn.calls() if c.bb in body and (c.method or "") == "add_tx_to_block" and not fn.is_cleanup(c.bb)]
        if calls:
            if best is None or len(body) < len(best[2]):
                best = (fn, h, body, calls)
    return best


def clause_drain_pairing(R, F):
    dl = drain_loop(F)
    if dl is None:
        R.violation("ANCHOR", "engine", "ANCHOR|drain-loop", "pending-pool drain loop not found in add_raw_tx_to_block")
        return
    fn, h, body, calls = dl
    c = calls[0]
    # the tx_idx operand (parameter #3 of add_tx_to_block): its root local
    idx_op = c.args[3]
    idx_local = _root_counter(fn, idx_op)
    # nonce counter: the nonce handed to get_pending_tx
    gp = [x for x in fn.calls() if x.bb in body and (x.method or "") == "get_pending_tx"]
    nonce_local = _root_counter(fn, gp[0].args[2]) if gp else None
    pushes = [x for x in fn.calls() if x.bb in body and (x.method or "") == "push" and not fn.is_cleanup(x.bb)]
    # enumerate paths round the loop
    paths = []
    st = [(s, [s]) for s in fn.succ(h) if s in body]
    while st:
        b, p = st.pop()
        for s in fn.succ(b):
            if s == h:
                paths.append([h] + p)
            elif s in body and s not in p:
                st.append((s, p + [s]))
    R.floor("drain_loop_paths", len(paths), 2)
    bad = []
    for p in paths:
        n_exec = sum(1 for b in p if any(x.bb == b for x in calls))
        n_push = sum(1 for b in p if any(x.bb == b for x in pushes))
        n_idx = _count_increments(fn, p, idx_local)
        n_nonce = _count_increments(fn, p, nonce_local) if nonce_local is not None else None
        n_rm = sum(1 for b in p for x in fn.calls() if x.bb == b and (x.method or "") == "write_fn")
        ok = (n_exec == n_idx == n_push)
        if not ok:
            bad.append((n_exec, n_idx, n_push))
        R.ob(ok, "PAIR", "%s:%d" % (fn.loc["f"], c.line), "PAIR|drain|exec=%d,idx=%d,push=%d" % (n_exec, n_idx, n_push),
             "on a path round the drain loop, %d transaction(s) are executed but the block index advances by %d and %d receipt(s) are "
             "collected: the next drained transaction is offered with a tx_idx that validate_next_tx rejects after earlier ones "
             "were executed (an Err with effects) / receipts returned differ from transactions appended" % (n_exec, n_idx, n_push),
             sample={"rule": "PAIR", "loop": "drain", "executed": n_exec, "idx_increments": n_idx, "receipts": n_push, "nonce_increments": n_nonce})
        if n_nonce is not None:
            R.ob(n_nonce == 1, "PAIR", "%s:%d" % (fn.loc["f"], c.line), "PAIR|drain|nonce=%d" % n_nonce,
                 "the nonce cursor advances by %d per iteration" % n_nonce)
        R.ob(n_rm >= 1, "PAIR", "%s:%d" % (fn.loc["f"], c.line), "PAIR|drain|remove", "a pending entry taken from the pool is not removed on this path")


def _root_counter(fn, op):
    if "l" not in op:
        return None
    l = op["l"]
    for _ in range(6):
        ds = [d for d in fn.defs().get(l, []) if d[2] == "assign"]
        if len(ds) == 1 and ds[0][3]["rv"]["k"] == "use" and "l" in ds[0][3]["rv"]["ops"][0] and not ds[0][3]["rv"]["ops"][0].get("p"):
            l = ds[0][3]["rv"]["ops"][0]["l"]
        else:
            break
    return l


def _count_increments(fn, path, local):
    """number of `local = local + const` assignments along the path"""
    n = 0
    for b in path:
        for s in fn.blocks[b]["stmts"]:
            if s["k"] == "assign" and s["lhs"]["l"] == local and not s["lhs"].get("p"):
                t = rvalue_origin(fn, s["rv"], 0, frozenset(), 6)
                # move (_t.0) where _t = AddWithOverflow(local, 1)
                l = lin(t)
                if l.k >= 1 and len(l.terms) == 1:
                    n += l.k
    return n


def clause_park_rows_together(R, F):
    """set_pending_tx writes the pool row and the txid side-table row on every success path, keyed by the transaction's own
    hash / (account, nonce), with the call's txid as value"""
    from tablerules import db_fn, calls_on_field
    fn = db_fn(F, "set_pending_tx")
    if fn is None:
        R.violation("ANCHOR", "database", "ANCHOR|set_pending_tx", "set_pending_tx not found")
        return
    sets = calls_on_field(fn, {"set"})
    for fld in ("db_pending_txes", "db_pending_txes_op_return_tx_ids"):
        cs = sets.get(fld, [])
        R.ob(bool(cs) and must_pass_on_success(fn, [c.bb for c in cs]), "DOM-all", fn.where(), "DOM-all|set_pending_tx|%s" % fld,
             "parking a transaction does not write %s on every success path: a stale row of an earlier park of the same transaction "
             "stays in force (the drained transaction then sees the wrong Bitcoin transaction id)" % fld,
             sample={"rule": "DOM-all", "fn": "set_pending_tx", "row": fld})
    for c in sets.get("db_pending_txes_op_return_tx_ids", []):
        k, v = origin(fn, c.args[2]), origin(fn, c.args[3])
        R.ob(mentions(k, ".hash") and mentions(k, "tx"), "WIRE", c.where(), "WIRE|set_pending_tx|txid-key", "txid row keyed by `%s`, not by the transaction's hash" % show(k)[:60])
        names = fn.j.get("param_names") or []
        pi = names.index("op_return_tx_id") + 1 if "op_return_tx_id" in names else None
        import wire as W
        vv = W.strip(v)
        R.ob(vv[0] == "param" and (pi is None or vv[1] == pi), "WIRE", c.where(), "WIRE|set_pending_tx|txid-value", "txid row holds `%s`, not the call's txid" % show(v)[:60],
             sample={"rule": "WIRE", "fn": "set_pending_tx", "txid_row": "tx.hash -> op_return_tx_id"})


# ---------------------------------------------------------------------------------------------------------------
# block-under-construction record: a reset is a *whole* reset

def _bi_adt(F):
    """the record guarded by the engine's waiting-count lock: the struct that owns the field `waiting_tx_count`"""
    for a in F.j["adts"]:
        if a.get("kind") == "Struct" and any(f["name"] == "waiting_tx_count" for v in a["variants"] for f in v["fields"]):
            return a
    return None


def _field_reads(t, out=None):
    """names of struct fields read from a dereferenced parameter inside an origin term"""
    if out is None:
        out = set()
    if isinstance(t, tuple):
        if len(t) >= 3 and t[0] == "field" and isinstance(t[1], tuple) and t[1][:1] == ("deref",) and isinstance(t[1][1], tuple) and t[1][1][:1] == ("param",):
            out.add(t[2].lstrip("."))
        for x in t:
            _field_reads(x, out)
    return out


def clause_block_info_reset(R, F, owners=("clear_caches", "finalise_block")):
    """Every write that takes the unfinished-block record back to `waiting_tx_count = 0` resets every accumulator
    of that record (a field some writer updates from its own previous value) to its initial constant, and the
    operations that end or abandon a block perform such a reset on every success path.  Otherwise gas/log-index/
    processing-time of an abandoned block leak into the next one."""
    from terms import rvalue_origin
    adt = _bi_adt(F)
    R.ob(adt is not None, "ANCHOR", "(whole crate)", "ANCHOR|block-info|adt", "no struct with a waiting_tx_count field: the unfinished-block record was not found")
    if adt is None:
        return
    fields = [f["name"] for f in adt["variants"][0]["fields"]]
    tyname = adt["name"]
    # initial constants from the constructor(s): fns returning the record whose body builds it from constants only
    init = {}
    ctor_ids = set()
    for f in F.body_fns():
        if (f.j.get("output") or "") == tyname and f.j["kind"] in ("fn", "method") and f.j["mir"]["argc"] == 0:
            for bi, b in enumerate(f.blocks):
                for s in b["stmts"]:
                    if s["k"] == "assign" and s["lhs"]["l"] == 0 and not s["lhs"].get("p"):
                        o = rvalue_origin(f, s["rv"], bi, frozenset(), 40)
                        if o[0] == "agg" and o[1].startswith(tyname):
                            ctor_ids.add(f.id)
                            for n, v in zip(fields, o[2]):
                                init[n] = v
    R.ob(bool(init), "ANCHOR", "(whole crate)", "ANCHOR|block-info|ctor", "no argument-less constructor of %s found" % tyname)
    if not init:
        return
    # writers
    writers = []
    for f in F.body_fns():
        ls = f.j["mir"]["locals"]
        ptr = [i for i, l in enumerate(ls[:f.j["mir"]["argc"] + 1]) if (l.get("ty") or "") == "&mut " + tyname]
        if not ptr:
            continue
        whole, per_field = [], {}
        for bi, b in enumerate(f.blocks):
            if f.is_cleanup(bi):
                continue
            for s in b["stmts"]:
                if s["k"] != "assign" or s["lhs"]["l"] not in ptr:
                    continue
                p = s["lhs"].get("p") or []
                if p == ["*"]:
                    whole.append(rvalue_origin(f, s["rv"], bi, frozenset(), 40))
                elif len(p) == 2 and p[0] == "*" and isinstance(p[1], str):
                    per_field.setdefault(p[1].lstrip("."), []).append(rvalue_origin(f, s["rv"], bi, frozenset(), 40))
        if whole or per_field:
            writers.append((f, whole, per_field))
    R.floor("block_info_writers", len(writers), 2)
    # accumulators: fields with a self-dependent, non-identity update somewhere
    acc = set()
    for f, whole, per_field in writers:
        for n, vals in per_field.items():
            for v in vals:
                if n in _field_reads(v):
                    acc.add(n)
    R.floor("block_info_accumulators", len(acc), 3)
    R.say("block-info record %s: accumulators %s" % (tyname, sorted(acc)))

    def is_init(n, v):
        return show(v) == show(init[n])

    resets = set()
    for f, whole, per_field in writers:
        for o in whole:
            if o[0] == "call" and any(F.fns[i].name == o[1] for i in ctor_ids):
                resets.add(f.id)
                R.ok(1, sample={"rule": "RESET whole", "writer": f.name[-60:], "value": show(o)[:60]})
                continue
            if o[0] == "agg" and o[1].startswith(tyname):
                vals = dict(zip(fields, o[2]))
                if show(vals.get("waiting_tx_count")) != show(init["waiting_tx_count"]):
                    continue
                bad = [n for n in sorted(acc) if not is_init(n, vals[n])]
                if not bad:
                    resets.add(f.id)
                R.ob(not bad, "RESET", f.where(), "RESET|block-info|%s|%s" % (f.name.split("::")[-2] if "{closure" in f.name else f.name.split("::")[-1], ",".join(bad)),
                     "the unfinished-block record is rebuilt with waiting_tx_count = 0 but accumulator(s) %s keep a non-initial value" % bad,
                     sample={"rule": "RESET whole", "writer": f.name[-60:], "value": show(o)[:100]})
                continue
            # whole-record assignment from something else (a parameter, a clone): cannot be read
            R.violation("RESET", f.where(), "RESET|block-info|%s|opaque" % f.name.split("::")[-2], "the unfinished-block record is overwritten by a value that is not its constructor or a literal: %s" % show(o)[:80])
        w = per_field.get("waiting_tx_count") or []
        for v in w:
            if "waiting_tx_count" in _field_reads(v):
                continue   # the increment
            owner = f.name.split("::")[-2] if "{closure" in f.name else f.name.split("::")[-1]
            if show(v) != show(init["waiting_tx_count"]):
                R.violation("RESET", f.where(), "RESET|block-info|%s|count" % owner, "waiting_tx_count is set to %s (neither the increment nor the initial value)" % show(v)[:40])
                continue
            bad = [n for n in sorted(acc) if n != "waiting_tx_count" and not any(is_init(n, x) for x in per_field.get(n, []))]
            if not bad:
                resets.add(f.id)
            R.ob(not bad, "RESET", f.where(), "RESET|block-info|%s|%s" % (owner, ",".join(bad)),
                 "waiting_tx_count is reset to 0 but accumulator(s) %s of the same record are left as the abandoned block made them: "
                 "the next block starts with stale gas / log index / processing time" % bad,
                 sample={"rule": "RESET per-field", "writer": f.name[-60:]})
    # the operations that end or abandon a block perform a reset on every success path
    from tablerules import must_pass_on_success
    em = engine_methods(F)
    for name in owners:
        fn = em.get(name)
        R.ob(fn is not None, "ANCHOR", "(engine)", "ANCHOR|block-info|%s" % name, "engine method %s not found" % name)
        if fn is None:
            continue
        def _fn_args(c):
            # closures handed to the call, and functions handed to it by name (`write_fn_unchecked(LastBlockInfo::reset)`)
            ids = [cl for cl in ((c.func or {}).get("arg_cl") or []) if cl]
            for a in c.args:
                if isinstance(a, dict) and a.get("k") == "const" and a.get("fn"):
                    ids.append(((a["fn"].get("res") or {}).get("id")) or a["fn"].get("id"))
            return ids
        hits = [c.bb for c in fn.calls() if not fn.is_cleanup(c.bb) and any(cl in resets for cl in _fn_args(c))]
        R.ob(bool(hits) and must_pass_on_success(fn, hits), "DOM-all", fn.where(), "DOM-all|%s|block-info-reset" % name,
             "%s does not reset the unfinished-block record (whole reset) on every success path" % name,
             sample={"rule": "DOM-all", "fn": name, "must": "whole reset of the unfinished-block record"})


# ---------------------------------------------------------------------------------------------------------------
# where an engine operation's steps live: its own body, its closures, or engine-level helpers it always calls

def operation_bodies(F, owner_name, depth=3):
    """bodies that run as part of engine method `owner_name` on every success path: the method, its closures
    (handed to lock accessors), and local non-database helper functions called on every success path from those
    (so that extracting a step into a helper, or inlining one, does not move the anchor)."""
    em = engine_methods(F)
    root = em.get(owner_name)
    if root is None:
        return []
    from tablerules import must_pass_on_success
    out, seen = [], set()
    work = [(root, 0)]
    while work:
        f, d = work.pop()
        if f.id in seen:
            continue
        seen.add(f.id)
        out.append(f)
        for ch in F.descendants(f.id):
            if ch.id not in seen and ch.blocks:
                work.append((ch, d))
        if d >= depth:
            continue
        for c in f.calls():
            tid = c.target_id
            if f.is_cleanup(c.bb) or not tid or tid not in F.fns:
                continue
            g = F.fns[tid]
            if not g.blocks or not g.name.startswith("engine::") or g.id in em_ids(em) and g.id != root.id and g.j.get("vis") == "pub":
                continue
            if not must_pass_on_success(f, [c.bb]):
                continue
            work.append((g, d + 1))
    return out


def em_ids(em):
    return {f.id for f in em.values()}


def operation_bodies_calling(F, owner_name, method):
    return [f for f in operation_bodies(F, owner_name) if any((c.method or "") == method and not f.is_cleanup(c.bb) for c in f.calls())]



def clause_drain_own_data(R, F):
    """Of everything handed to the execution of a drained (parked) transaction, only the block coordinates and the index come
    from the call in progress; every other argument (transaction fields, inscription id, byte length, txid) is the parked
    transaction's own stored data.  Otherwise receipts / index rows / gas / context of the drained transaction are those of the
    transaction that triggered the drain."""
    dl = drain_loop(F)
    R.ob(dl is not None, "ANCHOR", "(engine)", "ANCHOR|drain-loop", "the pending-pool drain loop was not found")
    if not dl:
        return
    em = engine_methods(F)
    fn = em["add_raw_tx_to_block"]
    c = dl[3][0]
    pn = em["add_tx_to_block"].j.get("param_names") or []
    per_block = {"self", "timestamp", "block_number", "block_hash", "tx_idx"}
    n = 0
    for i, nm in enumerate(pn):
        if nm in per_block or i >= len(c.args):
            continue
        n += 1
        a = origin(fn, c.args[i])
        R.ob(mentions(a, "get_pending_tx") or mentions(a, "pending_tx"), "WIRE", c.where(), "WIRE|drain|own:%s" % nm,
             "a drained transaction is executed with %s = `%s`, which is not the value stored with the parked transaction (it belongs to "
             "the transaction that triggered the drain)" % (nm, show(a)[:70]), sample={"rule": "WIRE", "site": "drain", "argument": nm, "origin": show(a)[:60]})
    R.floor("drain_own_arguments", n, 4)
