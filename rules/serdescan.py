"""Syntax-level scan of `#[derive(Serialize, Deserialize)]` types and their field-level serde attributes
(the attributes are consumed by the derive macro and do not survive into MIR)."""
import os
import re


def _strip_comments(src):
    src = re.sub(r"/\*.*?\*/", " ", src, flags=re.S)
    return re.sub(r"//[^\n]*", "", src)


def _split_top(s, sep=","):
    out, depth, cur = [], 0, ""
    instr = False
    for ch in s:
        if ch == '"':
            instr = not instr
        if not instr:
            if ch in "([{<":
                depth += 1
            elif ch in ")]}>":
                depth -= 1
        if ch == sep and depth == 0 and not instr:
            out.append(cur.strip())
            cur = ""
        else:
            cur += ch
    if cur.strip():
        out.append(cur.strip())
    return out


def parse_attr(text):
    """serde(a, b = "x", c(d = "y")) -> dict"""
    out = {}
    for item in _split_top(text):
        m = re.match(r"^(\w+)\s*=\s*\"(.*)\"$", item, re.S)
        if m:
            out[m.group(1)] = m.group(2)
            continue
        m = re.match(r"^(\w+)\s*\((.*)\)$", item, re.S)
        if m:
            out[m.group(1)] = parse_attr(m.group(2))
            continue
        out[item] = True
    return out


def scan(repo):
    """[{file, name, derives:set, fields:[{name, ty, serde:dict}]}] for structs under src/"""
    out = []
    for dp, dn, fns in os.walk(os.path.join(repo, "src")):
        for f in sorted(fns):
            if not f.endswith(".rs"):
                continue
            path = os.path.join(dp, f)
            src = _strip_comments(open(path).read())
            # cut test modules
            tm = re.search(r"#\[cfg\(test\)\]\s*mod\s+tests", src)
            if tm:
                src = src[:tm.start()]
            for m in re.finditer(r"((?:#\[[^\]]*\]\s*)+)pub(?:\([^)]*\))?\s+struct\s+(\w+)\s*(?:<[^>{]*>)?\s*\{", src):
                attrs = m.group(1)
                derives = set()
                for d in re.findall(r"derive\(([^)]*)\)", attrs):
                    derives |= {x.strip().split("::")[-1] for x in d.split(",")}
                start = m.end() - 1
                depth = 0
                j = start
                while j < len(src):
                    if src[j] == "{":
                        depth += 1
                    elif src[j] == "}":
                        depth -= 1
                        if depth == 0:
                            break
                    j += 1
                body = src[start + 1:j]
                fields = []
                for item in _split_top(body):
                    fm = re.match(r"^((?:#\[.*?\]\s*)*)(?:pub(?:\([^)]*\))?\s+)?(\w+)\s*:\s*(.+)$", item, re.S)
                    if not fm:
                        continue
                    sattrs = {}
                    for a in re.findall(r"#\[serde\((.*?)\)\]", fm.group(1), re.S):
                        sattrs.update(parse_attr(" ".join(a.split())))
                    fields.append({"name": fm.group(2), "ty": " ".join(fm.group(3).split()), "serde": sattrs})
                out.append({"file": os.path.relpath(path, repo), "name": m.group(2), "derives": derives, "fields": fields})
    return out
