"""Activation boundaries: a rule that switches on at a height H is in force *from* H on - at H itself, not before it.

The check is an abstract execution (terms.explore_under) of the selecting function with its helpers read in place, for one
network at a time, in two scenarios that need no concrete numbers:

    at      the height equals the activation height compared with:   h >= H, h <= H, h == H  true;   h > H, h < H, h != H  false
    before  the height is the one just below it:                     h <  H, h <= H, h != H  true;   h >= H, h > H, h == H false

Every comparison between a value derived from the height parameter and a value that is not is decided by the scenario, the
network discriminant by the chosen network, everything else forks.  The caller states what must come out in each scenario.
Which constant H is - and that it is the pinned one - is the business of the consensus-constant manifest (C02 CONST)."""
from terms import explore_under, mentions, origin

_AT = {"Ge": True, "Le": True, "Eq": True, "Gt": False, "Lt": False, "Ne": False}
_BEFORE = {"Lt": True, "Le": True, "Ne": True, "Ge": False, "Gt": False, "Eq": False}
_FLIP = {"Ge": "Le", "Le": "Ge", "Gt": "Lt", "Lt": "Gt", "Eq": "Eq", "Ne": "Ne"}
_METHODS = {"ge": "Ge", "le": "Le", "gt": "Gt", "lt": "Lt", "eq": "Eq", "ne": "Ne"}


def _mentions_param(t, pname):
    k = t[0]
    if k == "param":
        return (t[2] or t[1]) == pname
    if k in ("ref", "deref", "cast", "discr", "field", "captured"):
        return _mentions_param(t[1], pname)
    if k == "call" or k == "agg":
        return any(_mentions_param(a, pname) for a in t[2])
    if k == "bin":
        return _mentions_param(t[2], pname) or _mentions_param(t[3], pname)
    if k == "un":
        return _mentions_param(t[2], pname)
    if k == "phi":
        return any(_mentions_param(a, pname) for a in t[1])
    return False


def outcomes(F, fn, height_param, network, scenario, network_call="get_bitcoin_network"):
    """(labels, undecided comparisons): labels = enum variants assigned to the return place on blocks reached, plus
    True / False for a boolean result, under the scenario ('at' | 'before') for the given network variant name"""
    table = _AT if scenario == "at" else _BEFORE
    seen_cmp = []

    def env_of(t):
        if t[0] == "bin" and t[1] in table:
            a, b = _mentions_param(t[2], height_param), _mentions_param(t[3], height_param)
            if a != b:
                seen_cmp.append(t[1])
                return table[t[1] if a else _FLIP[t[1]]]
            return None
        if t[0] == "call" and t[1].split("::")[-1] in _METHODS and len(t[2]) == 2:
            op = _METHODS[t[1].split("::")[-1]]
            a, b = _mentions_param(t[2][0], height_param), _mentions_param(t[2][1], height_param)
            if a != b:
                seen_cmp.append(op)
                return table[op if a else _FLIP[op]]
            return None
        if t[0] == "call" and t[1].split("::")[-1] == network_call:
            return network
        return None
    rets = [i for i, b in enumerate(fn.blocks) if not b.get("cleanup") and b["term"]["k"] == "return"]
    out, visited = explore_under(fn, env_of, capture=tuple(rets))
    labels = set()
    for (b, st) in list(explore_under.captured) + list(explore_under.returned):
        if isinstance(st.get(0), bool):
            labels.add(st[0])
    for bi in visited:
        for s_ in fn.blocks[bi]["stmts"]:
            if s_["k"] == "assign" and s_["lhs"]["l"] == 0 and not s_["lhs"].get("p"):
                rv = s_["rv"]
                if rv["k"] == "agg" and rv.get("agg") == "adt" and rv.get("variant") and not rv.get("ops"):
                    labels.add(rv["variant"])
                elif rv["k"] == "use" and rv["ops"] and rv["ops"][0].get("k") == "const" and isinstance(rv["ops"][0].get("v"), bool):
                    labels.add(rv["ops"][0]["v"])
    return labels, seen_cmp
