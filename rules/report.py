"""Output contract shared by all checks: evidence file, known findings,
VIOLATION / KNOWN-FINDING lines, exit status."""
import json
import os
import sys
import time

VERIF = os.path.dirname(os.path.dirname(os.path.abspath(__file__)))


class Violation:
    def __init__(self, rule, where, key, msg, path=None):
        self.rule = rule
        self.where = where
        self.key = key
        self.msg = msg
        self.path = path or []

    def to_json(self):
        return {"rule": self.rule, "where": self.where, "key": self.key, "msg": self.msg, "path": self.path}


class Report:
    def __init__(self, prop, tier, level, technique):
        self.prop = prop
        self.tier = tier
        self.level = level
        self.technique = technique
        self.t0 = time.time()
        self.violations = []
        self._keys = set()
        self.obligations = 0
        self.discharged = 0
        self.samples = []
        self.notes = []
        self.counts = {}
        self.assumptions = []
        self.rules_run = []
        self.trusted = []
        self.explanation = ""

    # -- recording
    def ob(self, ok, rule, where, key, msg, path=None, sample=None):
        """record one obligation; returns ok"""
        self.obligations += 1
        if ok:
            self.discharged += 1
            if sample is not None and len(self.samples) < 40:
                self.samples.append(sample)
        else:
            if key not in self._keys:
                self._keys.add(key)
                self.violations.append(Violation(rule, where, key, msg, path))
        return ok

    def violation(self, rule, where, key, msg, path=None):
        self.obligations += 1
        if key not in self._keys:
            self._keys.add(key)
            self.violations.append(Violation(rule, where, key, msg, path))

    def ok(self, n=1, sample=None):
        self.obligations += n
        self.discharged += n
        if sample is not None and len(self.samples) < 40:
            self.samples.append(sample)

    def count(self, name, n):
        self.counts[name] = n

    def floor(self, name, n, floor, where="(whole crate)"):
        """fail closed when a rule matched fewer instances than confirmed by hand"""
        self.counts[name] = n
        if n < floor:
            self.violation("FLOOR", where, "FLOOR|%s" % name,
                           "rule instance count %s=%d fell below the confirmed floor %d: anchor missing or renamed; "
                           "the rule would pass vacuously" % (name, n, floor))
            return False
        return True

    def note(self, s):
        self.notes.append(s)
        print("  note: " + s)

    def say(self, s):
        print(s)

    # -- finish
    def finish(self):
        known = load_known()
        mine = [k for k in known.get("findings", []) if k.get("property") == self.prop]
        known_keys = {k["key"]: k for k in mine}
        new = []
        matched = []
        for v in self.violations:
            if v.key in known_keys:
                matched.append(v)
            else:
                new.append(v)
        for v in matched:
            print("KNOWN-FINDING: property=%s %s [%s] %s" % (self.prop, known_keys[v.key].get("what", v.msg), v.key, v.where))
        # a known finding that no longer fires is stale: tell, do not fail
        fired = {v.key for v in matched}
        for k in mine:
            if k["key"] not in fired:
                print("  note: known finding %s no longer fires on this tree (stale entry)" % k["key"])
        evdir = os.environ.get("VERIF_EVIDENCE_DIR") or os.path.join(VERIF, "evidence")
        os.makedirs(evdir, exist_ok=True)
        wall = time.time() - self.t0
        cov = {
            "explanation": self.explanation,
            "obligations": self.obligations,
            "discharged": self.discharged - 0,
            "checker_cmd": "./check %s --tier %s" % (self.prop, self.tier),
            "trusted_base": self.trusted,
            "rule": "one obligation per rule instance found in the resolved program (see explanation); "
                    "non-trivial = an instance located in /repo's MIR/HIR facts on this run",
            "evaluations": self.obligations,
            "distinct_nontrivial": self.obligations,
            "samples": self.samples[:40] if self.samples else ["(no sample recorded)"],
            "counts": self.counts,
            "rules": self.rules_run,
            "notes": self.notes,
            "known_findings_matched": [v.key for v in matched],
            "exhaustive": True,
        }
        ev = {
            "property_id": self.prop,
            "tier": self.tier,
            "seed": int(os.environ.get("VERIF_SEED", "0") or 0),
            "level": self.level,
            "coverage": cov,
            "assumptions": self.assumptions,
            "wall_s": round(wall, 3),
            "violations": len(new),
        }
        with open(os.path.join(evdir, "%s.json" % self.prop), "w") as fh:
            json.dump(ev, fh, indent=1)
        print("%s: %d obligations, %d discharged, %d known finding(s), %d new violation(s)  [%.1fs]" % (
            self.prop, self.obligations, self.discharged, len(matched), len(new), wall))
        if new:
            vp = os.path.join(evdir, "%s.violations.json" % self.prop)
            with open(vp, "w") as fh:
                json.dump([v.to_json() for v in new], fh, indent=1)
            for v in new:
                print("  %s  rule=%s  %s" % (v.where, v.rule, v.msg))
                print("      key=%s" % v.key)
                for p in v.path[:12]:
                    print("      via %s" % p)
            print("VIOLATION property=%s replay=%s" % (self.prop, vp))
            return 1
        else:
            vp = os.path.join(evdir, "%s.violations.json" % self.prop)
            if os.path.exists(vp):
                os.remove(vp)
        return 0


def load_known():
    p = os.path.join(VERIF, "known_findings.json")
    if os.path.exists(p):
        with open(p) as fh:
            return json.load(fh)
    return {"findings": [], "fixed": []}
