import re
"""CODEC rules (DESIGN 5/C14): writer/reader agreement by structural induction."""
import sys
sys.setrecursionlimit(20000)
DEEP = 2000
from terms import origin, show, calls_in, call_origin, rvalue_origin, mentions
from tablerules import self_fields

ENC_TRAIT = "db::types::encode_decode::Encode"
DEC_TRAIT = "db::types::encode_decode::Decode"


def rpo_calls(fn):
    order = fn._rpo()
    pos = {b: i for i, b in enumerate(order)}
    cs = [c for c in fn.calls() if c.bb in pos and not fn.is_cleanup(c.bb)]
    return sorted(cs, key=lambda c: pos[c.bb])


def cursor_types(F):
    """record types that walk a byte slice: a `&[u8]` field and a `usize` field, with a method that decodes a component at
    that position (`DecodeCursor { bytes, offset }`).  Their methods are read in place and their in-place offset updates are
    versioned (rules/sroa.py), so a decoder written with a cursor shows the same offset chain as one that threads the offset"""
    out = set()
    for a in F.adts.values():
        if not a.get("variants") or len(a["variants"]) != 1:
            continue
        tys = [re.sub(r"'[a-z_]+ ", "", fd["ty"]).replace(" ", "") for fd in a["variants"][0]["fields"]]
        if "usize" in tys and any(t in ("&[u8]", "&mut[u8]") for t in tys) and len(tys) <= 4:
            nm = a["name"].split("<")[0]
            if any((g.j.get("self_ty") or "").split("<")[0] == nm and any(c.trait == DEC_TRAIT for c in g.calls()) for g in F.fns.values() if g.blocks):
                out.add(nm)
    return out


def codec_impls(F):
    """self type -> {"enc": fn, "dec": fn}"""
    out = {}
    cur = cursor_types(F)
    for f in F.fns.values():
        tr = f.j.get("trait")
        if tr == ENC_TRAIT and f.j.get("method") == "encode":
            out.setdefault(f.j["self_ty"], {})["enc"] = F.inlined(f, light=False)
        if tr == DEC_TRAIT and f.j.get("method") == "decode":
            v = F.inlined(f, light=False, also_types=cur)
            if cur:
                import sroa
                v = sroa.promote_fields(F, v, cur)
            out.setdefault(f.j["self_ty"], {})["dec"] = v
    return out


def _base(t):
    """strip value-preserving views: refs, derefs, casts, as_bytes/as_slice/as_str/deref/to_vec/clone"""
    while True:
        if t[0] in ("ref", "deref", "cast"):
            t = t[1]
        elif t[0] == "call" and t[1].split("::")[-1] in ("as_bytes", "as_slice", "as_str", "deref", "to_vec", "clone", "as_ref", "borrow", "iter") and t[2]:
            t = t[2][0]
        else:
            return t


def encode_seq(fn, raw=False, _depth=0):
    """ordered component writes.  With raw=True also direct byte writes into the buffer (extend_from_slice / push),
    and a `u32` length prefix followed by the raw bytes of the same value is folded into one `Vec<u8>` component
    (that is what Vec<u8>'s own encoding writes)."""
    seq = []
    F = fn.facts
    for c in rpo_calls(fn):
        if c.trait == ENC_TRAIT and c.method == "encode":
            t = origin(fn, c.args[0])
            flds = self_fields(t)
            seq.append({"ty": c.self_ty, "field": flds[0] if flds else None, "src": show(t)[:80], "call": c, "term": t})
        elif raw and (c.method or "") in ("extend_from_slice", "extend") and "Vec" in (c.target_path or "") and len(c.args) == 2:
            t = origin(fn, c.args[1])
            seq.append({"ty": "bytes*", "field": None, "src": show(t)[:80], "call": c, "term": t})
        elif _depth < 3 and c.target_id and c.target_id in F.fns and F.fns[c.target_id].blocks and F.fns[c.target_id].j.get("trait") != ENC_TRAIT \
                and any((fn.local_ty(a["l"]) or "").replace(" ", "") == "&mutstd::vec::Vec<u8>" for a in c.args if "l" in a):
            # a local helper that is handed the output buffer: its writes are this encoder's writes (parameters substituted)
            from terms import subst_params
            g = F.fns[c.target_id]
            args = tuple(origin(fn, a) for a in c.args)
            for x in encode_seq(g, raw=raw, _depth=_depth + 1):
                t = subst_params(x["term"], args)
                flds = self_fields(t)
                seq.append({"ty": x["ty"], "field": flds[0] if flds else None, "src": show(t)[:80], "call": c, "term": t})
        elif _depth < 3 and ((c.func or {}).get("arg_cl")) and (c.method or "") in ("for_each", "try_for_each"):
            # `iter.for_each(|x| x.encode(buffer))`: the closure body is the loop body
            for cid in c.func["arg_cl"]:
                g = F.fns.get(cid)
                if g is not None and g.blocks:
                    for x in encode_seq(g, raw=raw, _depth=_depth + 1):
                        seq.append({"ty": x["ty"], "field": None, "src": x["src"], "call": c, "term": x["term"]})
    if raw:
        out = []
        i = 0
        while i < len(seq):
            x = seq[i]
            if x["ty"] == "u32" and i + 1 < len(seq) and seq[i + 1]["ty"] == "bytes*":
                lt = x["term"]
                lens = [c for c in calls_in(lt) if c[1].split("::")[-1] == "len" and c[2]]
                same = bool(lens) and _base(lens[0][2][0]) == _base(seq[i + 1]["term"])
                out.append({"ty": "std::vec::Vec<u8>" if same else "u32+bytes(length prefix is `%s`, not the byte length of the payload written)" % show(lt)[:60],
                            "field": None, "src": seq[i + 1]["src"], "call": x["call"], "term": seq[i + 1]["term"]})
                i += 2
                continue
            out.append(x)
            i += 1
        seq = out
    return seq


def decode_seq(fn):
    seq = []
    for c in rpo_calls(fn):
        if c.trait == DEC_TRAIT and c.method == "decode":
            seq.append({"ty": c.self_ty, "call": c, "term": call_origin(fn, c.t, 0, frozenset(), DEEP)})
    return seq


def count_decodes(t):
    """number of *distinct* decode calls a term depends on (the same call reached through the Ok and the Err alternative of
    an inlined helper's result is one call)"""
    return len({c for c in calls_in(t) if c[1].endswith("Decode::decode") or c[1].endswith("Decode>::decode")})


def result_aggregate(fn, self_ty):
    """(fields, operand terms) of the Self aggregate / constructor feeding the Ok((value, offset)) result"""
    name = self_ty.split("<")[0]
    best = None
    for b in fn.blocks:
        if b.get("cleanup"):
            continue
        for s in b["stmts"]:
            if s["k"] == "assign" and s["rv"]["k"] == "agg" and s["rv"].get("agg") == "adt" and s["rv"].get("adt") == name:
                t = rvalue_origin(fn, s["rv"], 0, frozenset(), DEEP)
                best = (list(t[3]), list(t[2]), [o.get("l") for o in s["rv"]["ops"]])
    return best


def ctor_mapping(F, fn, self_ty):
    """when decode returns Self through a local constructor call: (ctor fn, call, [arg terms])"""
    name = self_ty.split("<")[0]
    for c in rpo_calls(fn):
        if c.res and c.res.get("local") and c.res["id"] in F.fns:
            g = F.fns[c.res["id"]]
            if (g.j.get("output") or "").split("<")[0] in (name, "Self") and (g.j.get("self_ty") or "").split("<")[0] == name \
                    and not g.j.get("trait"):
                return g, c, [origin(fn, a, 0, None, DEEP) for a in c.args]
    return None


def param_to_fields(F, g, self_ty):
    """for a constructor g: param index (1-based) -> set of fields of the Self aggregate it flows to"""
    name = self_ty.split("<")[0]
    out = {}
    for b in g.blocks:
        if b.get("cleanup"):
            continue
        for s in b["stmts"]:
            if s["k"] == "assign" and s["rv"]["k"] == "agg" and s["rv"].get("agg") == "adt" and s["rv"].get("adt") == name:
                t = rvalue_origin(g, s["rv"], 0, frozenset(), 60)
                for fld, op in zip(t[3], t[2]):
                    for p in _params(op):
                        out.setdefault(p, set()).add(fld)
    return out


def _params(t, out=None):
    if out is None:
        out = set()
    k = t[0]
    if k == "param":
        out.add(t[1])
    elif k == "call":
        for a in t[2]:
            _params(a, out)
    elif k in ("cast", "ref", "deref", "discr", "repeat", "field"):
        _params(t[1], out)
    elif k == "bin":
        _params(t[2], out)
        _params(t[3], out)
    elif k == "un":
        _params(t[2], out)
    elif k == "agg":
        for a in t[2]:
            _params(a, out)
    elif k == "phi":
        for a in t[1]:
            _params(a, out)
    return out


def _recv_local(fn, op):
    l = op.get("l")
    for _ in range(6):
        ds = [d for d in fn.defs().get(l, []) if d[2] == "assign"]
        if len(ds) == 1 and ds[0][3]["rv"]["k"] in ("ref", "rawptr") and not ds[0][3]["rv"]["place"].get("p"):
            return ds[0][3]["rv"]["place"]["l"]
        if len(ds) == 1 and ds[0][3]["rv"]["k"] == "use" and "l" in ds[0][3]["rv"]["ops"][0]:
            l = ds[0][3]["rv"]["ops"][0]["l"]
            continue
        break
    return l


def pushes_into(fn, local):
    """value terms pushed into a local Vec"""
    out = []
    for c in fn.calls():
        if (c.method or "") == "push" and not fn.is_cleanup(c.bb) and c.args and "l" in c.args[0]:
            if _recv_local(fn, c.args[0]) == local:
                out.append(origin(fn, c.args[1], 0, None, DEEP))
    return out


def decode_field_map(F, fn, self_ty):
    """field -> index (1-based) of the decode call whose value it receives (0 = reconstructed, None = unknown)"""
    agg = result_aggregate(fn, self_ty)
    m = {}
    if agg:
        for fld, t, loc in zip(agg[0], agg[1], agg[2]):
            k = count_decodes(t)
            if k == 0 and loc is not None:
                src = loc
                ds = [d for d in fn.defs().get(loc, []) if d[2] == "assign"]
                if len(ds) == 1 and ds[0][3]["rv"]["k"] == "use" and "l" in ds[0][3]["rv"]["ops"][0]:
                    src = ds[0][3]["rv"]["ops"][0]["l"]
                ps = pushes_into(fn, src) or pushes_into(fn, loc)
                ks = {count_decodes(p) for p in ps}
                if len(ks) == 1:
                    k = ks.pop()
            m[fld] = k
        return m, "literal"
    cm = ctor_mapping(F, fn, self_ty)
    if cm:
        g, c, args = cm
        p2f = param_to_fields(F, g, self_ty)
        for i, t in enumerate(args):
            k = count_decodes(t)
            for fld in p2f.get(i + 1, ()):
                m[fld] = k
        # fields of the ctor aggregate not fed by params are reconstructed
        for b in g.blocks:
            for s in b["stmts"]:
                if s["k"] == "assign" and s["rv"]["k"] == "agg" and s["rv"].get("adt") == self_ty.split("<")[0]:
                    for fld in s["rv"].get("fields", []):
                        m.setdefault(fld, 0)
        return m, "ctor:" + g.name
    return None, None


def returned_offset_is_computed(fn):
    """does the returned offset (second component of Ok((v, off))) pass through arithmetic after the last decode handed it
    back?  For a composite whose decodes are all component decodes the returned offset must be *the* offset the last component
    returned - `offset + 1`, `offset - k`, ... desynchronise the next value in the row"""
    from terms import subterms
    for b in fn.blocks:
        if b.get("cleanup"):
            continue
        for s_ in b["stmts"]:
            if s_["k"] == "assign" and s_["rv"]["k"] == "agg" and s_["rv"].get("agg") == "tuple" and len(s_["rv"]["ops"]) == 2:
                t = rvalue_origin(fn, s_["rv"], 0, frozenset(), DEEP)
                off = t[2][1]
                if count_decodes(off) == 0:
                    continue
                # arithmetic above (outside) every decode call of the term
                def has_outer_bin(x):
                    if x[0] == "bin":
                        return True
                    if x[0] == "call" and (x[1].endswith("Decode::decode") or x[1].endswith("Decode>::decode")):
                        return False
                    kids = ()
                    if x[0] in ("cast", "ref", "deref", "field"):
                        kids = (x[1],)
                    elif x[0] == "call":
                        kids = x[2]
                    elif x[0] == "phi":
                        kids = x[1]
                    return any(has_outer_bin(k_) for k_ in kids if isinstance(k_, tuple))
                if has_outer_bin(off):
                    return True
    return False


def returned_offset_count(fn):
    """number of decode calls the returned offset (second tuple component of Ok((v, off))) depends on"""
    best = None
    for b in fn.blocks:
        if b.get("cleanup"):
            continue
        for s in b["stmts"]:
            if s["k"] == "assign" and s["rv"]["k"] == "agg" and s["rv"].get("agg") == "tuple" and len(s["rv"]["ops"]) == 2:
                t = rvalue_origin(fn, s["rv"], 0, frozenset(), DEEP)
                best = count_decodes(t[2][1])
    if best is None:
        # `.map(|(v, offset)| (f(v), offset))`: the tuple is built in a closure and forwards the decoded offset
        for g in fn.facts.descendants(fn.id):
            for b in g.blocks:
                for s in b["stmts"]:
                    if s["k"] == "assign" and s["rv"]["k"] == "agg" and s["rv"].get("agg") == "tuple" and len(s["rv"]["ops"]) == 2:
                        t = rvalue_origin(g, s["rv"], 0, frozenset(), 60)
                        o = t[2][1]
                        if o[0] == "field" and o[2] == ".1" and o[1][0] == "param":
                            return "forwarded"
    return best
