"""LOCK rules (DESIGN 4.3): lock-state dataflow over the mini-MIR.

Discovers the lock wrapper type and its accessor methods from types (an ADT
owning a std::sync::RwLock/Mutex field; methods classified by what their MIR
does), identifies each lock by the field path / static it is reached through,
runs a forward may-analysis of held guards in every body, and summarises the
set of locks a function may acquire (transitively, through closures, function
pointers, trait impls and callback edges).
"""
import re
from collections import defaultdict

from facts import place_str

GUARD_RE = re.compile(r"(RwLockReadGuard|RwLockWriteGuard|MutexGuard)<")
RAW_LOCK_RE = re.compile(r"^std::sync::(RwLock|Mutex)::<T>::(read|write|lock|try_read|try_write|try_lock)$")


class LockModel:
    def __init__(self, F, CG):
        self.F = F
        self.CG = CG
        self.wrappers = self._find_wrappers()          # adt id -> adt
        self.accessors = self._find_accessors()        # fn id -> dict(mode, returns_guard, callback)
        self.raw_sites = self._raw_lock_sites()
        self.sites = []                                 # acquisition sites (dict)
        self.site_by_call = {}
        self._find_sites()
        self.held_at = {}                               # (fn id, bb) -> frozenset((lock, mode))
        self._acq = None

    # ---- discovery
    def _find_wrappers(self):
        out = {}
        for a in self.F.adts.values():
            for v in a["variants"]:
                for fd in v["fields"]:
                    if re.match(r"^std::sync::(RwLock|Mutex)<", fd["ty"]):
                        out[a["id"]] = a
        return out

    def _find_accessors(self):
        out = {}
        for f in self.F.fns.values():
            if f.kind != "method" or f.j.get("self_adt") not in self.wrappers or f.j.get("trait"):
                continue
            mode = None
            cb = False
            for c in f.calls():
                p = c.path or ""
                m = RAW_LOCK_RE.match(p)
                if m:
                    k = m.group(2)
                    mode = "R" if "read" in k else "W"
                if c.trait in ("std::ops::FnOnce", "std::ops::FnMut", "std::ops::Fn") and c.res is None:
                    cb = True
            if mode is None:
                continue
            out[f.id] = {
                "mode": mode,
                "returns_guard": bool(GUARD_RE.search(f.j.get("output", ""))),
                "callback": cb,
                "name": f.name,
            }
        # a wrapper method that takes the lock through another accessor of the same wrapper on `self` (`read_fn` built on
        # `read()`, `write_fn` on a private `write_guard()`) is an accessor of the same mode: the acquisition site stays the
        # caller's `self.<field>.write_fn(..)`, whose receiver names the lock
        changed = True
        while changed:
            changed = False
            for f in self.F.fns.values():
                if f.id in out or f.kind != "method" or f.j.get("self_adt") not in self.wrappers or f.j.get("trait") or not f.blocks:
                    continue
                mode, cb = None, False
                for c in f.calls():
                    if f.is_cleanup(c.bb):
                        continue
                    if c.target_id in out and self.F.fns[c.target_id].j.get("self_adt") == f.j.get("self_adt") and c.args:
                        from terms import origin as _origin, _strip_refs
                        r = _strip_refs(_origin(f, c.args[0]))
                        if r[0] == "param" and r[1] == 1:
                            m2 = out[c.target_id]["mode"]
                            mode = "W" if "W" in (mode, m2) else "R"
                    if c.trait in ("std::ops::FnOnce", "std::ops::FnMut", "std::ops::Fn") and c.res is None:
                        cb = True
                if mode is None:
                    continue
                out[f.id] = {"mode": mode, "returns_guard": bool(GUARD_RE.search(f.j.get("output", ""))), "callback": cb, "name": f.name}
                changed = True
        return out

    def _raw_lock_sites(self):
        """raw std lock acquisitions outside the wrapper's own methods"""
        out = []
        for f in self.F.body_fns():
            if f.id in self.accessors:
                continue
            for c in f.calls():
                if c.path and RAW_LOCK_RE.match(c.path):
                    out.append(c)
        return out

    # ---- lock identity
    def lock_id(self, fn, op, depth=0):
        """identity of the lock reached through receiver operand `op` in fn"""
        if depth > 8:
            return None
        if op.get("k") == "const":
            ptr = op.get("ptr")
            if ptr and ptr.get("static_name"):
                return "static " + ptr["static_name"]
            return None
        l = op["l"]
        proj = op.get("p", [])
        # a field projection on the operand itself
        fields = [e for e in proj if e.startswith(".")]
        if fields:
            base_ty = fn.local_ty(l)
            return "%s%s" % (_strip_ref(base_ty), "".join(fields[-1:]))
        defs = fn.defs().get(l, [])
        defs = [d for d in defs if d[2] in ("assign", "call")]
        if len(defs) != 1:
            return None
        bb, idx, kind, payload = defs[0]
        if kind == "assign":
            rv = payload["rv"]
            if rv["k"] == "ref":
                pl = rv["place"]
                fields = [e for e in pl.get("p", []) if e.startswith(".")]
                if fields:
                    # type of the innermost base
                    base_ty = self._base_adt_of_place(fn, pl)
                    return "%s%s" % (base_ty, fields[-1])
                return self.lock_id(fn, dict(pl, k="copy"), depth + 1)
            if rv["k"] in ("use", "cast"):
                return self.lock_id(fn, rv["ops"][0], depth + 1)
            return None
        if kind == "call":
            f = payload["func"].get("fn")
            if f and f.get("trait") in ("std::ops::Deref", "std::ops::DerefMut") and f.get("self_ty"):
                st = f["self_ty"]
                # lazy_static wrapper type -> the static itself
                return "static " + st
            return None
        return None

    def _base_adt_of_place(self, fn, pl):
        """ADT type owning the last field of the projection (walk the projection)"""
        ty = fn.local_ty(pl["l"])
        proj = pl.get("p", [])
        # walk: we only know local types; resolve the chain of field types through adt table
        cur = _strip_ref(ty)
        last_owner = cur
        for e in proj:
            if e == "*":
                cur = _strip_ref(cur)
                continue
            if e.startswith("."):
                last_owner = cur
                nxt = self._field_ty(cur, e[1:], fn, pl)
                cur = _strip_ref(nxt) if nxt else "?"
        return last_owner

    def _field_ty(self, adt_ty, field, fn, pl):
        name = adt_ty.split("<")[0]
        a = self.F.adt_by_name.get(name)
        if a:
            for v in a["variants"]:
                for fd in v["fields"]:
                    if fd["name"] == field:
                        return fd["ty"]
        # closure upvar (.0/.1): look at upvar debug info types is not available; unknown
        return None

    # ---- acquisition sites
    def _find_sites(self):
        for f in self.F.body_fns():
            if f.id in self.accessors:
                continue
            for c in f.calls():
                tid = c.target_id
                if tid in self.accessors and not f.is_cleanup(c.bb):
                    acc = self.accessors[tid]
                    recv = c.args[0] if c.args else None
                    lid = self.lock_id(f, recv) if recv is not None else None
                    if lid is None:
                        # fall back to the lock's payload type: merges all locks of that type
                        lid = "type " + (c.func.get("self_ty") or "?")
                    s = {"fn": f, "call": c, "lock": lid, "mode": acc["mode"], "acc": acc}
                    self.sites.append(s)
                    self.site_by_call[(f.id, c.bb)] = s

    # ---- held-guard dataflow per body
    def held(self, fn):
        """returns dict bb -> frozenset of (guard local, lock, mode) held at the
        *terminator* of bb (after the block's statements)."""
        if fn.id in self.held_at:
            return self.held_at[fn.id]
        nb = len(fn.blocks)
        IN = [frozenset() for _ in range(nb)]
        AT = [frozenset() for _ in range(nb)]
        OUT = [dict() for _ in range(nb)]  # succ -> state (edges can differ: call gen only on return edge)
        work = [0] if nb else []
        inq = {0}
        seen_once = set()
        preds = fn.preds()

        def transfer_block(b, state):
            st = set(state)
            blk = fn.blocks[b]
            for s in blk["stmts"]:
                if s["k"] == "dead":
                    st = {g for g in st if g[0] != s["l"]}
                elif s["k"] == "assign":
                    rv = s["rv"]
                    moved = []
                    for op in rv.get("ops", []):
                        if op.get("k") == "move" and not op.get("p"):
                            moved.append(op["l"])
                    lhs = s["lhs"]
                    # overwrite of a whole local kills what it held
                    if not lhs.get("p"):
                        st = {g for g in st if g[0] != lhs["l"]}
                    for m in moved:
                        for g in list(st):
                            if g[0] == m:
                                st.discard(g)
                                st.add((lhs["l"], g[1], g[2]))
            return st

        while work:
            b = work.pop()
            inq.discard(b)
            st = transfer_block(b, IN[b])
            AT[b] = frozenset(st)
            t = fn.blocks[b]["term"]
            k = t["k"]
            out_state = set(st)
            if k == "drop":
                pl = t["place"]
                if not pl.get("p"):
                    out_state = {g for g in out_state if g[0] != pl["l"]}
            elif k == "call":
                # moved-in guards are released by the callee (conservatively: after the call)
                for a in t.get("args", []):
                    if a.get("k") == "move" and not a.get("p"):
                        out_state = {g for g in out_state if g[0] != a["l"]}
                site = self.site_by_call.get((fn.id, b))
                dst = t["dest"]
                if not dst.get("p"):
                    out_state = {g for g in out_state if g[0] != dst["l"]}
                if site and site["acc"]["returns_guard"]:
                    out_state.add((dst["l"], site["lock"], site["mode"]))
            for s in fn.succ(b, unwind=False):
                new = IN[s] | frozenset(out_state)
                if new != IN[s] or s not in seen_once:
                    seen_once.add(s)
                    IN[s] = new
                    if s not in inq:
                        inq.add(s)
                        work.append(s)
        res = {b: AT[b] for b in range(nb)}
        self.held_at[fn.id] = res
        return res

    # ---- transitive acquisition summaries
    def acq(self):
        """fn id -> set of (lock, mode, site index) that may be acquired while fn runs"""
        if self._acq is not None:
            return self._acq
        direct = defaultdict(set)
        for i, s in enumerate(self.sites):
            direct[s["fn"].id].add((s["lock"], s["mode"], i))
        acq = {fid: set(direct.get(fid, ())) for fid in self.F.fns}
        edges = self.CG.edges
        changed = True
        while changed:
            changed = False
            for fid in acq:
                if fid in self.accessors:
                    continue
                cur = acq[fid]
                n0 = len(cur)
                for t in edges.get(fid, ()):
                    if t in self.accessors:
                        continue
                    cur |= acq.get(t, set())
                if len(cur) != n0:
                    changed = True
        self._acq = acq
        return acq

    def acq_of_targets(self, targets):
        acq = self.acq()
        out = set()
        for t in targets:
            if t in self.accessors:
                continue
            out |= acq.get(t, set())
        return out

    def writers(self, lock):
        return [s for s in self.sites if s["lock"] == lock and s["mode"] == "W"]


def _strip_ref(t):
    t = t.strip()
    while True:
        m = re.match(r"^&(?:'[a-z_0-9]+\s+)?(?:mut\s+)?(.*)$", t)
        if m:
            t = m.group(1)
            continue
        break
    return t
