"""NDET rule (DESIGN C02 clause 2): nondeterminism sources and where their values may flow."""
import re

from terms import origin, show, mentions

SRC_RE = re.compile(r"std::time::(Instant|SystemTime)::(now|elapsed|duration_since)$|std::env::(var|vars|var_os|args|args_os)$|"
                    r"(^|::)rand::|RandomState::new$|std::thread::current$|std::process::id$|getrandom|thread_rng|std::time::Instant::now$")


def sources(F):
    out = []
    for f in F.body_fns():
        for c in f.calls():
            if not f.is_cleanup(c.bb) and SRC_RE.search(c.target_path or ""):
                out.append((f, c))
    return out


def forward_sinks(fn, local, limit=400):
    """where the value in `local` can go inside fn: set of ('store', path) | ('arg', callee path, index) | ('ret',)
    | ('capture', closure id, index)"""
    sinks = set()
    seen = set()
    st = [local]
    while st and len(seen) < limit:
        l = st.pop()
        if l in seen:
            continue
        seen.add(l)
        if l == 0:
            sinks.add(("ret",))
        for bi, b in enumerate(fn.blocks):
            if b.get("cleanup"):
                continue
            for s in b["stmts"]:
                if s["k"] != "assign":
                    continue
                rv = s["rv"]
                ops = list(rv.get("ops", []))
                if "place" in rv:
                    ops.append(rv["place"])
                if any(o.get("l") == l for o in ops):
                    lhs = s["lhs"]
                    if lhs.get("p") and any(e.startswith(".") for e in lhs["p"]):
                        sinks.add(("store", "".join(e for e in lhs["p"] if e.startswith("."))))
                        continue
                    if rv["k"] == "agg" and rv.get("agg") in ("closure", "coroutine"):
                        idx = [i for i, o in enumerate(rv["ops"]) if o.get("l") == l]
                        for i in idx:
                            sinks.add(("capture", rv["def"], i))
                    if rv["k"] == "agg" and rv.get("agg") == "adt":
                        idx = [i for i, o in enumerate(rv["ops"]) if o.get("l") == l]
                        for i in idx:
                            flds = rv.get("fields", [])
                            sinks.add(("field", rv.get("adt"), flds[i] if i < len(flds) else str(i)))
                    st.append(lhs["l"])
            t = b["term"]
            if t["k"] == "call":
                for i, a in enumerate(t.get("args", [])):
                    if a.get("l") == l:
                        f = t["func"].get("fn") or {}
                        p = (f.get("res") or {}).get("path") or f.get("path") or "?"
                        sinks.add(("arg", p, i))
                        st.append(t["dest"]["l"])
    return sinks
