"""PANIC rules (DESIGN 4.10): reachable panic obligations with exact discharge."""
import re
from collections import defaultdict

import roles
from guards import edge_forms, lin
from terms import origin, show, calls_in, mentions, control_deps, bool_edge, rvalue_origin
from tablerules import self_fields

PANIC_CALL_RE = re.compile(
    r"(^|::)(Option|Result)::<[^>]*>::(unwrap|expect|unwrap_err|expect_err)$|"
    r"core::panicking::|std::rt::begin_panic|std::panicking::|"
    r"(^|::)slice::<impl \[T\]>::(copy_from_slice|split_at|split_at_mut|clone_from_slice|swap|chunks|windows)$|"
    r"bytes::Bytes::(slice|split_to|split_off|advance)$|alloy::alloy_primitives::Bytes::(slice|split_to|split_off)$|"
    r"::from_slice$|std::vec::Vec::<[^>]*>::(remove|insert|swap_remove|drain|split_off)$|"
    r"std::string::String::(remove|insert|insert_str|truncate|split_off|drain)$|"
    r"(^|::)str::<impl str>::(split_at)$|::unreachable$|core::hint::unreachable_unchecked|"
    r"std::time::Instant::(duration_since|sub)$|<std::time::Duration as std::ops::Sub>::sub|<std::time::Instant as std::ops::Sub")
INDEX_TRAITS = ("std::ops::Index", "std::ops::IndexMut")
ASSERT_HARD = ("BoundsCheck", "DivisionByZero", "RemainderByZero")


def entry_set(F, CG):
    roots = set(roles.handler_roots(F))
    roots |= set(roles.precompile_entries(F, CG))
    for f in F.fns.values():
        tr = f.j.get("trait") or ""
        if tr in ("revm::Database", "revm::DatabaseCommit") or tr.endswith("PrecompileProvider"):
            roots.add(f.id)
        if tr.endswith("::Deserialize") or tr.endswith("de::Visitor") or tr == "std::str::FromStr" or tr.endswith("ValidateRequest") or tr.endswith("RpcServiceT"):
            roots.add(f.id)
    return roots


def sites(F, fn):
    """panic-capable sites of one body: list of dict(kind, descr, bb, line, call/None)"""
    out = []
    for bi, b in enumerate(fn.blocks):
        if b.get("cleanup"):
            continue
        t = b["term"]
        if t["k"] == "assert":
            msg = t["msg"]
            kind = msg.split(":")[0]
            if kind in ASSERT_HARD or kind.startswith("Overflow"):
                out.append({"kind": kind, "op": msg, "bb": bi, "line": t["loc"]["l"], "t": t, "x": bool(t["loc"].get("x"))})
        elif t["k"] == "call":
            f = t["func"].get("fn")
            if not f:
                continue
            p = (f.get("res") or {}).get("path") or f["path"]
            if f.get("trait") in INDEX_TRAITS and f.get("method") in ("index", "index_mut"):
                out.append({"kind": "Index", "op": "%s[%s]" % ((f.get("self_ty") or "?").split("<")[0].split("::")[-1], ""), "bb": bi,
                            "line": t["loc"]["l"], "t": t, "path": p, "x": bool(t["loc"].get("x"))})
            elif PANIC_CALL_RE.search(p):
                m = p.split("::")[-1]
                dty = fn.local_ty(t["dest"]["l"])
                if m == "from_slice" and (dty.startswith("std::result::Result") or dty.startswith("std::option::Option")):
                    continue
                out.append({"kind": "Call", "op": _short(p), "bb": bi, "line": t["loc"]["l"], "t": t, "path": p, "x": bool(t["loc"].get("x"))})
    return out


def _short(p):
    p = re.sub(r"<[^<>]*>", "", p)
    p = re.sub(r"<[^<>]*>", "", p)
    parts = [x for x in p.split("::") if x]
    return "::".join(parts[-2:])


def _head(t):
    """the head of an operand term: where the value comes from (outermost producing call, parameter, captured variable, constant),
    with the field path taken from it, without the producer's own arguments - those change whenever the expression feeding the
    site is rearranged (a temporary introduced, a constructor moved into a helper) while the site stays the same site"""
    fields = []
    while True:
        if t[0] in ("ref", "deref", "cast"):
            t = t[1]
        elif t[0] == "field":
            fields.append(t[2] if t[2].startswith(".") else " " + t[2])
            t = t[1]
        else:
            break
    k = t[0]
    if k == "call":
        from terms import short_path
        base = "%s(%s)" % (short_path(t[1]), "…" if t[2] else "")
    elif k in ("param", "upvar", "const", "static", "fnitem", "built"):
        base = show(t)[:40]
        if k == "upvar":
            base = base.replace("__", ".")      # a precise capture `log.topics` is named log__topics; capturing `log` and taking
                                                # `.topics` inside is the same operand
    elif k == "agg":
        from terms import short_path
        base = "%s{…}" % short_path(t[1])
    elif k == "bin":
        base = "(… %s …)" % t[1]
    else:
        base = k
    return base + "".join(reversed(fields))


def descriptor(fn, s):
    """line-independent descriptor of the site's operand"""
    t = s["t"]
    if s["kind"] in ("Index", "Call"):
        a = t.get("args", [])
        recv = _head(origin(fn, a[0])) if a else ""
        if s["kind"] == "Index" and len(a) == 2:
            ix = origin(fn, a[1])
            if ix[0] == "const":
                ixs = repr(ix[1])
            elif ix[0] == "agg":
                ixs = "%s{%s}" % (ix[1].split("::")[-2] if "::" in ix[1] else ix[1], ",".join(repr(x[1]) if x[0] == "const" else "_" for x in ix[2]))
            else:
                ixs = "_"
            return "%s[%s](%s)" % (s["op"].replace("[]", ""), ixs, recv)
        return "%s(%s)" % (s["op"], recv)
    if s["kind"] == "BoundsCheck":
        return "index %s of len %s" % (_head(origin(fn, t["index"])), _head(origin(fn, t["len"])))
    if s["kind"].startswith("Overflow"):
        return "%s %s, %s" % (s["op"], re.sub(r"_\d+", "_", show(origin(fn, t["a"]))[:40]), re.sub(r"_\d+", "_", show(origin(fn, t["b"]))[:40]))
    return s["op"]


def descriptor_v1(fn, s):
    """the descriptor used before operands were reduced to their head (kept for tools/migrate_panic_keys.py)"""
    t = s["t"]
    if s["kind"] in ("Index", "Call"):
        a = t.get("args", [])
        recv = show(origin(fn, a[0]))[:70] if a else ""
        recv = re.sub(r"_\d+", "_", recv)
        if s["kind"] == "Index" and len(a) == 2:
            ix = origin(fn, a[1])
            if ix[0] == "const":
                ixs = repr(ix[1])
            elif ix[0] == "agg":
                ixs = "%s{%s}" % (ix[1].split("::")[-2] if "::" in ix[1] else ix[1], ",".join(repr(x[1]) if x[0] == "const" else "_" for x in ix[2]))
            else:
                ixs = "_"
            return "%s[%s](%s)" % (s["op"].replace("[]", ""), ixs, recv)
        return "%s(%s)" % (s["op"], recv)
    if s["kind"] == "BoundsCheck":
        return "index %s of len %s" % (re.sub(r"_\d+", "_", show(origin(fn, t["index"]))[:50]), re.sub(r"_\d+", "_", show(origin(fn, t["len"]))[:50]))
    if s["kind"].startswith("Overflow"):
        return "%s %s, %s" % (s["op"], re.sub(r"_\d+", "_", show(origin(fn, t["a"]))[:40]), re.sub(r"_\d+", "_", show(origin(fn, t["b"]))[:40]))
    return s["op"]


def discharge(F, fn, s, dbname, table_field_names):
    """returns reason string if the site cannot fire / is covered elsewhere, else None"""
    t = s["t"]
    k = s["kind"]
    if k == "Call":
        p = s["path"]
        m = p.split("::")[-1]
        a = t.get("args", [])
        if m in ("expect", "unwrap") and a:
            o = origin(fn, a[0])
            # sentinel: Option<table> fields of the database struct (moved-out database) -> PAIR window rule
            if mentions(o, "as_ref") or mentions(o, "as_mut"):
                fl = self_fields(o)
                if fl and fl[0] in table_field_names and (fn.j.get("self_ty") == dbname):
                    return "database-slot sentinel (covered by PAIR take/swap)"
            # constant receiver (parse of a literal in a lazy_static initialiser)
            if _all_const(o):
                return "constant input"
            # dominated by is_some / is_ok / contains_key on the same value
            if _guarded_by_presence(fn, s["bb"], a[0]):
                return "dominated by presence check"
        if m == "from_slice" and a:
            need = _fixed_type_len(t["func"]["fn"])
            got = _slice_len(fn, a[-1])
            if need is not None and got == need:
                return "slice of exactly %d bytes by construction" % need
        if m == "copy_from_slice" and len(a) == 2:
            d0, d1 = _slice_len(fn, a[0]), _slice_len(fn, a[1])
            if d0 is not None and d0 == d1:
                return "source and destination are both %d bytes by construction" % d0
        if m in ("slice", "split_at", "split_to", "split_off", "advance") and len(a) >= 2:
            need = _range_need(origin(fn, a[1]))
            if need is not None and _min_len_guard(fn, s["bb"], need):
                return "dominated by `len >= %d`" % need
        return None
    if k == "Index":
        a = t.get("args", [])
        if len(a) == 2:
            idx = origin(fn, a[1])
            recv = origin(fn, a[0])
            # index by the induction variable of 0..len(recv)
            if _induction_of(idx, recv):
                return "induction variable of 0..len"
            g = _len_guard(fn, s["bb"], a[1], recv, (t["func"]["fn"].get("self_ty") or ""))
            if g:
                return "dominated by `idx < len`"
            if _counter_guard(fn, s["bb"], a[1], (t["func"]["fn"].get("self_ty") or "")):
                return "loop counter: every definition reaches the index only through `idx < len` (0 through `len != 0`)"
            # range index with constant bounds into fixed-size array: the bounds must lie inside it
            st = (t["func"]["fn"].get("self_ty") or "")
            mN = re.search(r"^\[u8; (\d+)\]$|FixedBytes<(\d+)>$", st.strip())
            if idx[0] == "agg" and idx[2] and all(x[0] == "const" and isinstance(x[1], int) for x in idx[2]) and mN:
                N = int(mN.group(1) or mN.group(2))
                kind = idx[1].split("::")[-1]
                b = [x[1] for x in idx[2]]
                ok = (kind == "Range" and len(b) == 2 and b[0] <= b[1] <= N) or (kind == "RangeFrom" and len(b) == 1 and b[0] <= N) or \
                     (kind == "RangeTo" and len(b) == 1 and b[0] <= N)
                if ok:
                    return "constant range inside a fixed-size array of %d" % N
        return None
    if k == "BoundsCheck":
        idx = origin(fn, t["index"])
        ln = origin(fn, t["len"])
        if idx[0] == "const" and ln[0] == "const" and isinstance(idx[1], int) and isinstance(ln[1], int) and idx[1] < ln[1]:
            return "constant index < constant length"
        if _induction_of_len(idx, ln):
            return "induction variable of 0..len"
        if _len_guard_assert(fn, s["bb"], t):
            return "dominated by length comparison"
        if _countdown_index(fn, s["bb"], t):
            return "count-down index: starts at len, decremented only under `> 0`, used only after a decrement"
        return None
    if k in ("DivisionByZero", "RemainderByZero"):
        c = origin(fn, t["cond"])
        # cond = Eq(divisor, 0)
        if c[0] == "bin" and c[2][0] == "const" and isinstance(c[2][1], int) and c[2][1] != 0:
            return "constant non-zero divisor"
        return None
    return None


def _all_const(t):
    k = t[0]
    if k == "const" or k == "fnitem":
        return True
    if k == "call":
        return all(_all_const(a) for a in t[2])
    if k in ("cast", "ref", "deref", "field"):
        return _all_const(t[1])
    if k == "agg":
        return all(_all_const(a) for a in t[2])
    return False


def _fixed_type_len(f):
    """byte length of the fixed-size type whose `from_slice` panics on any other length"""
    st = (f.get("self_ty") or "") + " " + (f.get("path") or "")
    m = re.search(r"FixedBytes<(\d+)>", st)
    if m:
        return int(m.group(1))
    if re.search(r"(^|::)Address(::|$| )", st):
        return 20
    if re.search(r"(^|::)Bloom(::|$| )", st):
        return 256
    return None


def _array_len(ty):
    m = re.match(r"^&?(?:mut )?\[u8; (\d+)\]$", (ty or "").strip())
    if m:
        return int(m.group(1))
    m = re.search(r"FixedBytes<(\d+)>$", (ty or "").strip())
    if m:
        return int(m.group(1))
    return None


def _slice_len(fn, op, depth=0):
    """length in bytes of the slice/array an operand refers to when it is fixed by construction: a `[u8; N]` / FixedBytes<N>
    local (possibly behind references, unsizing casts, `as_slice`/`as_ref`/deref), or a constant `a..b` range of one"""
    if depth > 10 or not isinstance(op, dict) or "l" not in op:
        return None
    ty = fn.local_ty(op["l"])
    if not [e for e in op.get("p", []) if e != "*"]:
        n = _array_len(ty)
        if n is not None:
            return n
    ds = [d for d in fn.defs().get(op["l"], []) if not fn.is_cleanup(d[0]) and d[2] in ("assign", "call")]
    if len(ds) != 1:
        return None
    bb, idx, kind, payload = ds[0]
    if kind == "assign":
        rv = payload["rv"]
        if rv["k"] == "ref":
            return _slice_len(fn, dict(rv["place"], k="copy"), depth + 1)
        if rv["k"] in ("use", "cast") and rv.get("ops"):
            return _slice_len(fn, rv["ops"][0], depth + 1)
        return None
    f = payload["func"].get("fn") or {}
    m = f.get("method") or (f.get("path") or "").split("::")[-1]
    a = payload.get("args", [])
    if m in ("as_slice", "as_ref", "deref", "as_mut_slice", "as_mut", "deref_mut", "borrow", "as_bytes") and a:
        return _slice_len(fn, a[0], depth + 1)
    if f.get("trait") in INDEX_TRAITS and m in ("index", "index_mut") and len(a) == 2:
        base = _slice_len(fn, a[0], depth + 1)
        ix = origin(fn, a[1])
        if ix[0] == "agg" and ix[2] and all(x[0] == "const" and isinstance(x[1], int) for x in ix[2]):
            kind = ix[1].split("::")[-1]
            b = [x[1] for x in ix[2]]
            if kind == "Range" and len(b) == 2 and b[0] <= b[1]:
                return b[1] - b[0]
            if kind == "RangeTo" and len(b) == 1:
                return b[0]
            if kind == "RangeFrom" and len(b) == 1 and base is not None and b[0] <= base:
                return base - b[0]
        return None
    return None


def _induction_of(idx, recv):
    """idx = Range{0, len(X)}.next() ... and recv is (a ref of) X"""
    for c in calls_in(idx):
        if c[1].endswith("Iterator>::next") or c[1].split("::")[-1] == "next":
            for r in calls_in(c[2][0]) if c[2] else []:
                pass
    s_idx = show(idx)
    if "Range" in s_idx and "len(" in s_idx and "next(" in s_idx:
        # the collection whose len bounds the range
        for c in calls_in(idx):
            if c[1].split("::")[-1] == "len" and c[2]:
                base = _strip(c[2][0])
                if base == _strip(recv):
                    return True
    return False


def _induction_of_len(idx, ln):
    s = show(idx)
    return "Range" in s and "next(" in s and show(ln) in s


def _strip(t):
    while t[0] in ("ref", "deref", "cast"):
        t = t[1]
    if t[0] == "call" and t[1].split("::")[-1] in ("deref", "as_slice", "as_ref", "borrow") and t[2]:
        return _strip(t[2][0])
    return t


def _len_guard(fn, bb, idx_op, recv, coll_ty=None):
    """some controlling edge of bb says idx < len(X)  (idx - len + 1 <= 0) where X has the indexed collection's type"""
    def same(tm):
        if coll_ty is None:
            return True
        for x in calls_in(tm):
            if x[1].split("::")[-1] == "len" and x[3]:
                return x[3].replace(" ", "") == coll_ty.replace(" ", "")
        return True
    from terms import edge_dominates
    for (b2, s2, fm, line) in edge_forms(fn):
        if fm.rel == "<=":
            lens = [(t, cf) for t, cf in fm.lin.terms.items() if "len(" in show(t) and same(t)]
            if lens and lens[0][1] == -1 and fm.lin.k >= 1 and len(fm.lin.terms) == 2 and edge_dominates(fn, (b2, s2), bb):
                return True
    return False


def _counter_local(fn, op):
    """the mutable counter local behind an index operand (through plain copies)"""
    if "l" not in op:
        return None
    l = op["l"]
    for _ in range(6):
        ds = [d for d in fn.defs().get(l, []) if d[2] == "assign"]
        if len(ds) == 1 and ds[0][3]["rv"]["k"] == "use" and "l" in ds[0][3]["rv"]["ops"][0] and not ds[0][3]["rv"]["ops"][0].get("p"):
            l = ds[0][3]["rv"]["ops"][0]["l"]
        else:
            break
    return l


def _counter_guard(fn, site_bb, idx_op, coll_ty):
    """loop-carried bound: the index is a counter local; from *every* assignment of the counter, the index site is
    reachable only through an edge proving counter < len(X) (for the initial constant c: c < len(X), e.g. len != 0)"""
    i = _counter_local(fn, idx_op)
    if i is None:
        return False
    defs = [d for d in fn.defs().get(i, []) if d[2] == "assign"]
    if len(defs) < 2:
        return False
    it = origin(fn, {"l": i, "k": "copy"})

    def is_len(t):
        if "len(" not in show(t):
            return False
        for x in calls_in(t):
            if x[1].split("::")[-1] == "len" and x[3]:
                return x[3].replace(" ", "") == coll_ty.replace(" ", "")
        return False
    lt_edges = []      # counter < len
    nz_edges = {}      # const c -> edges proving c < len
    for (b2, s2, fm, line) in edge_forms(fn):
        terms = list(fm.lin.terms.items())
        if fm.rel == "<=" and len(terms) == 2:
            lens = [(t, cf) for t, cf in terms if is_len(t)]
            others = [(t, cf) for t, cf in terms if not is_len(t)]
            if lens and others and lens[0][1] == -1 and others[0][1] == 1 and fm.lin.k >= 1 and others[0][0] == it:
                lt_edges.append((b2, s2))
        if len(terms) == 1 and is_len(terms[0][0]):
            t, cf = terms[0]
            # len != 0  (unsigned)  or  c - len + 1 <= 0
            if fm.rel == "!=" and fm.lin.k == 0:
                nz_edges.setdefault(0, []).append((b2, s2))
            if fm.rel == "<=" and cf == -1 and fm.lin.k >= 1:
                nz_edges.setdefault(fm.lin.k - 1, []).append((b2, s2))
    if not lt_edges:
        return False
    from terms import reachable_without_edges
    for (bd, idx, kind, payload) in defs:
        t = rvalue_origin(fn, payload["rv"], 0, frozenset(), 12)
        edges = list(lt_edges)
        if t[0] == "const" and isinstance(t[1], int):
            # the initial value c needs c < len on the way: edges valid for constants >= c, checked before or after the def
            pre = [e for c, es in nz_edges.items() if c >= t[1] for e in es]
            if any(site_bb not in reachable_without_edges(fn, [e]) for e in pre):
                continue
        reach = reachable_without_edges(fn, edges, start=bd)
        if site_bb in reach and site_bb != bd:
            return False
        if site_bb == bd:
            return False
    return True


def _range_need(t):
    """minimum length a range/index argument requires, when constant"""
    if t[0] == "const" and isinstance(t[1], int):
        return t[1]
    if t[0] == "agg" and t[1].split("::")[-2:-1] and "Range" in t[1]:
        vals = [x[1] for x in t[2] if x[0] == "const" and isinstance(x[1], int)]
        if len(vals) == len(t[2]) and vals:
            return max(vals)
    return None


def _min_len_guard(fn, bb, need):
    """an edge that every path to bb takes says  need - len(x) <= 0"""
    from terms import edge_dominates
    for (b2, s2, fm, line) in edge_forms(fn):
        if fm.rel == "<=" and len(fm.lin.terms) == 1:
            t, cf = list(fm.lin.terms.items())[0]
            if cf == -1 and "len(" in show(t) and fm.lin.k >= need and edge_dominates(fn, (b2, s2), bb):
                return True
    return False


def _len_guard_assert(fn, bb, t):
    return _len_guard(fn, bb, t["index"], None)


def _copy_root(fn, op, bb=None):
    """follow plain copies (`_a = copy _b`) of a single-definition temporary back to the local it copies"""
    seen = set()
    while isinstance(op, dict) and "l" in op and not op.get("p") and op["l"] not in seen:
        seen.add(op["l"])
        ds = [d for d in fn.defs().get(op["l"], []) if not fn.is_cleanup(d[0])]
        if len(ds) != 1 or ds[0][2] != "assign":
            break
        rv = ds[0][3]["rv"]
        if rv["k"] == "use" and "l" in rv["ops"][0] and not rv["ops"][0].get("p"):
            op = rv["ops"][0]
            continue
        break
    return op


def _countdown_index(fn, bb, t):
    """`let mut i = N; while i > 0 { i -= 1; a[i] }` with `a` of length N: the counter starts at the length, its only other
    definitions subtract one and run only under a dominating `i > 0` (or `i != 0`) edge, and the index is read after a decrement"""
    from terms import edge_dominates
    idx = _copy_root(fn, t["index"])
    if "l" not in idx or idx.get("p"):
        return False
    L = idx["l"]
    ln = origin(fn, t["len"])
    if ln[0] != "const" or (ln[1] is None and not (len(ln) > 2 and ln[2])):
        return False
    inits, decs = [], []
    for (b, i, kind, st) in fn.defs().get(L, []):
        if fn.is_cleanup(b):
            continue
        if kind != "assign":
            return False
        rv = st["rv"]
        if rv["k"] == "use" and rv["ops"][0].get("k") == "const":
            inits.append((b, origin(fn, rv["ops"][0])))
            continue
        src = None
        if rv["k"] == "use" and "l" in rv["ops"][0] and rv["ops"][0].get("p") == [".0"]:
            ds = [d for d in fn.defs().get(rv["ops"][0]["l"], []) if not fn.is_cleanup(d[0])]
            if len(ds) == 1 and ds[0][2] == "assign":
                src = (ds[0][0], ds[0][3]["rv"])
        elif rv["k"] == "bin":
            src = (b, rv)
        if not src or src[1]["k"] != "bin" or src[1].get("op") not in ("SubWithOverflow", "Sub", "SubUnchecked"):
            return False
        a, c = src[1]["ops"]
        if _copy_root(fn, a).get("l") != L or c.get("k") != "const" or c.get("v") != 1:
            return False
        decs.append(src[0])
    if len(inits) != 1 or inits[0][1] != ln or not decs:
        return False
    # every decrement runs only under `L > 0` / `L != 0`
    guards = []
    for a in range(len(fn.blocks)):
        tm = fn.term(a)
        if tm["k"] != "switch" or fn.is_cleanup(a) or "l" not in tm["discr"]:
            continue
        ds = [d for d in fn.defs().get(tm["discr"]["l"], []) if d[0] == a and d[2] == "assign"]
        if not ds or ds[-1][3]["rv"]["k"] != "bin":
            continue
        rv = ds[-1][3]["rv"]
        x, y = rv["ops"]
        if _copy_root(fn, x).get("l") == L and y.get("k") == "const" and y.get("v") == 0 and rv.get("op") in ("Gt", "Ne"):
            false_t = [tt for (v, tt) in tm.get("targets", []) if v == 0]
            for sx in fn.succ(a):
                if sx not in false_t:
                    guards.append((a, sx))
    if not all(any(edge_dominates(fn, e, d) for e in guards) for d in decs):
        return False
    # ... once per guard evaluation: every cycle through a decrement passes one of its guard blocks again
    for d in decs:
        gb = tuple(e[0] for e in guards if edge_dominates(fn, e, d))
        if any(d in fn.reachable(x, avoid=gb) for x in fn.succ(d) if x not in gb):
            return False
    # the index is read after at least one decrement
    return any(fn.dominates(d, bb) for d in decs)


def _guarded_by_presence(fn, bb, op):
    """an edge that every path to bb takes has is_some / is_ok / contains_key == true"""
    from terms import edge_dominates
    for a in range(len(fn.blocks)):
        if fn.term(a)["k"] != "switch":
            continue
        for s in fn.succ(a):
            be = bool_edge(fn, a, s)
            if be and be[1] is True and (mentions(be[0], "is_some") or mentions(be[0], "is_ok") or mentions(be[0], "contains_key")):
                if edge_dominates(fn, (a, s), bb):
                    return True
    return False



def site_key(fn, s, v1=False):
    """ledger key of a panic-capable site: function | kind | operand descriptor, with closure ordinals removed
    (they shift when an unrelated closure is added to or removed from the enclosing function).  An explicit `panic!(..)` is
    keyed by its owner only - the type whose method (or helper of whose method) contains it, or the module of a free
    function - and counted: moving such a guard into a helper or rewording its message is not a new site, an additional
    one beyond the reviewed count is."""
    d = (descriptor_v1 if v1 else descriptor)(fn, s)
    if s["kind"] == "Call" and (d.startswith("panicking::panic_fmt(") or d.startswith("panicking::panic(") or d.startswith("panicking::panic_display(")):
        return "%s|panic!" % panic_owner(fn)
    # keyed by the top-level function: whether the site sits in the body or in a closure written inside it (`.map(|x| ..)` vs
    # `let x = ..?;`) is a matter of style
    return "%s|%s|%s" % (re.sub(r"(::\{closure#\d+\})+", "", fn.name), s["kind"], re.sub(r"(::\{closure#\d+\})+", "", d))


def panic_owner(fn):
    st = fn.j.get("self_ty")
    if not st and fn.j.get("root"):
        r = fn.facts.fns.get(fn.j["root"]) if hasattr(fn, "facts") else None
        st = r.j.get("self_ty") if r is not None else None
    if st:
        return st.split("<")[0]
    name = re.sub(r"(::\{closure#\d+\})+$", "", fn.name)
    return name.rsplit("::", 1)[0] if "::" in name else name
