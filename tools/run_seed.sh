#!/bin/bash
# usage: run_seed.sh <patch> : applies the patch to /repo, runs all 20 quick checks, reverts; prints which checks fire
P=$1
cd /repo && [ -z "$(git status --porcelain --untracked-files=no)" ] || { echo "/repo dirty"; exit 2; }
git apply $P || { echo "patch does not apply"; exit 2; }
cd /verif
for i in $(seq -w 1 20); do
  out=$(VERIF_EVIDENCE_DIR=/tmp/seed_ev ./check C$i 2>&1); rc=$?
  if [ $rc -ne 0 ]; then echo "C$i rc=$rc"; echo "$out" | grep -E 'key=|FACT EXTRACTION|error' | head -4 | cut -c1-220; fi
done
git -C /repo checkout -- . ; git -C /repo clean -fdq src
echo "done; /repo status: $(git -C /repo status --porcelain --untracked-files=no | wc -l) changed files"
