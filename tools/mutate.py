#!/usr/bin/env python3
"""Self-validation of the checkers: apply each patch of mutants/index.json to /repo (git apply), run the listed
checks, compare with the expectation, and undo (git checkout).  Breaking mutants must make the named check
report a violation whose key contains the expected substring; preserving mutants must leave the checks silent.

usage: mutate.py [--only substr] [--repo <git worktree of /repo>]
"""
import json, os, subprocess, sys, time
V = os.path.dirname(os.path.dirname(os.path.abspath(__file__)))
REPO = "/repo"
JOBS = int(os.environ.get("MUTATE_JOBS", "6"))


def sh(cmd, **kw):
    return subprocess.run(cmd, shell=True, stdout=subprocess.PIPE, stderr=subprocess.STDOUT, text=True, **kw)


def clean():
    r = sh("git -C %s status --porcelain --untracked-files=no" % REPO)
    return r.stdout.strip() == ""


def match_expect(exp, keys):
    """exp: substring of a violation key; `a, b` = alternatives; `x...y` = both parts in the same key; trailing prose in () ignored"""
    if not exp:
        return True
    exp = exp.split(" (")[0]
    for alt in exp.split(", "):
        parts = [p for p in alt.strip().split("...") if p]
        if any(all(p in k for p in parts) for k in keys):
            return True
    return False


def seeded_entries():
    """the independently written changes kept under seeded/<id>/ (breaking; expectation = the key recorded in meta.json)"""
    out = []
    base = os.path.join(V, "seeded")
    for d in sorted(os.listdir(base)) if os.path.isdir(base) else []:
        mp = os.path.join(base, d, "meta.json")
        pp = os.path.join(base, d, "patch.diff")
        if not (os.path.exists(mp) and os.path.exists(pp)):
            continue
        meta = json.load(open(mp))
        prop = meta["property"]
        exp = (meta.get("caught_by") or {}).get(prop)
        out.append({"patch": "seeded/" + d, "abs": pp, "kind": "breaking", "props": [prop], "expect": {prop: exp} if exp else {}})
    return out


def main():
    global REPO
    only = None
    if "--only" in sys.argv:
        only = sys.argv[sys.argv.index("--only") + 1]
    if "--repo" in sys.argv:
        # run against another checkout (a scratch git worktree of /repo), leaving /repo free for interactive use
        REPO = sys.argv[sys.argv.index("--repo") + 1]
        os.environ["VERIF_REPO"] = REPO
        os.environ["VERIF_EVIDENCE_DIR"] = os.path.join(REPO, "_evidence")
        os.environ.setdefault("FACTX_TARGET", os.path.join(V, ".cache", "target-mut"))
    idx = json.load(open(os.path.join(V, "mutants/index.json")))
    idx["mutants"] = list(idx["mutants"]) + seeded_entries()
    if not clean():
        print("/repo has uncommitted changes; refusing to run")
        return 2
    results = []
    for m in idx["mutants"]:
        if only and only not in m["patch"]:
            continue
        patch = m.get("abs") or os.path.join(V, "mutants", m["patch"])
        r = sh("git -C %s apply --check %s" % (REPO, patch))
        if r.returncode != 0:
            results.append((m["patch"], "SKIPPED (does not apply)", ""))
            print("SKIP  %s (patch no longer applies)" % m["patch"])
            continue
        sh("git -C %s apply %s" % (REPO, patch))
        try:
            verdicts = []
            # the first check extracts the facts of this tree (cached by tree hash); the others then run side by side
            runs = {}
            props = list(m["props"])
            if props:
                runs[props[0]] = sh("./check %s" % props[0], cwd=V)
            if len(props) > 1:
                from concurrent.futures import ThreadPoolExecutor
                with ThreadPoolExecutor(max_workers=JOBS) as ex:
                    for prop, r in zip(props[1:], ex.map(lambda q: sh("./check %s" % q, cwd=V), props[1:])):
                        runs[prop] = r
            for prop in props:
                r = runs[prop]
                out = r.stdout
                viol = [l for l in out.splitlines() if l.strip().startswith("key=")]
                fired = r.returncode == 1 and "VIOLATION property=%s" % prop in out
                if r.returncode not in (0, 1) or (r.returncode == 1 and not fired) or "CHECK ERROR" in out:
                    verdicts.append((prop, "ERROR rc=%d: %s" % (r.returncode, out[-300:])))
                    continue
                if m["kind"] == "breaking":
                    exp = m.get("expect", {}).get(prop)
                    if exp is None:
                        ok = fired
                    else:
                        ok = fired and match_expect(exp, viol)
                    verdicts.append((prop, "caught" if ok else ("MISSED (fired=%s keys=%s)" % (fired, [l.strip()[:120] for l in viol][:3]))))
                else:
                    verdicts.append((prop, "silent" if not fired else "FALSE ALARM %s" % [l.strip()[:160] for l in viol][:3]))
            results.append((m["patch"], m["kind"], verdicts))
            bad = [v for v in verdicts if not (v[1] in ("caught", "silent"))]
            print("%s %-70s %s" % ("ok  " if not bad else "FAIL", m["patch"][:70], "; ".join("%s:%s" % v for v in verdicts)))
        finally:
            sh("git -C %s checkout -- ." % REPO)
            # files added by a patch
            sh("git -C %s clean -fdq -- src contract" % REPO)
    if not clean():
        print("WARNING: /repo not clean after run")
    fails = [r for r in results if isinstance(r[2], list) and any(v[1] not in ("caught", "silent") for v in r[2])]
    print("%d mutants, %d failed expectations" % (len(results), len(fails)))
    json.dump([{"patch": r[0], "kind": r[1], "verdicts": r[2]} for r in results], open(os.path.join(V, ".cache", "mutation_results.json"), "w"), indent=1)
    return 1 if fails else 0


if __name__ == "__main__":
    sys.exit(main())
