#!/usr/bin/env python3
"""One-off: re-key tables/panic_ledger.json from the v1 site descriptors (operand term printed with its arguments, cut at
70 characters) to head-only descriptors.  Every undischarged request-reachable site of /repo's current tree is keyed both
ways; a reviewed row's reason and count move to the new key (rows that collapse onto one key are merged: counts added,
reasons joined).  Nothing is added: a site without a v1 row stays unreviewed."""
import sys, os, json, collections
V = os.path.dirname(os.path.dirname(os.path.abspath(__file__)))
sys.path.insert(0, V); sys.path.insert(0, os.path.join(V, "rules"))
import importlib.machinery, importlib.util
loader = importlib.machinery.SourceFileLoader("checkmod", os.path.join(V, "check"))
spec = importlib.util.spec_from_loader("checkmod", loader)
m = importlib.util.module_from_spec(spec); loader.exec_module(m)
ctx = m.Ctx("quick")
F, CG = ctx.facts(), ctx.cg()
import panicrule as P, roles
reach = CG.reachable_from(P.entry_set(F, CG))
dbname = roles.database_struct(F)["name"]
tfn = {f for f, _, _ in roles.table_fields(F)} | {"db_global_values"}
old = {r["key"]: r for r in json.load(open(os.path.join(V, "tables/panic_ledger.json")))["rows"]}
doc = json.load(open(os.path.join(V, "tables/panic_ledger.json")))["_doc"]
new = collections.OrderedDict()
used = collections.Counter()
for fid in sorted(reach):
    fn = F.fns[fid]
    if not fn.blocks:
        continue
    for s in P.sites(F, fn):
        if s["kind"].startswith("Overflow") or P.discharge(F, fn, s, dbname, tfn):
            continue
        k1, k2 = P.site_key(fn, s, v1=True), P.site_key(fn, s)
        row = old.get(k1)
        used[k1] += 1
        if row is None or used[k1] > row["max"]:
            print("unreviewed (stays a violation):", k1[:150])
            continue
        n = new.setdefault(k2, {"key": k2, "max": 0, "reason": []})
        n["max"] += 1
        if row["reason"] not in n["reason"]:
            n["reason"].append(row["reason"])
for k, r in old.items():
    if used[k] < r["max"]:
        print("row had spare count / is stale: %d used of %d: %s" % (used[k], r["max"], k[:140]))
rows = [{"key": r["key"], "max": r["max"], "reason": "; ".join(r["reason"])} for r in new.values()]
json.dump({"_doc": doc, "rows": rows}, open(os.path.join(V, "tables/panic_ledger.json"), "w"), indent=1)
print(len(old), "rows ->", len(rows), "rows; total max", sum(r["max"] for r in old.values()), "->", sum(r["max"] for r in rows))
