#!/usr/bin/env python3
"""Regenerates MANIFEST.json from tables/claims.json (one row per property)."""
import json, os
V = os.path.dirname(os.path.dirname(os.path.abspath(__file__)))
claims = json.load(open(os.path.join(V, "tables/claims.json")))
props = [json.loads(l) for l in open(os.path.join(V, "properties.jsonl"))]
checks = []
na = []
for p in props:
    c = claims.get(p["id"])
    if not c or c.get("not_applicable"):
        na.append({"property_id": p["id"], "reason": (c or {}).get("not_applicable", "check not built yet (work in progress)")})
        continue
    checks.append({
        "property_id": p["id"],
        "quick_cmd": "./check %s --tier quick" % p["id"],
        "thorough_cmd": "./check %s --tier thorough" % p["id"],
        "evidence_file": "/verif/evidence/%s.json" % p["id"],
        "replay_cmd_template": "cat {path}",
        "engine": "factx+rules",
        "level_claimed": {"category": c["level"], "text": c["text"], "design_ref": "DESIGN.md section 5, " + p["id"]},
        "level_note": c["note"],
        "technique": c["technique"],
    })
m = {
    "version": 1,
    "setup_cmd": "./tools/setup.sh",
    "hooks": {
        "guard": "brc20_prog_verif",
        "enable": "no hooks: checks analyse /repo's source with a rustc_private driver (cargo +nightly check with RUSTC_WORKSPACE_WRAPPER); nothing is compiled into the crate",
        "baseline_off_cmd": "cd /repo && cargo test --workspace --no-fail-fast --offline",
        "source_commits": [],
        "add_only": True,
    },
    "engines": [
        {"name": "factx", "path": "tools/factx", "serves_properties": [c["property_id"] for c in checks],
         "kind_free_text": "rustc_private driver: HIR/typeck/MIR fact extraction (mini-MIR, resolved callees, callback elaboration, evaluated constants)"},
        {"name": "rules", "path": "rules", "serves_properties": [c["property_id"] for c in checks],
         "kind_free_text": "python rule engines over the facts: call graph, dominators, lock-state dataflow, effect inference, taint, origin slices, guard normal forms"},
    ],
    "checks": checks,
    "notes": "Static analysis only: no crate code is executed by any check. See DESIGN.md.",
    "not_applicable": na,
}
json.dump(m, open(os.path.join(V, "MANIFEST.json"), "w"), indent=1)
print("claimed:", [c["property_id"] for c in checks], "n/a:", len(na))
