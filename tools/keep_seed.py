#!/usr/bin/env python3
"""keep_seed.py <slot dir> <id> <property> <needs-to-manifest> <caught_by json> [note]
copies out/{patch.diff,demo*,notes.md} and confirm.txt of a confirmed sub-agent change into seeded/<id>/ and writes meta.json"""
import glob, json, os, shutil, sys
V = os.path.dirname(os.path.dirname(os.path.abspath(__file__)))
slot, sid, prop, needs, caught = sys.argv[1:6]
note = sys.argv[6] if len(sys.argv) > 6 else ""
d = os.path.join(V, "seeded", sid)
os.makedirs(d, exist_ok=True)
for f in glob.glob(os.path.join(slot, "out", "*")):
    shutil.copy(f, d)
shutil.copy(os.path.join(slot, "confirm.txt"), d)
conf = open(os.path.join(slot, "confirm.txt")).read()
meta = {
    "id": sid, "property": prop, "needs_to_manifest": needs,
    "written_by": "independent sub-agent given only the property text and a scratch worktree (round 2: told which earlier change to avoid)",
    "confirmed": "tools/confirm_seed.sh in the agent's worktree (confirm.txt): with the change the existing suite passes (2 Bitcoin-node tests fail as in the baseline) and the demo fails; without it the demo passes. tools/run_seed.sh: patch applied to /repo, all 20 quick checks run, reverted.",
    "caught_by": json.loads(caught), "note": note,
}
json.dump(meta, open(os.path.join(d, "meta.json"), "w"), indent=1)
print("kept", d, sorted(os.listdir(d)))
