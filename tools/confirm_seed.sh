#!/bin/bash
# usage: confirm_seed.sh <slot dir, e.g. /tmp/seed/s1> <demo test filter, e.g. demo::>
# Confirms a sub-agent's change in its scratch worktree: (a) with the change the existing suite passes and the demo
# fails; (b) without it the demo passes.  Prints a summary; leaves the worktree clean (patch reverted, demo removed).
SLOT=$1; FILTER=${2:-demo::}
WT=$SLOT/wt; OUT=$SLOT/out; export CARGO_TARGET_DIR=$SLOT/target CARGO_NET_OFFLINE=true
cd $WT || exit 2
git checkout -q -- . ; git clean -fdq src tests
git apply $OUT/patch.diff || { echo "PATCH DOES NOT APPLY"; exit 2; }
if [ -f $OUT/demo.rs ]; then
  cp $OUT/demo.rs src/demo.rs
  grep -q 'mod demo;' src/lib.rs || sed -i 's/^pub(crate) mod server;/pub(crate) mod server;\n#[cfg(all(test, feature = "server"))]\nmod demo;/' src/lib.rs
fi
for f in $OUT/*_test.rs $OUT/demo_*.rs; do [ -f "$f" ] && cp "$f" tests/; done 2>/dev/null
echo "== WITH the change: whole suite (+demo)"
cargo test --offline --workspace --no-fail-fast 2>&1 | grep -E '^test result|^test .*FAILED|panicked at' | sed 's/finished in.*//' | sort | uniq -c | head -30
echo "== WITHOUT the change: demo only"
git apply -R $OUT/patch.diff
cargo test --offline --lib $FILTER 2>&1 | grep -E '^test result|^test .*(FAILED|ok)' | head -12
for f in $OUT/*_test.rs $OUT/demo_*.rs; do [ -f "$f" ] && cargo test --offline --test $(basename $f .rs) 2>&1 | grep -E '^test result|FAILED' | head -5; done 2>/dev/null
git checkout -q -- . ; git clean -fdq src tests
