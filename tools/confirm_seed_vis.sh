#!/bin/bash
# confirm a seed whose demo needs `pub(crate) mod cached_database;` : usage confirm_vis.sh <slot>
SLOT=$1; WT=$SLOT/wt; OUT=$SLOT/out; export CARGO_TARGET_DIR=$SLOT/target CARGO_NET_OFFLINE=true
cd $WT; git checkout -q -- . ; git clean -fdq src tests
git apply $OUT/patch.diff || exit 2
cp $OUT/demo.rs src/demo.rs
sed -i 's/^pub(crate) mod server;/pub(crate) mod server;\n#[cfg(test)]\nmod demo;/' src/lib.rs
sed -i 's/^mod cached_database;/pub(crate) mod cached_database;/' src/db/mod.rs
echo "== WITH the change: whole suite (+demo; scratch-only visibility tweak: pub(crate) mod cached_database)"
cargo test --offline --workspace --no-fail-fast 2>&1 | grep -E '^test result|^test .*FAILED|panicked at' | sed 's/finished in.*//' | sort | uniq -c | head -30
echo "== WITHOUT the change: demo only"
git apply -R $OUT/patch.diff
cargo test --offline --lib demo:: 2>&1 | grep -E '^test result|^test .*(FAILED|ok)' | head -12
git checkout -q -- . ; git clean -fdq src tests
