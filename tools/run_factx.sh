#!/bin/bash
# usage: run_factx.sh <outdir> [extra cargo args...]   (runs in /repo, or $FACTX_REPO)
set -e
OUT=$1; shift
REPO=${FACTX_REPO:-/repo}
TGT=${FACTX_TARGET:-/verif/.cache/target}
SYSROOT=$(rustc +nightly --print sysroot)
mkdir -p "$OUT"
cd "$REPO"
# force re-analysis of member crates (cargo would replay cached output otherwise)
rm -rf "$TGT"/debug/.fingerprint/brc20-prog-* 2>/dev/null || true
export LD_LIBRARY_PATH=$SYSROOT/lib
export FACTX_OUT=$OUT
export FACTX_NONCE=${FACTX_NONCE:-$(date +%s%N)}
export RUSTC_WORKSPACE_WRAPPER=/verif/tools/factx/target/debug/factx
export CARGO_TARGET_DIR=$TGT
export CARGO_NET_OFFLINE=true
exec cargo +nightly check --offline "$@"
