#!/usr/bin/env python3
"""Writes a sub-agent prompt asking for behaviour-PRESERVING refactors around a property's anchors:
refactor_prompt.py <Cxx> <slot>.  The checks must stay silent on every one of them (false-alarm probe)."""
import json, sys
pid, slot = sys.argv[1], sys.argv[2]
# optional third argument: a notes.md of refactorings already collected for this property (ask for different ones)
AVOID = open(sys.argv[3]).read() if len(sys.argv) > 3 else ""
props = {json.loads(l)["id"]: json.loads(l) for l in open("/verif/properties.jsonl")}
p = props[pid]
t = f"""You are helping to evaluate a verification tool for the Rust project bestinslot-xyz/brc20-programmable-module (a revm-based EVM execution engine for BRC20 indexers with a reorg-capable block-history cache over RocksDB and a JSON-RPC server).

Your job: produce THREE different, realistic, strictly BEHAVIOUR-PRESERVING refactorings of the code that implements the property below - the kind of clean-up a maintainer would merge: extract a helper function or method, inline one, rename functions / variables / closures, reorder independent statements, replace a loop by iterator adapters (or back), replace `if let` by `match`, early returns instead of nesting, introduce a small accessor, move a computation out of (or into) a closure, split a long function, de-duplicate two copies of the same code into one helper, change an error message, etc.  Each refactoring must touch the functions named in the anchors below (or their direct callees / callers) - not unrelated files - and must NOT change behaviour in any way: same results, same errors (messages may change), same side effects in the same order where order matters (lock acquisition order, database write order), same persistence format, same public API.  Be substantive: each should change at least ~10 lines; cosmetic whitespace or comment-only edits do not count.

PROPERTY {p['id']}: {p['title']}
Statement: {p['statement']}
Anchors (where the mechanism lives): {json.dumps(p['anchors'])}

Working area (use ONLY these paths; do not read or write anything under /verif or /repo):
- git worktree of the project: /tmp/seed/{slot}/wt  (edit files here; do not commit)
- cargo target dir to use: /tmp/seed/{slot}/target  (always pass CARGO_TARGET_DIR=/tmp/seed/{slot}/target; builds are offline: use `cargo ... --offline`)
- output directory: /tmp/seed/{slot}/out

How to build/test (offline sandbox, no network):
  cd /tmp/seed/{slot}/wt && CARGO_TARGET_DIR=/tmp/seed/{slot}/target cargo test --offline --workspace --no-fail-fast 2>&1 | grep -E '^test result|FAILED|panicked'
The baseline has exactly two expected failures that need a Bitcoin node (test_btc_rpc_precompiles_mainnet, test_btc_rpc_precompiles_signet in tests/precompiles.rs); everything else passes.

Procedure, for k = 1, 2, 3:  start from a clean checkout (`git -C /tmp/seed/{slot}/wt checkout -- .`), make refactoring k, run the full test suite (it must give exactly the baseline results), save `git -C /tmp/seed/{slot}/wt diff > /tmp/seed/{slot}/out/refactor_k.diff`, then restore the clean checkout.  Each diff must apply on its own with `git apply` to a clean checkout (they are independent alternatives, not a series).

Also write /tmp/seed/{slot}/out/notes.md: for each refactoring, one paragraph saying what was changed and why it cannot change behaviour (in particular: lock order, order of database writes, which errors are returned, what is persisted).

{("Refactorings of this code that were ALREADY collected (do something DIFFERENT - other functions among the anchors, other kinds of restructuring: table-driven instead of repeated calls, iterator adapters <-> hand-written loops, predicate functions <-> flags, async helper extraction, moving logic onto another type of the same module, merging two functions, splitting by early return, changing the order of independent checks, replacing a match by combinators, introducing a small struct or enum for a tuple, etc.):" + chr(10) + AVOID + chr(10)) if AVOID else ""}
Rules: do not modify or delete existing tests; do not touch files outside /tmp/seed/{slot}; do not use the network; do not look at /verif. Leave the worktree clean at the end."""
open(f"/tmp/seed/{slot}/prompt.txt", "w").write(t)
print("refactor prompt for", pid, "->", slot)
