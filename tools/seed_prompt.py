#!/usr/bin/env python3
"""Writes the sub-agent prompt for a seeded-mutant request: seed_prompt.py <Cxx> <slot> ["avoid text"]
The agent gets only the property text and a scratch worktree (nothing from /verif)."""
import json, sys
pid, slot = sys.argv[1], sys.argv[2]
avoid = sys.argv[3] if len(sys.argv) > 3 else ""
props = {json.loads(l)["id"]: json.loads(l) for l in open("/verif/properties.jsonl")}
p = props[pid]
extra = ""
if avoid:
    extra = ("\n\nIMPORTANT - be different: other engineers already produced the following changes for this property; do NOT reuse "
             "the same function, mechanism or trigger. Pick a different place in the code and a different kind of manifestation:\n" + avoid + "\n")
t = f"""You are helping to evaluate a verification tool for the Rust project bestinslot-xyz/brc20-programmable-module (a revm-based EVM execution engine for BRC20 indexers with a reorg-capable block-history cache over RocksDB and a JSON-RPC server).

Your job: produce ONE realistic code change (a plausible bug a developer could introduce: a refactor gone wrong, an off-by-one, a dropped check, swapped arguments, a missing call, a reordered statement, ...) to the project that BREAKS the property below, while the project still compiles and its existing test suite still passes. The change must need something specific to manifest (a particular interleaving, a crash or fault at a particular point, a multi-step sequence of operations, an unusual input, or two cooperating sites that each look fine alone) — NOT something ordinary use would expose at once, and not something the existing tests catch.{extra}

PROPERTY {p['id']}: {p['title']}
Statement: {p['statement']}
Quantifier: {p['quantifier']['text']}
Why the tests cannot settle it: {p['why_tests_cant']}
Anchors (where the mechanism lives): {json.dumps(p['anchors'])}

Working area (use ONLY these paths; do not read or write anything under /verif or /repo):
- git worktree of the project: /tmp/seed/{slot}/wt  (edit files here; do not commit)
- cargo target dir to use: /tmp/seed/{slot}/target  (always pass CARGO_TARGET_DIR=/tmp/seed/{slot}/target; builds are offline: use `cargo ... --offline`)
- output directory: /tmp/seed/{slot}/out

How to build/test (offline sandbox, no network):
  cd /tmp/seed/{slot}/wt && CARGO_TARGET_DIR=/tmp/seed/{slot}/target cargo test --offline --workspace --no-fail-fast 2>&1 | grep -E '^test result|FAILED|panicked'
The baseline has exactly two expected failures that need a Bitcoin node (test_btc_rpc_precompiles_mainnet, test_btc_rpc_precompiles_signet in tests/precompiles.rs); everything else passes (the full run takes a few minutes; the lib unit tests alone: `cargo test --offline --lib`).

Deliverables, all written to /tmp/seed/{slot}/out/ :
1. patch.diff  — `git -C /tmp/seed/{slot}/wt diff` of your change to the project sources ONLY (src/**); keep it small and realistic; it must apply with `git apply` to a clean checkout.
2. a demonstration that FAILS with the change and PASSES without it: preferably an in-crate test module file demo.rs (a `#[cfg(test)] mod demo;` style file, to be dropped at src/demo.rs and registered with one line in src/lib.rs — tell me the exact line and any visibility tweak needed) or an integration test file named demo_<something>.rs for tests/; it may use threads, several engine calls, reorgs, commits, reopen of the database directory, etc. It must not need network access.
3. notes.md — which clause of the property the change breaks, what exactly is needed for it to manifest, the exact commands you ran and their observed results (a) without the change: existing tests pass + demo passes; (b) with the change: existing tests still pass + demo fails.

Rules: do not modify or delete existing tests; do not touch files outside /tmp/seed/{slot}; do not use the network; do not look at /verif. Before finishing, make sure patch.diff contains only the bug (not the demo), and leave the worktree with the patch applied. Be economical: one good mutant is enough."""
open(f"/tmp/seed/{slot}/prompt.txt", "w").write(t)
print("prompt for", pid, "->", slot)
