# generator of the sub-agent prompt used for seeded mutants (the agent gets only the property text and a scratch worktree)
