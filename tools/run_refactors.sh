#!/bin/bash
# usage: run_refactors.sh <slot dir> : applies each out/refactor_k.diff to /repo in turn, runs all 20 quick checks, reverts; every check must stay silent
SLOT=$1
cd /repo && [ -z "$(git status --porcelain --untracked-files=no)" ] || { echo "/repo dirty"; exit 2; }
for P in $SLOT/out/refactor_*.diff; do
  echo "=== $(basename $P)"
  git -C /repo apply $P || { echo "  does not apply"; continue; }
  cd /verif
  for i in $(seq -w 1 20); do
    out=$(VERIF_EVIDENCE_DIR=/tmp/seed_ev ./check C$i 2>&1); rc=$?
    if [ $rc -ne 0 ]; then echo "  C$i rc=$rc"; echo "$out" | grep -E 'key=|FACT EXTRACTION|error\[|CHECK ERROR' | head -4 | cut -c1-200; fi
  done
  git -C /repo checkout -- . ; git -C /repo clean -fdq src
done
echo "done; /repo status: $(git -C /repo status --porcelain --untracked-files=no | wc -l) changed files"
