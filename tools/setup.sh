#!/bin/bash
# Build the fact extractor and warm the nightly dependency cache (offline).
set -e
cd "$(dirname "$0")/.."
export CARGO_NET_OFFLINE=true
(cd tools/factx && cargo build --offline 2>&1 | tail -2)
mkdir -p .cache
./check --facts-only
