#!/usr/bin/env python3
"""HISTORICAL (v1 keys): produced the first tables/panic_ledger.json.  The ledger has since been re-keyed by
tools/migrate_panic_keys.py (head-only descriptors, closure ordinals removed) and pruned of rows that sound discharge idioms now
prove; do not run this script against the current ledger - it would overwrite it with v1 keys.
Regenerates tables/panic_ledger.json from the current facts + the reviewed REASONS below.
Rows whose reason starts with 'FINDING' are not written: they stay violations."""
import sys, glob, os, collections, json
V = os.path.dirname(os.path.dirname(os.path.abspath(__file__)))
sys.path.insert(0, os.path.join(V, "rules"))
from facts import Facts
from callgraph import CallGraph
from panicrule import entry_set, sites, discharge, descriptor
import roles
F = Facts(sorted(glob.glob(os.path.join(V, ".cache/facts/*/brc20_prog-lib.json")), key=os.path.getmtime)[-1])
CG = CallGraph(F)
reach = CG.reachable_from(entry_set(F, CG))
dbname = roles.database_struct(F)["name"]
tfn = {f for f, _, _ in roles.table_fields(F)} | {"db_global_values"}
rows = collections.OrderedDict()
for fid in sorted(reach):
    fn = F.fns[fid]
    if not fn.blocks:
        continue
    for s in sites(F, fn):
        if s["kind"].startswith("Overflow") or discharge(F, fn, s, dbname, tfn):
            continue
        import panicrule as _P
        key = _P.site_key(fn, s)
        rows.setdefault(key, {"count": 0})
        rows[key]["count"] += 1
REASONS = [
 ('decode_bytes_from_inscription_data|Index|[0]', 'FINDING F3: first-byte access without a length check'),
 ('decode_bytes_from_inscription_data|Index|[RangeFrom', 'the `[1..]` slices follow the access to element 0 (or first()? after the fix): len >= 1'),
 ('load_brc20_deploy_tx', 'embedded contract asset: compile-time constant bytes, not request data'),
 ('get_logs::{closure#0}|Index', 'guard `log.topics.len() <= idx => no match` is in the enclosing function before the closure is passed to any() (checked by C18 GUARD topic-index)'),
 ('BlockHistoryCache<V>>::latest|Call', 'history is never empty: new() inserts one entry, reorg() panics deliberately rather than leave it empty (C13)'),
 ('BlockHistoryCache<V>>::reorg|Call', 'deliberate stop on a rollback deeper than the kept history; unreachable when D::reorg depth check and monotone max hold (C01 clauses 3,4)'),
 ('BlockHistoryCache<V>>::set|Call', 'deliberate stop on a stamp below the latest stored one; unreachable when all writes are stamped with the height under construction (C01 clause 2)'),
 ('BlockHistoryCache<V>>::unset|Call', 'same as set'),
 ('AddressED as db::types::encode_decode::Decode>::decode::{closure#0}|Call', 'slice is the [u8; 20] just decoded: length is 20 by type'),
 ('BlockResponseED as db::types::encode_decode::Encode>::encode|Call', 'stored blocks are built by BlockResponseED::new (transactions = Left); Right only exists in RPC responses'),
 ('BytecodeED as db::types::encode_decode::Decode>::decode::{closure#0}|Call', 'input is a RocksDB value written by Encode (C14); on-disk corruption is outside the request-reachable scope'),
 ('<u8 as db::types::encode_decode::Decode>::decode|BoundsCheck', 'Decode is only applied to RocksDB values written by Encode (C14); truncated rows = on-disk corruption, outside the property'),
 ('RawBlock::new|Call', 'slice is u64::to_be_bytes(): 8 bytes by type (B64)'),
 ('generate_block_hash|Call', '24 zero bytes chained with u64::to_be_bytes(): 32 bytes by construction'),
 ('add_tx_to_block::{closure#1}::{closure#5}|Call|sub', 'FINDING F14: Duration subtraction underflows when clear_caches resets start_time between the two elapsed() reads'),
 ('get_all_pending_transactions|Call', 'get_mut(key).unwrap() directly after `if !contains_key(key) { insert(key) }`'),
 ('get_block_by_number::{closure#0}::{closure#0}|Call', 'Vec::insert(len, x): index == len never panics'),
 ('get_block_trace_string::{closure#0}::{closure#0}|Call', 'every hash listed in a stored block has a receipt (index rows written together, C06); method is on the deny list'),
 ('last_sat_location_precompile|Index', 'output[i] with i < vout and output.get(vout) is Some (checked above): two-step guard'),
 ('last_sat_location_precompile|Call', 'txid raw hash is [u8; 32] by type'),
 ('btc_tx_details_precompile|Call', 'txid raw hash is [u8; 32] by type'),
 ('get_block_height_with_retry|Call', 'Bitcoin node unreachable after retries: excluded by the statement'),
 ('get_transaction_and_block_hash_with_retry|Call', 'Bitcoin node unreachable after retries: excluded by the statement'),
 ('get_transaction_with_retry|Call', 'Bitcoin node unreachable after retries: excluded by the statement'),
 ('update_bitcoin_client::{closure#3}|Call', 'Client::new fails only on an unparsable configured URL: configuration error, not a request'),
 ('BTC_CLIENT as std::ops::Deref>::deref::__static_ref_initialize|Call', 'Client::new fails only on an unparsable configured URL: configuration error, not a request'),
 ('build_lock_script|Index', 'lock_block_count_hex = u64::to_be_bytes() (8 bytes) stripped to >= 1 byte; each arm indexes below the matched len; `_` arm needs len >= 4'),
 ('build_lock_script|Call|Vec::remove', 'remove(0) under `len > 1`'),
 ('build_lock_script|Call|Vec::insert', 'insert(0, _) never panics'),
 ('build_lock_script|Call|Bytes::slice', 'FINDING F4: pkscript.slice(2..) without a length check'),
 ('get_evm_address_from_pkscript|Index', 'constant range 12..32 of a 32-byte hash'),
 ('get_evm_address_from_pkscript|Call|slice::copy_from_slice', '20-byte destination, 12..32 source: equal lengths by construction'),
 ('get_evm_address_from_pkscript|Call|Address::from_slice', '[u8; 20] by type'),
 ('SharedData::<T>::write_fn|Call', 'lock poisoning: only after another panic under the lock'),
 ('SharedData::<T>::write_fn_unchecked|Call', 'lock poisoning: only after another panic under the lock'),
 ('parse_block_number|Index', '`&number[2..]` under starts_with("0x"): len >= 2 and a char boundary'),
 ('eth_estimate_gas_many::{closure#0}::{closure#0}|Index', 'estimated_gases has txinfos.len() elements and i ranges over 0..txinfos.len(); result has one entry per tx_info when Ok'),
]
out = []
for key, v in rows.items():
    reason = None
    for pat, r in REASONS:
        if all(x in key for x in pat.split("|")):
            reason = r
    if reason is None:
        print("UNREVIEWED", key, v)
        continue
    if reason.startswith("FINDING"):
        print("finding (not listed):", key)
        continue
    out.append({"key": key, "max": v["count"], "reason": reason})
doc = ("Reviewed panic-capable sites reachable from request entry points that the discharge idioms do not prove safe. "
       "key = fn|kind|descriptor (line independent); max = number of sites with that key confirmed by reading. "
       "A site neither discharged nor listed (or exceeding max) is a violation.")
json.dump({"_doc": doc, "rows": out}, open(os.path.join(V, "tables/panic_ledger.v1.json"), "w"), indent=1)   # never the live ledger
print(len(out), "rows written")
