// factx: rustc_private driver that dumps a "mini-MIR" fact base (one JSON file
// per analysed crate) for the repository-specific rule engines in /verif/rules.
//
// Invoked as RUSTC_WORKSPACE_WRAPPER: argv = [factx, <rustc>, <rustc args...>].
// Environment:
//   FACTX_OUT    directory to write <crate>-<type>.json into (required to dump)
//   FACTX_CRATES comma separated crate names to dump (default: brc20_prog)
//   FACTX_NONCE  copied into the fact file (freshness check by the harness)
#![feature(rustc_private)]
#![allow(clippy::all)]

extern crate rustc_abi;
extern crate rustc_data_structures;
extern crate rustc_driver;
extern crate rustc_hir;
extern crate rustc_interface;
extern crate rustc_middle;
extern crate rustc_session;
extern crate rustc_span;

mod json;

use json::J;
use rustc_driver::Compilation;
use rustc_hir::def::DefKind;
use rustc_hir::def_id::{DefId, LocalDefId};
use rustc_middle::mir::interpret::{GlobalAlloc, Scalar};
use rustc_middle::mir::{
    self, AggregateKind, BasicBlockData, Body, BorrowKind, CastKind, Const, ConstValue, Operand,
    Place, PlaceRef, ProjectionElem, Rvalue, StatementKind, TerminatorKind,
};
use rustc_middle::ty::{self, Instance, Ty, TyCtxt, TyKind, TypingEnv};
use rustc_span::Span;

struct Cb {
    early: std::collections::HashMap<String, String>,
}

fn wanted_crate(tcx: TyCtxt<'_>) -> bool {
    if std::env::var("FACTX_OUT").is_err() {
        return false;
    }
    let wanted = std::env::var("FACTX_CRATES").unwrap_or_else(|_| "brc20_prog".to_string());
    let name = tcx.crate_name(rustc_hir::def_id::LOCAL_CRATE).to_string();
    wanted.split(',').any(|w| w == name)
}

impl rustc_driver::Callbacks for Cb {
    fn config(&mut self, config: &mut rustc_interface::interface::Config) {
        config.opts.unstable_opts.mir_opt_level = Some(0);
    }

    fn after_expansion<'tcx>(
        &mut self,
        _compiler: &rustc_interface::interface::Compiler,
        tcx: TyCtxt<'tcx>,
    ) -> Compilation {
        if !wanted_crate(tcx) {
            return Compilation::Continue;
        }
        // Coroutine bodies: dump the pre-state-transform MIR now; after analysis their
        // drop-elaborated MIR has been stolen by optimized_mir (needed for layout).
        let mut dumper = Dumper { tcx, unsafe_blocks: 0, early: None };
        for ldid in tcx.hir_body_owners() {
            let did = ldid.to_def_id();
            if tcx.def_kind(did) == DefKind::Closure && tcx.is_coroutine(did) {
                let (steal, _) = tcx.mir_promoted(ldid);
                if steal.is_stolen() {
                    continue;
                }
                let body = steal.borrow();
                let mut j = dumper.dump_body(ldid, &body);
                j.set("phase", J::s("promoted"));
                self.early.insert(uniq_path(tcx, did), j.to_string());
            }
        }
        Compilation::Continue
    }

    fn after_analysis<'tcx>(
        &mut self,
        _compiler: &rustc_interface::interface::Compiler,
        tcx: TyCtxt<'tcx>,
    ) -> Compilation {
        let out = match std::env::var("FACTX_OUT") {
            Ok(o) => o,
            Err(_) => return Compilation::Continue,
        };
        let wanted = std::env::var("FACTX_CRATES").unwrap_or_else(|_| "brc20_prog".to_string());
        let name = tcx.crate_name(rustc_hir::def_id::LOCAL_CRATE).to_string();
        if !wanted.split(',').any(|w| w == name) {
            return Compilation::Continue;
        }
        let ctype = format!("{:?}", tcx.crate_types().first()).to_lowercase();
        let ctype = if ctype.contains("executable") { "bin" } else { "lib" };
        let is_test = tcx.sess.opts.test;
        let feats: Vec<String> = tcx
            .sess
            .config
            .iter()
            .filter(|(k, _)| k.as_str() == "feature")
            .filter_map(|(_, v)| v.map(|v| v.to_string()))
            .collect();
        let server = feats.iter().any(|f| f == "server");
        let file = format!(
            "{}/{}-{}{}{}.json",
            out,
            name,
            ctype,
            if server { "" } else { "-noserver" },
            if is_test { "-test" } else { "" }
        );
        let mut root = J::obj();
        root.set("crate", J::s(&name));
        root.set("crate_type", J::s(ctype));
        root.set("test", J::Bool(is_test));
        root.set("features", J::Arr(feats.iter().map(|f| J::s(f)).collect()));
        root.set("nonce", J::s(&std::env::var("FACTX_NONCE").unwrap_or_default()));
        root.set("rustc", J::s(&format!("{}", rustc_interface::util::rustc_version_str().unwrap_or("?"))));
        let mut dumper = Dumper { tcx, unsafe_blocks: 0, early: Some(std::mem::take(&mut self.early)) };
        root.set("fns", dumper.dump_bodies());
        root.set("adts", dumper.dump_adts());
        root.set("impls", dumper.dump_impls());
        root.set("consts", dumper.dump_consts());
        root.set("files", dumper.dump_files());
        let s = root.to_string();
        std::fs::create_dir_all(&out).ok();
        let tmp = format!("{}.tmp{}", file, std::process::id());
        std::fs::write(&tmp, s).expect("write facts");
        std::fs::rename(&tmp, &file).expect("rename facts");
        Compilation::Continue
    }
}

struct Dumper<'tcx> {
    tcx: TyCtxt<'tcx>,
    unsafe_blocks: usize,
    early: Option<std::collections::HashMap<String, String>>,
}

fn uniq_path(tcx: TyCtxt<'_>, did: DefId) -> String {
    let p = tcx.def_path(did);
    format!("{}{}", tcx.crate_name(did.krate), p.to_string_no_crate_verbose())
}

impl<'tcx> Dumper<'tcx> {
    fn loc(&self, span: Span) -> J {
        let sm = self.tcx.sess.source_map();
        let sp = if span.from_expansion() { span.source_callsite() } else { span };
        let lo = sm.lookup_char_pos(sp.lo());
        let hi = sm.lookup_char_pos(sp.hi());
        let fname = format!("{}", lo.file.name.prefer_local_unconditionally());
        let mut o = J::obj();
        o.set("f", J::s(&fname));
        o.set("l", J::Num(lo.line as i128));
        o.set("c", J::Num(lo.col.0 as i128 + 1));
        o.set("l2", J::Num(hi.line as i128));
        if span.from_expansion() {
            o.set("x", J::Bool(true));
        }
        o
    }

    fn snippet(&self, span: Span) -> String {
        let sm = self.tcx.sess.source_map();
        let sp = if span.from_expansion() { span.source_callsite() } else { span };
        match sm.span_to_snippet(sp) {
            Ok(s) => {
                let s: String = s.split_whitespace().collect::<Vec<_>>().join(" ");
                if s.len() > 160 {
                    let mut e = 160;
                    while !s.is_char_boundary(e) {
                        e -= 1;
                    }
                    s[..e].to_string()
                } else {
                    s
                }
            }
            Err(_) => String::new(),
        }
    }

    fn dump_files(&self) -> J {
        let sm = self.tcx.sess.source_map();
        let mut arr = Vec::new();
        for f in sm.files().iter() {
            if f.cnum != rustc_hir::def_id::LOCAL_CRATE {
                continue;
            }
            let name = format!("{}", f.name.prefer_local_unconditionally());
            if name.starts_with('<') {
                continue;
            }
            let mut o = J::obj();
            o.set("name", J::s(&name));
            o.set("hash", J::s(&format!("{}", f.src_hash)));
            arr.push(o);
        }
        J::Arr(arr)
    }

    fn dump_bodies(&mut self) -> J {
        let tcx = self.tcx;
        let mut fns = Vec::new();
        for ldid in tcx.hir_body_owners() {
            let did = ldid.to_def_id();
            let kind = tcx.def_kind(did);
            let kind_s = match kind {
                DefKind::Fn => "fn",
                DefKind::AssocFn => "method",
                DefKind::Closure => {
                    if tcx.is_coroutine(did) {
                        "coroutine"
                    } else {
                        "closure"
                    }
                }
                DefKind::Const { .. } => "const",
                DefKind::AssocConst { .. } => "assoc_const",
                DefKind::Static { .. } => "static",
                DefKind::AnonConst => "anon_const",
                DefKind::InlineConst => "inline_const",
                _ => "other",
            };
            let mut o = J::obj();
            o.set("id", J::s(&uniq_path(tcx, did)));
            o.set("name", J::s(&tcx.def_path_str(did)));
            o.set("kind", J::s(kind_s));
            o.set("loc", self.loc(tcx.def_span(did)));
            if matches!(kind, DefKind::Fn | DefKind::AssocFn) {
                o.set("vis", J::s(&format!("{:?}", tcx.visibility(did))));
                o.set("is_async", J::Bool(tcx.asyncness(did).is_async()));
                let sig = tcx.fn_sig(did).instantiate_identity().skip_normalization().skip_binder();
                o.set(
                    "inputs",
                    J::Arr(sig.inputs().iter().map(|t| J::s(&format!("{}", t))).collect()),
                );
                o.set("output", J::s(&format!("{}", sig.output())));
                // parameter names
                let names: Vec<J> = tcx
                    .fn_arg_idents(did)
                    .iter()
                    .map(|i| match i {
                        Some(i) => J::s(i.name.as_str()),
                        None => J::Null,
                    })
                    .collect();
                o.set("param_names", J::Arr(names));
                // generic parameter names in substitution order (parent's first): a call site's `args` list zips with it
                let g = tcx.generics_of(did);
                let mut gn: Vec<J> = Vec::new();
                for i in 0..g.count() {
                    gn.push(J::s(g.param_at(i, tcx).name.as_str()));
                }
                o.set("generics", J::Arr(gn));
            }
            if matches!(kind, DefKind::Closure) {
                let parent = tcx.typeck_root_def_id(did);
                o.set("root", J::s(&uniq_path(tcx, parent)));
                o.set("parent", J::s(&uniq_path(tcx, tcx.parent(did))));
            }
            if kind == DefKind::AssocFn {
                let parent = tcx.parent(did);
                if matches!(tcx.def_kind(parent), DefKind::Impl { .. }) {
                    o.set("impl", J::s(&uniq_path(tcx, parent)));
                    let self_ty = tcx.type_of(parent).instantiate_identity().skip_normalization();
                    o.set("self_ty", J::s(&format!("{}", self_ty)));
                    if let Some(adt) = self_ty.ty_adt_def() {
                        o.set("self_adt", J::s(&uniq_path(tcx, adt.did())));
                    }
                    if let Some(tr) = tcx.impl_opt_trait_ref(parent) {
                        let tr = tr.instantiate_identity().skip_normalization();
                        o.set("trait", J::s(&tcx.def_path_str(tr.def_id)));
                        o.set("trait_ref", J::s(&format!("{}", tr)));
                        // a crate-local trait: where it is written and who may name it (a private helper trait vs an API trait)
                        if tr.def_id.is_local() {
                            o.set("trait_vis", J::s(&format!("{:?}", tcx.visibility(tr.def_id))));
                            o.set("trait_loc", self.loc(tcx.def_span(tr.def_id)));
                        }
                    }
                } else if matches!(tcx.def_kind(parent), DefKind::Trait) {
                    o.set("in_trait", J::s(&tcx.def_path_str(parent)));
                }
                o.set("method", J::s(tcx.item_name(did).as_str()));
            }
            // MIR
            let body_j = self.dump_mir(ldid);
            o.set("mir", body_j);
            fns.push(o);
        }
        J::Arr(fns)
    }

    fn dump_mir(&mut self, ldid: LocalDefId) -> J {
        let tcx = self.tcx;
        if let Some(early) = &self.early {
            if let Some(s) = early.get(&uniq_path(tcx, ldid.to_def_id())) {
                return J::Raw(s.clone());
            }
        }
        let steal = tcx.mir_drops_elaborated_and_const_checked(ldid);
        if steal.is_stolen() {
            // fall back to optimized MIR (mir-opt-level=0)
            let did = ldid.to_def_id();
            let kind = tcx.def_kind(did);
            if matches!(kind, DefKind::Fn | DefKind::AssocFn | DefKind::Closure) && tcx.is_mir_available(did) {
                let body = tcx.optimized_mir(did);
                let mut j = self.dump_body(ldid, body);
                j.set("phase", J::s("optimized"));
                return j;
            }
            let mut j = J::obj();
            j.set("phase", J::s("stolen"));
            return j;
        }
        let body = steal.borrow();
        let mut j = self.dump_body(ldid, &body);
        j.set("phase", J::s("elaborated"));
        j
    }

    fn ty_s(&self, t: Ty<'tcx>) -> String {
        format!("{}", t)
    }

    fn place(&self, body: &Body<'tcx>, p: Place<'tcx>) -> J {
        self.place_ref(body, p.as_ref())
    }

    fn place_ref(&self, body: &Body<'tcx>, p: PlaceRef<'tcx>) -> J {
        let tcx = self.tcx;
        let mut o = J::obj();
        o.set("l", J::Num(p.local.as_usize() as i128));
        if !p.projection.is_empty() {
            let mut pr = Vec::new();
            for (base, elem) in p.iter_projections() {
                let bty = base.ty(body, tcx);
                let s = match elem {
                    ProjectionElem::Deref => "*".to_string(),
                    ProjectionElem::Field(f, _) => {
                        let mut name = format!("{}", f.as_usize());
                        if let TyKind::Adt(adt, _) = bty.ty.kind() {
                            let vi = bty.variant_index.unwrap_or(rustc_abi::FIRST_VARIANT);
                            if adt.is_enum() || adt.is_struct() || adt.is_union() {
                                if let Some(v) = adt.variants().get(vi) {
                                    if let Some(fd) = v.fields.get(f) {
                                        name = fd.name.to_string();
                                    }
                                }
                            }
                        }
                        format!(".{}", name)
                    }
                    ProjectionElem::Index(l) => format!("[_{}]", l.as_usize()),
                    ProjectionElem::ConstantIndex { offset, from_end, .. } => {
                        if from_end {
                            format!("[-{}]", offset)
                        } else {
                            format!("[{}]", offset)
                        }
                    }
                    ProjectionElem::Subslice { from, to, from_end } => {
                        format!("[{}..{}{}]", from, if from_end { "-" } else { "" }, to)
                    }
                    ProjectionElem::Downcast(name, idx) => match name {
                        Some(n) => format!("as {}", n),
                        None => format!("as #{}", idx.as_usize()),
                    },
                    ProjectionElem::OpaqueCast(_) => "opaque".to_string(),
                    ProjectionElem::UnwrapUnsafeBinder(_) => "unwrap_binder".to_string(),
                };
                pr.push(J::s(&s));
            }
            o.set("p", J::Arr(pr));
        }
        o
    }

    fn alloc_j(&self, alloc_id: rustc_middle::mir::interpret::AllocId, depth: usize) -> J {
        let tcx = self.tcx;
        let mut o = J::obj();
        match tcx.global_alloc(alloc_id) {
            GlobalAlloc::Memory(alloc) => {
                let alloc = alloc.inner();
                let len = alloc.len();
                if len > 16384 {
                    o.set("big", J::Num(len as i128));
                    return o;
                }
                let bytes = alloc.inspect_with_uninit_and_ptr_outside_interpreter(0..len);
                o.set("hex", J::s(&hex(bytes)));
                if let Ok(s) = std::str::from_utf8(bytes) {
                    if s.chars().all(|c| !c.is_control() || c == '\n' || c == '\t') {
                        o.set("str", J::s(s));
                    }
                }
                if depth < 3 {
                    let mut ptrs = Vec::new();
                    for (off, prov) in alloc.provenance().ptrs().iter() {
                        let mut po = J::obj();
                        po.set("off", J::Num(off.bytes() as i128));
                        po.set("to", self.alloc_j(prov.alloc_id(), depth + 1));
                        ptrs.push(po);
                    }
                    if !ptrs.is_empty() {
                        o.set("ptrs", J::Arr(ptrs));
                    }
                }
            }
            GlobalAlloc::Static(did) => {
                o.set("static", J::s(&uniq_path(tcx, did)));
                o.set("static_name", J::s(&tcx.def_path_str(did)));
            }
            GlobalAlloc::Function { instance } => {
                o.set("fn", J::s(&uniq_path(tcx, instance.def_id())));
            }
            _ => {
                o.set("other", J::Bool(true));
            }
        }
        o
    }

    fn const_val(&self, cv: ConstValue, ty: Ty<'tcx>, o: &mut J) {
        let tcx = self.tcx;
        match cv {
            ConstValue::Scalar(Scalar::Int(i)) => {
                let bits = i.to_bits_unchecked();
                if ty.is_bool() {
                    o.set("v", J::Bool(bits != 0));
                } else if ty.is_signed() {
                    let size = i.size();
                    let v = size.sign_extend(bits) as i128;
                    o.set("v", J::Num(v));
                } else if bits <= i128::MAX as u128 {
                    o.set("v", J::Num(bits as i128));
                } else {
                    o.set("v", J::s(&format!("{}", bits)));
                }
            }
            ConstValue::Scalar(Scalar::Ptr(ptr, _)) => {
                let (prov, off) = ptr.into_raw_parts();
                o.set("ptr", self.alloc_j(prov.alloc_id(), 0));
                o.set("ptr_off", J::Num(off.bytes() as i128));
            }
            ConstValue::ZeroSized => {
                o.set("zst", J::Bool(true));
            }
            ConstValue::Slice { alloc_id, meta } => {
                let mut a = self.alloc_j(alloc_id, 0);
                a.set("len", J::Num(meta as i128));
                o.set("slice", a);
            }
            ConstValue::Indirect { alloc_id, offset } => {
                o.set("indirect", self.alloc_j(alloc_id, 0));
                o.set("ind_off", J::Num(offset.bytes() as i128));
            }
        }
        let _ = tcx;
    }

    /// for constants of a fieldless enum type (by value or behind one reference): the variant name
    fn enum_variant_name(&self, cv: ConstValue, ty: Ty<'tcx>, o: &mut J) {
        let tcx = self.tcx;
        let (inner, by_ref) = match ty.kind() {
            TyKind::Ref(_, t, _) => (*t, true),
            _ => (ty, false),
        };
        let TyKind::Adt(adt, _) = inner.kind() else { return };
        if !adt.is_enum() || !adt.is_payloadfree() {
            return;
        }
        let bits: Option<u128> = match cv {
            ConstValue::Scalar(Scalar::Int(i)) if !by_ref => Some(i.to_bits_unchecked()),
            ConstValue::Scalar(Scalar::Ptr(ptr, _)) if by_ref => {
                let (prov, off) = ptr.into_raw_parts();
                match tcx.global_alloc(prov.alloc_id()) {
                    GlobalAlloc::Memory(alloc) => {
                        let alloc = alloc.inner();
                        let len = alloc.len();
                        let start = off.bytes() as usize;
                        if len - start <= 16 && len > start {
                            let bytes = alloc.inspect_with_uninit_and_ptr_outside_interpreter(start..len);
                            let mut v: u128 = 0;
                            for (i, b) in bytes.iter().enumerate() {
                                v |= (*b as u128) << (8 * i);
                            }
                            Some(v)
                        } else {
                            None
                        }
                    }
                    _ => None,
                }
            }
            _ => None,
        };
        if let Some(bits) = bits {
            for (vi, d) in adt.discriminants(tcx) {
                if d.val == bits {
                    o.set("enum_variant", J::s(&format!("{}::{}", tcx.def_path_str(adt.did()), adt.variant(vi).name)));
                }
            }
        }
    }

    fn operand(&self, body: &Body<'tcx>, env: TypingEnv<'tcx>, op: &Operand<'tcx>) -> J {
        let tcx = self.tcx;
        match op {
            Operand::Copy(p) => {
                let mut o = self.place(body, *p);
                o.set("k", J::s("copy"));
                o
            }
            Operand::Move(p) => {
                let mut o = self.place(body, *p);
                o.set("k", J::s("move"));
                o
            }
            Operand::Constant(c) => {
                let mut o = J::obj();
                o.set("k", J::s("const"));
                let ty = c.const_.ty();
                if !matches!(ty.kind(), TyKind::FnDef(..)) {
                    o.set("ty", J::s(&self.ty_s(ty)));
                }
                match ty.kind() {
                    TyKind::FnDef(did, args) => {
                        o.set("fn", self.fn_ref(env, *did, args, c.span));
                    }
                    _ => {}
                }
                if let Const::Unevaluated(uv, _) = c.const_ {
                    if let Some(p) = uv.promoted {
                        o.set("promoted", J::Num(p.as_usize() as i128));
                    } else {
                        o.set("named", J::s(&tcx.def_path_str(uv.def)));
                        o.set("named_id", J::s(&uniq_path(tcx, uv.def)));
                    }
                }
                if let Const::Ty(_, ct) = c.const_ {
                    // a const generic parameter used as a value (`LIMBS`): name it, it has no value before monomorphisation
                    if let rustc_middle::ty::ConstKind::Param(p) = ct.kind() {
                        o.set("named", J::s(&format!("cparam:{}", p.name)));
                    }
                }
                if !matches!(ty.kind(), TyKind::FnDef(..)) {
                    match c.const_.eval(tcx, env, c.span) {
                        Ok(cv) => {
                            self.const_val(cv, ty, &mut o);
                            self.enum_variant_name(cv, ty, &mut o);
                        }
                        Err(_) => {
                            o.set("uneval", J::Bool(true));
                        }
                    }
                }
                o
            }
            #[allow(unreachable_patterns)]
            _ => {
                let mut o = J::obj();
                o.set("k", J::s("other"));
                o.set("dbg", J::s(&format!("{:?}", op)));
                o
            }
        }
    }

    fn fn_ref(&self, env: TypingEnv<'tcx>, did: DefId, args: ty::GenericArgsRef<'tcx>, _span: Span) -> J {
        let tcx = self.tcx;
        let mut o = J::obj();
        o.set("path", J::s(&tcx.def_path_str(did)));
        o.set("full", J::s(&tcx.def_path_str_with_args(did, args)));
        o.set("id", J::s(&uniq_path(tcx, did)));
        o.set("local", J::Bool(did.is_local()));
        o.set(
            "args",
            J::Arr(args.iter().map(|a| J::s(&format!("{}", a))).collect()),
        );
        {
            let mut cl: Vec<String> = Vec::new();
            for a in args.iter() {
                if let Some(t) = a.as_type() {
                    for c in self.closures_in(t) {
                        if !cl.contains(&c) {
                            cl.push(c);
                        }
                    }
                }
            }
            if !cl.is_empty() {
                o.set("arg_cl", J::Arr(cl.iter().map(|c| J::s(c)).collect()));
            }
        }
        // trait method?
        if let Some(assoc) = tcx.opt_associated_item(did) {
            let container = tcx.parent(did);
            match tcx.def_kind(container) {
                DefKind::Trait => {
                    o.set("trait", J::s(&tcx.def_path_str(container)));
                    o.set("method", J::s(&tcx.opt_item_name(did).map(|n| n.to_string()).unwrap_or_default()));
                    if let Some(self_ty) = args.types().next() {
                        o.set("self_ty", J::s(&format!("{}", self_ty)));
                    }
                }
                DefKind::Impl { .. } => {
                    o.set("method", J::s(&tcx.opt_item_name(did).map(|n| n.to_string()).unwrap_or_default()));
                    let self_ty = tcx.type_of(container).instantiate(tcx, args).skip_normalization();
                    o.set("self_ty", J::s(&format!("{}", self_ty)));
                    if let Some(tr) = tcx.impl_opt_trait_ref(container) {
                        o.set("trait", J::s(&tcx.def_path_str(tr.skip_binder().def_id)));
                    }
                }
                _ => {}
            }
        }
        // resolve
        let resolved = std::panic::catch_unwind(std::panic::AssertUnwindSafe(|| {
            Instance::try_resolve(tcx, env, did, args)
        }));
        match resolved {
            Ok(Ok(Some(inst))) => {
                let rd = inst.def_id();
                let mut r = J::obj();
                r.set("id", J::s(&uniq_path(tcx, rd)));
                r.set("path", J::s(&tcx.def_path_str(rd)));
                r.set("full", J::s(&tcx.def_path_str_with_args(rd, inst.args)));
                r.set("local", J::Bool(rd.is_local()));
                let ik = format!("{:?}", inst.def);
                let ik = ik.split('(').next().unwrap_or("").to_string();
                r.set("kind", J::s(&ik));
                o.set("res", r);
            }
            Ok(Ok(None)) => {
                o.set("res", J::Null);
            }
            _ => {
                o.set("res_err", J::Bool(true));
            }
        }
        // callback edges for foreign callees: which traits can the callee (transitively,
        // through the impls it selects) invoke on *local* types?  Elaborate the
        // instantiated where-clauses of the resolved callee, selecting impls.
        let (rdid, rargs) = match &resolved {
            Ok(Ok(Some(inst))) => (inst.def_id(), inst.args),
            _ => (did, args),
        };
        if !rdid.is_local() && args.iter().any(|a| self.mentions_local(a)) {
            let cbs = self.elaborate_callbacks(env, rdid, rargs);
            o.set("callbacks", J::Arr(cbs.iter().map(|s| J::s(s)).collect()));
        }
        o
    }


    /// Transitive closure of trait predicates reachable from the where-clauses of
    /// (did, args), following selected impls; returns "Trait|SelfTy" for predicates
    /// whose self type is a local ADT / closure.  Bounded; fails open to "?" entries
    /// (the rule engines treat "?" as "all local impls").
    fn elaborate_callbacks(&self, env: TypingEnv<'tcx>, did: DefId, args: ty::GenericArgsRef<'tcx>) -> Vec<String> {
        let tcx = self.tcx;
        let mut out: Vec<String> = Vec::new();
        let mut seen: std::collections::HashSet<String> = std::collections::HashSet::new();
        let mut work: Vec<(DefId, ty::GenericArgsRef<'tcx>, usize)> = vec![(did, args, 0)];
        let mut steps = 0usize;
        while let Some((d, a, depth)) = work.pop() {
            steps += 1;
            if steps > 4000 {
                out.push("?|budget".to_string());
                break;
            }
            // predicates of d and its parents
            let mut cur = Some(d);
            let mut guard = 0;
            while let Some(dd) = cur {
                guard += 1;
                if guard > 4 {
                    break;
                }
                let gp = tcx.predicates_of(dd);
                let n = tcx.generics_of(dd).count();
                if n <= a.len() {
                    for (clause, _) in gp.instantiate_own(tcx, a) {
                        let clause = clause.skip_normalization();
                        let Some(tp) = clause.as_trait_clause() else { continue };
                        let Some(tp) = tp.no_bound_vars() else { continue };
                        let tr = tp.trait_ref;
                        let tr = match tcx.try_normalize_erasing_regions(env, ty::Unnormalized::new_wip(tr)) {
                            Ok(t) => t,
                            Err(_) => {
                                continue;
                            }
                        };
                        let key = format!("{}", tr);
                        if !seen.insert(key) {
                            continue;
                        }
                        if tcx.is_lang_item(tr.def_id, rustc_hir::LangItem::Sized)
                            || tcx.is_lang_item(tr.def_id, rustc_hir::LangItem::MetaSized)
                            || tcx.trait_is_auto(tr.def_id)
                        {
                            continue;
                        }
                        let self_ty = tr.self_ty();
                        let local_self = match self_ty.kind() {
                            TyKind::Adt(adt, _) => adt.did().is_local(),
                            TyKind::Closure(c, _) | TyKind::Coroutine(c, _) => c.is_local(),
                            _ => false,
                        };
                        if local_self {
                            out.push(format!("{}|{}", tcx.def_path_str(tr.def_id), self_ty));
                        }
                        if depth >= 8 {
                            continue;
                        }
                        // has params? cannot select
                        if tr.args.iter().any(|x| x.walk().any(|g| matches!(g.as_type().map(|t| t.kind()), Some(TyKind::Param(_))))) {
                            continue;
                        }
                        let sel = std::panic::catch_unwind(std::panic::AssertUnwindSafe(|| {
                            tcx.codegen_select_candidate(env.as_query_input(tr))
                        }));
                        if let Ok(Ok(src)) = sel {
                            if let rustc_middle::traits::ImplSource::UserDefined(ud) = src {
                                if !ud.impl_def_id.is_local() {
                                    work.push((ud.impl_def_id, ud.args, depth + 1));
                                }
                            }
                        }
                        // supertraits / trait's own where clauses
                        let trargs = tr.args;
                        work.push((tr.def_id, trargs, depth + 1));
                    }
                }
                cur = gp.parent;
            }
        }
        out.sort();
        out.dedup();
        out
    }


    fn closures_in(&self, t: Ty<'tcx>) -> Vec<String> {
        let mut out = Vec::new();
        for inner in t.walk() {
            if let Some(t) = inner.as_type() {
                match t.kind() {
                    TyKind::Closure(d, _) | TyKind::Coroutine(d, _) | TyKind::CoroutineClosure(d, _) => {
                        let s = uniq_path(self.tcx, *d);
                        if !out.contains(&s) {
                            out.push(s);
                        }
                    }
                    _ => {}
                }
            }
        }
        out
    }

    fn mentions_local(&self, a: ty::GenericArg<'tcx>) -> bool {
        for inner in a.walk() {
            if let Some(t) = inner.as_type() {
                match t.kind() {
                    TyKind::Adt(adt, _) if adt.did().is_local() => return true,
                    TyKind::Closure(d, _) | TyKind::Coroutine(d, _) | TyKind::FnDef(d, _) if d.is_local() => {
                        return true
                    }
                    TyKind::CoroutineClosure(d, _) if d.is_local() => return true,
                    _ => {}
                }
            }
        }
        false
    }

    fn rvalue(&self, body: &Body<'tcx>, env: TypingEnv<'tcx>, rv: &Rvalue<'tcx>) -> J {
        let tcx = self.tcx;
        let mut o = J::obj();
        match rv {
            Rvalue::Use(op, ..) => {
                o.set("k", J::s("use"));
                o.set("ops", J::Arr(vec![self.operand(body, env, op)]));
            }
            Rvalue::Repeat(op, n) => {
                o.set("k", J::s("repeat"));
                o.set("ops", J::Arr(vec![self.operand(body, env, op)]));
                o.set("n", J::s(&format!("{}", n)));
            }
            Rvalue::Ref(_, bk, p) => {
                o.set("k", J::s("ref"));
                o.set(
                    "mut",
                    J::Bool(matches!(bk, BorrowKind::Mut { .. })),
                );
                o.set("place", self.place(body, *p));
            }
            Rvalue::RawPtr(m, p) => {
                o.set("k", J::s("rawptr"));
                o.set("mut", J::Bool(format!("{:?}", m).contains("Mut")));
                o.set("place", self.place(body, *p));
            }
            Rvalue::ThreadLocalRef(d) => {
                o.set("k", J::s("tls"));
                o.set("def", J::s(&tcx.def_path_str(*d)));
            }
            Rvalue::Cast(ck, op, ty) => {
                o.set("k", J::s("cast"));
                let cks = match ck {
                    CastKind::PointerCoercion(pc, _) => format!("ptr:{:?}", pc),
                    other => format!("{:?}", other),
                };
                o.set("cast", J::s(&cks));
                o.set("ops", J::Arr(vec![self.operand(body, env, op)]));
                o.set("ty", J::s(&self.ty_s(*ty)));
            }
            Rvalue::BinaryOp(bop, ops) => {
                o.set("k", J::s("bin"));
                o.set("op", J::s(&format!("{:?}", bop)));
                o.set(
                    "ops",
                    J::Arr(vec![self.operand(body, env, &ops.0), self.operand(body, env, &ops.1)]),
                );
            }
            Rvalue::UnaryOp(uop, op) => {
                o.set("k", J::s("un"));
                o.set("op", J::s(&format!("{:?}", uop)));
                o.set("ops", J::Arr(vec![self.operand(body, env, op)]));
            }
            Rvalue::Discriminant(p) => {
                o.set("k", J::s("discr"));
                o.set("place", self.place(body, *p));
                let pty = p.ty(body, tcx).ty;
                o.set("ty", J::s(&self.ty_s(pty)));
                if let TyKind::Adt(adt, _) = pty.kind() {
                    if adt.is_enum() {
                        let mut vs = Vec::new();
                        for (vi, d) in adt.discriminants(tcx) {
                            let mut vo = J::obj();
                            vo.set("name", J::s(adt.variant(vi).name.as_str()));
                            vo.set("val", if d.val <= i128::MAX as u128 { J::Num(d.val as i128) } else { J::s(&format!("{}", d.val)) });
                            vs.push(vo);
                        }
                        o.set("variants", J::Arr(vs));
                    }
                }
            }
            Rvalue::Aggregate(ak, ops) => {
                o.set("k", J::s("agg"));
                match &**ak {
                    AggregateKind::Array(t) => {
                        o.set("agg", J::s("array"));
                        o.set("ty", J::s(&self.ty_s(*t)));
                    }
                    AggregateKind::Tuple => {
                        o.set("agg", J::s("tuple"));
                    }
                    AggregateKind::Adt(did, vi, args, _, _) => {
                        o.set("agg", J::s("adt"));
                        o.set("adt", J::s(&tcx.def_path_str(*did)));
                        o.set("adt_id", J::s(&uniq_path(tcx, *did)));
                        o.set("adt_full", J::s(&tcx.def_path_str_with_args(*did, args)));
                        let adt = tcx.adt_def(*did);
                        let v = adt.variant(*vi);
                        o.set("variant", J::s(v.name.as_str()));
                        o.set(
                            "fields",
                            J::Arr(v.fields.iter().map(|f| J::s(f.name.as_str())).collect()),
                        );
                    }
                    AggregateKind::Closure(did, _) => {
                        o.set("agg", J::s("closure"));
                        o.set("def", J::s(&uniq_path(tcx, *did)));
                    }
                    AggregateKind::Coroutine(did, _) => {
                        o.set("agg", J::s("coroutine"));
                        o.set("def", J::s(&uniq_path(tcx, *did)));
                    }
                    AggregateKind::CoroutineClosure(did, _) => {
                        o.set("agg", J::s("coroutine_closure"));
                        o.set("def", J::s(&uniq_path(tcx, *did)));
                    }
                    AggregateKind::RawPtr(..) => {
                        o.set("agg", J::s("rawptr"));
                    }
                }
                o.set(
                    "ops",
                    J::Arr(ops.iter().map(|op| self.operand(body, env, op)).collect()),
                );
            }
            Rvalue::CopyForDeref(p) => {
                o.set("k", J::s("use"));
                let mut po = self.place(body, *p);
                po.set("k", J::s("copy"));
                o.set("ops", J::Arr(vec![po]));
            }
            other => {
                o.set("k", J::s("other"));
                o.set("dbg", J::s(&format!("{:?}", other)));
            }
        }
        o
    }

    fn dump_body(&mut self, ldid: LocalDefId, body: &Body<'tcx>) -> J {
        let tcx = self.tcx;
        let did = ldid.to_def_id();
        let env = TypingEnv::post_analysis(tcx, did);
        let mut j = J::obj();
        j.set("argc", J::Num(body.arg_count as i128));
        // locals
        let mut names: Vec<Option<String>> = vec![None; body.local_decls.len()];
        let mut upvars = Vec::new();
        for vdi in &body.var_debug_info {
            if let mir::VarDebugInfoContents::Place(p) = &vdi.value {
                if p.projection.is_empty() {
                    names[p.local.as_usize()] = Some(vdi.name.to_string());
                } else {
                    let mut u = J::obj();
                    u.set("name", J::s(vdi.name.as_str()));
                    u.set("place", self.place(body, *p));
                    upvars.push(u);
                }
            }
        }
        let mut locals = Vec::new();
        for (i, ld) in body.local_decls.iter_enumerated() {
            let mut o = J::obj();
            o.set("ty", J::s(&self.ty_s(ld.ty)));
            let cl = self.closures_in(ld.ty);
            if !cl.is_empty() {
                o.set("cl", J::Arr(cl.iter().map(|c| J::s(c)).collect()));
            }
            if let Some(n) = &names[i.as_usize()] {
                o.set("name", J::s(n));
            }
            o.set("line", J::Num(self.line(ld.source_info.span) as i128));
            locals.push(o);
        }
        j.set("locals", J::Arr(locals));
        if !upvars.is_empty() {
            j.set("upvars", J::Arr(upvars));
        }
        // blocks
        let mut blocks = Vec::new();
        for (_bb, data) in body.basic_blocks.iter_enumerated() {
            blocks.push(self.block(body, env, data));
        }
        j.set("blocks", J::Arr(blocks));
        // coroutine saved locals types (post-analysis witnesses)
        if tcx.is_coroutine(did) {
            if let Some(w) = tcx.mir_coroutine_witnesses(did) {
                let tys: Vec<J> = w
                    .field_tys
                    .iter()
                    .map(|f| {
                        let mut o = J::obj();
                        o.set("ty", J::s(&self.ty_s(f.ty)));
                        o.set("line", J::Num(self.line(f.source_info.span) as i128));
                        o.set("ignore_for_traits", J::Bool(f.ignore_for_traits));
                        o
                    })
                    .collect();
                j.set("witnesses", J::Arr(tys));
            }
        }
        j
    }

    fn line(&self, span: Span) -> usize {
        let sm = self.tcx.sess.source_map();
        let sp = if span.from_expansion() { span.source_callsite() } else { span };
        sm.lookup_char_pos(sp.lo()).line
    }

    fn block(&mut self, body: &Body<'tcx>, env: TypingEnv<'tcx>, data: &BasicBlockData<'tcx>) -> J {
        let tcx = self.tcx;
        let mut b = J::obj();
        if data.is_cleanup {
            b.set("cleanup", J::Bool(true));
        }
        let mut stmts = Vec::new();
        for st in &data.statements {
            match &st.kind {
                StatementKind::Assign(bx) => {
                    let (lhs, rv) = &**bx;
                    let mut o = J::obj();
                    o.set("k", J::s("assign"));
                    o.set("lhs", self.place(body, *lhs));
                    o.set("rv", self.rvalue(body, env, rv));
                    o.set("line", J::Num(self.line(st.source_info.span) as i128));
                    if st.source_info.span.from_expansion() {
                        o.set("x", J::Bool(true));
                    }
                    stmts.push(o);
                }
                StatementKind::SetDiscriminant { place, variant_index } => {
                    let mut o = J::obj();
                    o.set("k", J::s("setdiscr"));
                    o.set("lhs", self.place(body, **place));
                    o.set("variant", J::Num(variant_index.as_usize() as i128));
                    stmts.push(o);
                }
                StatementKind::StorageDead(l) => {
                    let mut o = J::obj();
                    o.set("k", J::s("dead"));
                    o.set("l", J::Num(l.as_usize() as i128));
                    stmts.push(o);
                }
                StatementKind::StorageLive(l) => {
                    let mut o = J::obj();
                    o.set("k", J::s("live"));
                    o.set("l", J::Num(l.as_usize() as i128));
                    stmts.push(o);
                }
                _ => {}
            }
        }
        b.set("stmts", J::Arr(stmts));
        let term = data.terminator();
        let mut t = J::obj();
        t.set("loc", self.loc(term.source_info.span));
        match &term.kind {
            TerminatorKind::Goto { target } => {
                t.set("k", J::s("goto"));
                t.set("t", J::Num(target.as_usize() as i128));
            }
            TerminatorKind::SwitchInt { discr, targets } => {
                t.set("k", J::s("switch"));
                t.set("discr", self.operand(body, env, discr));
                let dty = discr.ty(body, tcx);
                t.set("ty", J::s(&self.ty_s(dty)));
                let mut ts = Vec::new();
                for (v, bb) in targets.iter() {
                    ts.push(J::Arr(vec![
                        if v <= i128::MAX as u128 { J::Num(v as i128) } else { J::s(&format!("{}", v)) },
                        J::Num(bb.as_usize() as i128),
                    ]));
                }
                t.set("targets", J::Arr(ts));
                t.set("otherwise", J::Num(targets.otherwise().as_usize() as i128));
            }
            TerminatorKind::Return => {
                t.set("k", J::s("return"));
            }
            TerminatorKind::Unreachable => {
                t.set("k", J::s("unreachable"));
            }
            TerminatorKind::UnwindResume => {
                t.set("k", J::s("resume"));
            }
            TerminatorKind::UnwindTerminate(_) => {
                t.set("k", J::s("terminate"));
            }
            TerminatorKind::Drop { place, target, unwind, .. } => {
                t.set("k", J::s("drop"));
                t.set("place", self.place(body, *place));
                let pty = place.ty(body, tcx).ty;
                t.set("ty", J::s(&self.ty_s(pty)));
                t.set("t", J::Num(target.as_usize() as i128));
                if let mir::UnwindAction::Cleanup(bb) = unwind {
                    t.set("unwind", J::Num(bb.as_usize() as i128));
                }
            }
            TerminatorKind::Call { func, args, destination, target, unwind, fn_span, .. } => {
                t.set("k", J::s("call"));
                t.set("func", self.operand(body, env, func));
                t.set(
                    "args",
                    J::Arr(args.iter().map(|a| self.operand(body, env, &a.node)).collect()),
                );
                t.set("dest", self.place(body, *destination));
                match target {
                    Some(bb) => t.set("t", J::Num(bb.as_usize() as i128)),
                    None => t.set("t", J::Null),
                }
                if let mir::UnwindAction::Cleanup(bb) = unwind {
                    t.set("unwind", J::Num(bb.as_usize() as i128));
                }
                t.set("fn_loc", self.loc(*fn_span));
                t.set("src", J::s(&self.snippet(term.source_info.span)));
                // callee type for indirect calls
                if !matches!(func, Operand::Constant(_)) {
                    let fty = func.ty(body, tcx);
                    t.set("fn_ty", J::s(&self.ty_s(fty)));
                    let cl = self.closures_in(fty);
                    if !cl.is_empty() {
                        t.set("fn_cl", J::Arr(cl.iter().map(|c| J::s(c)).collect()));
                    }
                }
            }
            TerminatorKind::TailCall { func, args, .. } => {
                t.set("k", J::s("tailcall"));
                t.set("func", self.operand(body, env, func));
                t.set(
                    "args",
                    J::Arr(args.iter().map(|a| self.operand(body, env, &a.node)).collect()),
                );
            }
            TerminatorKind::Assert { cond, expected, msg, target, unwind } => {
                t.set("k", J::s("assert"));
                t.set("cond", self.operand(body, env, cond));
                t.set("expected", J::Bool(*expected));
                let kind = match &**msg {
                    mir::AssertKind::BoundsCheck { len, index } => {
                        t.set("len", self.operand(body, env, len));
                        t.set("index", self.operand(body, env, index));
                        "BoundsCheck".to_string()
                    }
                    mir::AssertKind::Overflow(op, a, b2) => {
                        t.set("a", self.operand(body, env, a));
                        t.set("b", self.operand(body, env, b2));
                        format!("Overflow:{:?}", op)
                    }
                    mir::AssertKind::OverflowNeg(_) => "OverflowNeg".to_string(),
                    mir::AssertKind::DivisionByZero(_) => "DivisionByZero".to_string(),
                    mir::AssertKind::RemainderByZero(_) => "RemainderByZero".to_string(),
                    mir::AssertKind::ResumedAfterReturn(_) => "ResumedAfterReturn".to_string(),
                    mir::AssertKind::ResumedAfterPanic(_) => "ResumedAfterPanic".to_string(),
                    other => {
                        let s = format!("{:?}", other);
                        s.split(|c: char| !c.is_alphanumeric()).next().unwrap_or("Other").to_string()
                    }
                };
                t.set("msg", J::s(&kind));
                t.set("t", J::Num(target.as_usize() as i128));
                if let mir::UnwindAction::Cleanup(bb) = unwind {
                    t.set("unwind", J::Num(bb.as_usize() as i128));
                }
            }
            TerminatorKind::Yield { value, resume, resume_arg, drop } => {
                t.set("k", J::s("yield"));
                t.set("value", self.operand(body, env, value));
                t.set("t", J::Num(resume.as_usize() as i128));
                t.set("resume_arg", self.place(body, *resume_arg));
                if let Some(d) = drop {
                    t.set("drop", J::Num(d.as_usize() as i128));
                }
            }
            TerminatorKind::CoroutineDrop => {
                t.set("k", J::s("coroutine_drop"));
            }
            TerminatorKind::FalseEdge { real_target, .. } => {
                t.set("k", J::s("goto"));
                t.set("t", J::Num(real_target.as_usize() as i128));
            }
            TerminatorKind::FalseUnwind { real_target, .. } => {
                t.set("k", J::s("goto"));
                t.set("t", J::Num(real_target.as_usize() as i128));
            }
            TerminatorKind::InlineAsm { .. } => {
                t.set("k", J::s("asm"));
                self.unsafe_blocks += 1;
            }
        }
        b.set("term", t);
        b
    }

    fn dump_adts(&self) -> J {
        let tcx = self.tcx;
        let mut arr = Vec::new();
        for id in tcx.hir_crate_items(()).definitions() {
            let did = id.to_def_id();
            let kind = tcx.def_kind(did);
            if !matches!(kind, DefKind::Struct | DefKind::Enum | DefKind::Union) {
                continue;
            }
            let adt = tcx.adt_def(did);
            let mut o = J::obj();
            o.set("id", J::s(&uniq_path(tcx, did)));
            o.set("name", J::s(&tcx.def_path_str(did)));
            o.set("kind", J::s(&format!("{:?}", kind)));
            o.set("loc", self.loc(tcx.def_span(did)));
            let mut vs = Vec::new();
            for v in adt.variants().iter() {
                let mut vo = J::obj();
                vo.set("name", J::s(v.name.as_str()));
                let mut fs = Vec::new();
                for f in v.fields.iter() {
                    let mut fo = J::obj();
                    fo.set("name", J::s(f.name.as_str()));
                    let fty = tcx.type_of(f.did).instantiate_identity().skip_normalization();
                    fo.set("ty", J::s(&self.ty_s(fty)));
                    fo.set("vis", J::s(&format!("{:?}", f.vis)));
                    fs.push(fo);
                }
                vo.set("fields", J::Arr(fs));
                vs.push(vo);
            }
            o.set("variants", J::Arr(vs));
            arr.push(o);
        }
        J::Arr(arr)
    }

    fn dump_impls(&self) -> J {
        let tcx = self.tcx;
        let mut arr = Vec::new();
        for id in tcx.hir_crate_items(()).definitions() {
            let did = id.to_def_id();
            if !matches!(tcx.def_kind(did), DefKind::Impl { .. }) {
                continue;
            }
            let mut o = J::obj();
            o.set("id", J::s(&uniq_path(tcx, did)));
            let self_ty = tcx.type_of(did).instantiate_identity().skip_normalization();
            o.set("self_ty", J::s(&self.ty_s(self_ty)));
            if let Some(adt) = self_ty.ty_adt_def() {
                o.set("self_adt", J::s(&uniq_path(tcx, adt.did())));
            }
            if let Some(tr) = tcx.impl_opt_trait_ref(did) {
                let tr = tr.instantiate_identity().skip_normalization();
                o.set("trait", J::s(&tcx.def_path_str(tr.def_id)));
                o.set("trait_ref", J::s(&format!("{}", tr)));
            }
            o.set("loc", self.loc(tcx.def_span(did)));
            let items: Vec<J> = tcx
                .associated_items(did)
                .in_definition_order()
                .map(|it| {
                    let mut io = J::obj();
                    io.set("name", J::s(&tcx.opt_item_name(it.def_id).map(|n| n.to_string()).unwrap_or_default()));
                    io.set("id", J::s(&uniq_path(tcx, it.def_id)));
                    io.set("kind", J::s(&format!("{:?}", tcx.def_kind(it.def_id))));
                    io
                })
                .collect();
            o.set("items", J::Arr(items));
            arr.push(o);
        }
        J::Arr(arr)
    }

    fn dump_consts(&self) -> J {
        let tcx = self.tcx;
        let mut arr = Vec::new();
        for id in tcx.hir_crate_items(()).definitions() {
            let did = id.to_def_id();
            let kind = tcx.def_kind(did);
            let is_const = matches!(kind, DefKind::Const { .. } | DefKind::AssocConst { .. });
            let is_static = matches!(kind, DefKind::Static { .. });
            if !is_const && !is_static {
                continue;
            }
            let mut o = J::obj();
            o.set("id", J::s(&uniq_path(tcx, did)));
            o.set("name", J::s(&tcx.def_path_str(did)));
            o.set("kind", J::s(if is_const { "const" } else { "static" }));
            o.set("loc", self.loc(tcx.def_span(did)));
            let ty = tcx.type_of(did).instantiate_identity().skip_normalization();
            o.set("ty", J::s(&self.ty_s(ty)));
            if is_const {
                // skip generic consts
                if tcx.generics_of(did).count() == 0 {
                    if let Ok(cv) = tcx.const_eval_poly(did) {
                        self.const_val(cv, ty, &mut o);
                    }
                }
            } else if let Ok(alloc) = tcx.eval_static_initializer(did) {
                let alloc = alloc.inner();
                let len = alloc.len();
                if len <= 16384 {
                    let bytes = alloc.inspect_with_uninit_and_ptr_outside_interpreter(0..len);
                    o.set("hex", J::s(&hex(bytes)));
                    let mut ptrs = Vec::new();
                    for (off, prov) in alloc.provenance().ptrs().iter() {
                        let mut po = J::obj();
                        po.set("off", J::Num(off.bytes() as i128));
                        po.set("to", self.alloc_j(prov.alloc_id(), 1));
                        ptrs.push(po);
                    }
                    if !ptrs.is_empty() {
                        o.set("ptrs", J::Arr(ptrs));
                    }
                }
            }
            arr.push(o);
        }
        J::Arr(arr)
    }
}

fn hex(b: &[u8]) -> String {
    let mut s = String::with_capacity(b.len() * 2);
    for x in b {
        s.push_str(&format!("{:02x}", x));
    }
    s
}

fn main() {
    let mut args: Vec<String> = std::env::args().collect();
    // wrapper mode: argv[1] is the path of rustc
    if args.len() > 1 && (args[1].ends_with("rustc") || args[1].contains("/rustc")) {
        args.remove(1);
    }
    let mut cb = Cb { early: Default::default() };
    rustc_driver::catch_with_exit_code(|| rustc_driver::run_compiler(&args, &mut cb));
}
