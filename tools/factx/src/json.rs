// minimal JSON value + writer (no dependencies)
pub enum J {
    Null,
    Bool(bool),
    Num(i128),
    Str(String),
    Arr(Vec<J>),
    Obj(Vec<(String, J)>),
    Raw(String),
}

impl J {
    pub fn obj() -> J {
        J::Obj(Vec::new())
    }
    pub fn s(s: &str) -> J {
        J::Str(s.to_string())
    }
    pub fn set(&mut self, k: &str, v: J) {
        if let J::Obj(o) = self {
            o.push((k.to_string(), v));
        }
    }
    pub fn to_string(&self) -> String {
        let mut s = String::new();
        self.write(&mut s);
        s
    }
    fn esc(s: &str, out: &mut String) {
        out.push('"');
        for c in s.chars() {
            match c {
                '"' => out.push_str("\\\""),
                '\\' => out.push_str("\\\\"),
                '\n' => out.push_str("\\n"),
                '\r' => out.push_str("\\r"),
                '\t' => out.push_str("\\t"),
                c if (c as u32) < 0x20 => out.push_str(&format!("\\u{:04x}", c as u32)),
                c => out.push(c),
            }
        }
        out.push('"');
    }
    fn write(&self, out: &mut String) {
        match self {
            J::Null => out.push_str("null"),
            J::Bool(b) => out.push_str(if *b { "true" } else { "false" }),
            J::Num(n) => out.push_str(&format!("{}", n)),
            J::Str(s) => J::esc(s, out),
            J::Raw(s) => out.push_str(s),
            J::Arr(a) => {
                out.push('[');
                for (i, x) in a.iter().enumerate() {
                    if i > 0 {
                        out.push(',');
                    }
                    x.write(out);
                }
                out.push(']');
            }
            J::Obj(o) => {
                out.push('{');
                for (i, (k, v)) in o.iter().enumerate() {
                    if i > 0 {
                        out.push(',');
                    }
                    J::esc(k, out);
                    out.push(':');
                    v.write(out);
                }
                out.push('}');
            }
        }
    }
}
