"""C05 — a rejected indexer call changes nothing; the block protocol is enforced."""
from report import Report
import enginerules as ER
from c10 import classify_methods


def run(ctx):
    R = Report("C05", ctx.tier, "other", "dominance of validators over inferred mutation sites; GUARD rows; path counting on the drain loop")
    F = ctx.facts()
    CG = ctx.cg()
    R.explanation = (
        "For every engine entry with a direct state mutation (a write-lock closure whose effect closure writes a state "
        "container), a validator call (validate_next_tx / require_no_waiting_txes, or a call to an engine method already shown "
        "to validate) dominates it and its error is propagated; the validators contain the statement's rows (index, timestamp, "
        "hash, existing number, existing hash) as guard normal forms leading to Err and are effect free; select_bytes accepts "
        "exactly one encoding; decoders dominate the engine call in every write handler; on every path round the pending-pool "
        "drain loop #executed == #tx_idx increments == #receipts. Bit-identity of state after an I/O error mid-call is NOT decided.")
    R.trusted = ["rustc resolution/MIR (A1)", "effect inference (EFFECT) for what counts as a mutation site"]
    methods, deny, read, write = classify_methods(F)
    ER.clause_validate_before_mutate(R, F, CG)
    ER.clause_validator_rows(R, F)
    # "commit or reorg while a block is under construction is always rejected": also when the call would change nothing (a
    # reorg to the current height) - every success path of the two operations passes the boundary validator, not only the
    # paths that write
    from tablerules import must_pass_on_success as _mpos
    em_ = ER.engine_methods(F)
    n_bv = 0
    for opn in ("reorg", "commit_to_db"):
        f_ = em_.get(opn)
        if f_ is None:
            continue
        vnames = set(ER.VALIDATORS) | set(ER.discovered_validators(F, em_))
        vcalls = [c for c in f_.calls() if not f_.is_cleanup(c.bb) and (c.method or "") in vnames and ER.err_propagated(f_, c)]
        n_bv += 1
        ok_v = bool(vcalls) and _mpos(f_, [c.bb for c in vcalls])
        if not ok_v:
            # the guard written in place (`if waiting_tx_count != 0 { return Err }`): its passing edge dominates every return
            from terms import edge_dominates as _ed
            ges = list(ER._waiting_guard_edges(f_))
            eb5 = set(f_.error_blocks())
            rets = [rb for rb in f_.return_blocks() if rb not in eb5]
            ok_v = bool(ges) and bool(rets) and all(any(_ed(f_, e, rb) for e in ges) for rb in rets)
        R.ob(ok_v, "DOM-all", f_.where(), "DOM-all|%s|boundary-validator" % opn,
             "%s can return Ok without having passed the block-boundary validator: a call made while a block is under construction is "
             "accepted on that path (it may change nothing, but the caller is told the chain is at a boundary)" % opn,
             sample={"rule": "DOM-all", "fn": opn, "step": "require_no_waiting_txes()? on every success path"})
    R.floor("boundary_validated_operations", n_bv, 2)
    ER.clause_select_bytes(R, F)
    ER.clause_decode_before_mutate(R, F, write)
    ER.clause_drain_pairing(R, F)
    # the protocol checks compare against waiting_tx_count: every transaction that occupies an index in the block (whatever its
    # outcome - success, revert, halted, refused by revm's validation) advances that count by exactly one, on every path of the
    # update closure; otherwise the next call with a reused index, or a commit / reorg in the middle of the block, is accepted
    from guards import lin
    from terms import rvalue_origin
    from tablerules import must_pass_on_success
    upd = []
    for g in ER.operation_bodies(F, "add_tx_to_block"):
        hits = [(bi, rvalue_origin(g, st["rv"], 0, frozenset(), 30)) for bi, b in enumerate(g.blocks) for st in b["stmts"]
                if st["k"] == "assign" and st["lhs"].get("p") and st["lhs"]["p"][-1] == ".waiting_tx_count" and len(st["lhs"]["p"]) == 2]
        hits = [(bi, v) for (bi, v) in hits if "waiting_tx_count" in ER._field_reads(v)]     # updates, not the per-block reset to 0
        if hits:
            upd.append((g, hits))
    R.floor("tx_count_update_bodies", len(upd), 1)
    for g, hits in upd:
        R.ob(must_pass_on_success(g, [bi for bi, _ in hits]), "DOM-all", g.where(), "DOM-all|counters|.waiting_tx_count",
             "waiting_tx_count is advanced on some paths only (e.g. only when the execution output is Ok): a transaction that took an index "
             "is not counted, so the block-protocol checks work from a stale count", sample={"rule": "DOM-all", "closure": g.name[-40:], "field": ".waiting_tx_count"})
        l = lin(hits[0][1])
        R.ob(l.k == 1 and len(l.terms) == 1, "WIRE", g.where(), "WIRE|counters|tx-count", "waiting_tx_count is not advanced by exactly one")
    # a refused reorg changes nothing: the database's own window refusal comes before the first table is rolled back
    import tablerules as T
    T.clause_reorg_order(R, F)
    return R
