"""C05 — a rejected indexer call changes nothing; the block protocol is enforced."""
from report import Report
import enginerules as ER
from c10 import classify_methods


def run(ctx):
    R = Report("C05", ctx.tier, "other", "dominance of validators over inferred mutation sites; GUARD rows; path counting on the drain loop")
    F = ctx.facts()
    CG = ctx.cg()
    R.explanation = (
        "For every engine entry with a direct state mutation (a write-lock closure whose effect closure writes a state "
        "container), a validator call (validate_next_tx / require_no_waiting_txes, or a call to an engine method already shown "
        "to validate) dominates it and its error is propagated; the validators contain the statement's rows (index, timestamp, "
        "hash, existing number, existing hash) as guard normal forms leading to Err and are effect free; select_bytes accepts "
        "exactly one encoding; decoders dominate the engine call in every write handler; on every path round the pending-pool "
        "drain loop #executed == #tx_idx increments == #receipts. Bit-identity of state after an I/O error mid-call is NOT decided.")
    R.trusted = ["rustc resolution/MIR (A1)", "effect inference (EFFECT) for what counts as a mutation site"]
    methods, deny, read, write = classify_methods(F)
    ER.clause_validate_before_mutate(R, F, CG)
    ER.clause_validator_rows(R, F)
    ER.clause_select_bytes(R, F)
    ER.clause_decode_before_mutate(R, F, write)
    ER.clause_drain_pairing(R, F)
    return R
