"""C04 — a crash at any write can be recovered exactly by a reorg to a durable height."""
from report import Report
import tablerules as T
import windowrules as W


def run(ctx):
    R = Report("C04", ctx.tier, "other", "DOM-order / DOM-all / WIRE rules over the commit and rollback MIR")
    F = ctx.facts()
    CG = ctx.cg()
    R.explanation = (
        "The write-ordering obligations recovery rests on: per key the history row (cache_db) is written before the latest "
        "row (db) within the same iteration; commit_changes makes the height table durable before any state table (global "
        "flush first, caches dropped last); BlockDatabase::commit flushes after its puts; BlockDatabase::reorg bounds its "
        "delete loop by its own last key starting at N+1; BlockCachedDatabase::reorg re-reads every persisted history and "
        "every cached key then commits; D::reorg visits every table before committing and rolls the height table back only after every state table (so a crash inside the reorg can be repaired by repeating it). What the database contains after a "
        "crash (RocksDB atomicity, WAL) and equality with a fresh replay are NOT decided.")
    R.trusted = ["rustc resolution/MIR (A1)", "a single RocksDB put/delete is atomic and WAL-durable for process crashes (A3)"]
    T.clause_commit_per_key(R, F)
    T.clause_commit_order(R, F)
    T.clause_blockdb_commit(R, F)
    W.clause_blockdb_reorg(R, F)
    W.clause_table_reorg_visits_all(R, F, crash_clause=True)
    T.clause_tables(R, F, "reorg")
    T.clause_tables(R, F, "commit_changes")
    T.clause_reorg_order(R, F)
    T.clause_reorg_height_last(R, F)
    # after a reopen the rollback works from the persisted histories: loaded unconditionally, pruned only outside the window
    import windowrules as W2
    W2.clause_history_window(R, F)
    T.clause_retrieve_cache(R, F)
    return R
