"""C16 — gas allowance follows inscription size and gas estimates are sufficient (wiring only)."""
from guards import edge_forms, lin
from report import Report
from terms import origin, show, mentions, calls_in
import wire as W
import enginerules as ER
import roles


def run(ctx):
    R = Report("C16", ctx.tier, "other", "WIRE/GUARD/DOM rules on the gas-limit helpers and the estimate bisection (weakest claim: wiring only)")
    F = ctx.facts()
    R.explanation = (
        "Only the wiring is decided: tx.gas_limit of an executed transaction is get_gas_limit(inscription_byte_len) = "
        "saturating_mul by the constant GAS_PER_BYTE (=12000); its inverse for parked transactions is saturating_div by the same "
        "constant; deposits/withdrawals/genesis pass u64::MAX (saturates). Bisection shape in eth_estimateGas(+Many): loop guard "
        "`lower + GAS_PER_BYTE < upper`, both updates move a bound to mid / mid+1, the value returned is the upper bound, a final "
        "confirmation read_contract with the estimate follows the loop and its status controls Ok, the height re-check precedes "
        "the return. 'Gas used never exceeds the allowance', out-of-gas atomicity and sufficiency of the estimate are revm/program "
        "value properties and are NOT decided.")
    R.trusted = ["rustc resolution/MIR (A1)", "revm enforces tx.gas_limit (A3)"]
    gl = F.fn_opt("engine::utils::get_gas_limit")
    gi = F.fn_opt("engine::utils::get_inscription_byte_len")
    for fn, op in ((gl, "saturating_mul"), (gi, "saturating_div")):
        if fn is None:
            R.violation("ANCHOR", "src/engine/utils.rs", "ANCHOR|%s" % op, "gas helper missing")
            continue
        cs = [c for c in fn.calls() if (c.method or (c.target_path or "").split("::")[-1]) == op]
        ok = len(cs) == 1
        if ok:
            a, b = origin(fn, cs[0].args[0]), origin(fn, cs[0].args[1])
            ok = W.strip(a)[0] == "param" and b[0] == "const" and b[1] == 12000 and b[2] and b[2].endswith("GAS_PER_BYTE")
        R.ob(ok, "WIRE", fn.where(), "WIRE|%s" % fn.name.split("::")[-1], "%s is not `param.%s(GAS_PER_BYTE = 12000)`" % (fn.name.split("::")[-1], op),
             sample={"rule": "WIRE", "fn": fn.name.split("::")[-1], "row": "%s(param, GAS_PER_BYTE=12000)" % op})
    # who calls get_inscription_byte_len: only the drain path, on the stored gas
    from facts import is_private_helper
    em0 = ER.engine_methods(F)
    ubodies = list(em0.values()) + [f for f in F.body_fns() if not f.name.startswith("engine::engine::BRC20ProgEngine::") or (f.kind != "method")]
    ubodies = [f for f in ubodies if not (f.kind in ("method", "fn") and is_private_helper(f) and f.name.startswith("engine::engine::"))]
    users = [(f, c) for f in F.host_units() for c in f.calls() if gi and c.target_id == gi.id and not f.is_cleanup(c.bb)]
    R.ob(len(users) == 1 and users[0][0].name.endswith("add_raw_tx_to_block") and mentions(origin(users[0][0], users[0][1].args[0]), ".gas"), "WIRE", gi.where(),
         "WIRE|get_inscription_byte_len|users", "the inverse helper is used outside the parked-transaction path", sample={"rule": "WIRE", "users": [u[0].name for u in users]})
    # an executed transaction runs with exactly its allowance: the gas limit stored into the EVM's TxEnv on the execution path is
    # get_gas_limit(inscription_byte_len) itself - not a floor (`.max(21000)`), a cap or a multiple of it
    atb_ = ER.engine_methods(F).get("add_tx_to_block")
    n_gl = 0
    if atb_ is not None:
        for g_ in [atb_] + list(F.descendants(atb_.id)):
            for path_, sts_ in W.field_stores(g_).items():
                if not path_.endswith(".gas_limit") or ".block" in path_:
                    continue
                for (_bb, t_) in sts_:
                    n_gl += 1
                    rt_ = W.strip(W.resolve(F, g_, t_))
                    exact = rt_[0] == "call" and rt_[1].split("::")[-1] == "get_gas_limit" and len(rt_[2]) == 1 and \
                        W.strip(rt_[2][0])[0] == "param" and (W.strip(rt_[2][0])[2] or "") == "inscription_byte_len"
                    R.ob(exact, "WIRE", g_.where(), "WIRE|execute|gas-limit-exact",
                         "the executed transaction's gas limit is `%s`, not get_gas_limit(inscription_byte_len) itself: a transaction can spend gas its "
                         "inscription did not pay for (or less than it paid for)" % show(rt_)[:100],
                         sample={"rule": "WIRE", "site": "add_tx_to_block", "tx.gas_limit": "get_gas_limit(inscription_byte_len)"})
    R.floor("executed_tx_gas_limit_stores", n_gl, 1)
    # parked tx stores gas = get_gas_limit(len)
    em = ER.engine_methods(F)
    art = em["add_raw_tx_to_block"]
    okp = False
    for g in [art] + F.descendants(art.id):
        for c in g.calls():
            if c.path and c.path.endswith("TxED::new") and not g.is_cleanup(c.bb):
                names = F.fns[c.target_id].j.get("param_names") if c.target_id in F.fns else None
                if names and "gas" in names:
                    t = W.resolve(F, g, origin(g, c.args[names.index("gas")]))
                    okp = mentions(t, "get_gas_limit")
    R.ob(okp, "WIRE", art.where(), "WIRE|park|gas", "a parked transaction does not store get_gas_limit(inscription_byte_len) as its gas", sample={"rule": "WIRE", "site": "park", "gas": "get_gas_limit(byte_len)"})
    # deposits / withdrawals / genesis pass u64::MAX
    atb = em["add_tx_to_block"]
    idx = atb.j["param_names"].index("inscription_byte_len")
    nmax = 0
    for f in F.host_units():
        for c in f.calls():
            if c.target_id == atb.id and not f.is_cleanup(c.bb):
                t = W.strip(origin(f, c.args[idx]))
                if t[0] == "const" and t[1] == 18446744073709551615:
                    nmax += 1
    R.ob(nmax == 3, "WIRE", atb.where(), "WIRE|u64-max-callers", "expected exactly deposit, withdraw and genesis to run with u64::MAX inscription length, found %d" % nmax,
         sample={"rule": "WIRE", "row": "deposit/withdraw/genesis -> u64::MAX (saturates)", "count": nmax})
    # precompile results: success kinds pay what was recorded, failure kinds consume everything that was forwarded.  A
    # *refunding* failure (Revert and its class) makes a precompile call cheaper when it fails than when it succeeds: success
    # of the enclosing call is then not monotone in the gas limit and the bisection behind eth_estimateGas can settle in a
    # cheap window below a failing band.
    PAYING = {"Stop", "Return", "OutOfGas", "PrecompileError", "PrecompileOOG", "MemoryOOG", "MemoryLimitOOG", "InvalidOperandOOG", "FatalExternalError"}
    kinds = {}
    for f in F.body_fns():
        if "::tests::" in f.name or "precompile" not in f.name.lower():
            continue
        for bi, b in enumerate(f.blocks):
            if f.is_cleanup(bi):
                continue
            for st in b["stmts"]:
                if st["k"] == "assign" and st["rv"]["k"] == "agg" and (st["rv"].get("adt") or "").endswith("InstructionResult"):
                    kinds.setdefault(st["rv"].get("variant"), []).append((f, st.get("line")))
    R.floor("precompile_result_kinds", len(kinds), 3)
    for v, where in sorted(kinds.items()):
        f, line = where[0]
        R.ob(v in PAYING, "GAS", "%s:%s" % (f.loc["f"], line), "GAS|precompile-result-kind|%s" % v,
             "a precompile produces InstructionResult::%s (in %s): a failing precompile call that hands the unspent gas back is cheaper than a "
             "succeeding one, so whether the caller succeeds is no longer monotone in the gas limit and eth_estimateGas can return an "
             "insufficient figure" % (v, f.name.split("::")[-1]), sample={"rule": "GAS result kinds", "kind": v, "sites": len(where)})
    # "submitting the same call as a transaction ... succeeds": the probes and the confirmation run execute under the rules of
    # the block the transaction will be in - the next one - not of the latest finalised block (the height selects the EVM spec,
    # hence the intrinsic-gas rules).  The same row as C17's, recorded here because a sufficient estimate depends on it
    from terms import mentions_deep
    em_ = ER.engine_methods(F)
    ge_ = F.fn_opt("engine::evm::get_evm")
    n_h = 0
    if ge_ is not None:
        pn_ = ge_.j.get("param_names") or []
        for name in ("read_contract", "read_contract_multi"):
            top = em_.get(name)
            if top is None or "block_number" not in pn_:
                continue
            for g in [top] + F.descendants(top.id):
                for c in g.calls():
                    if c.target_id != ge_.id or g.is_cleanup(c.bb):
                        continue
                    n_h += 1
                    bn = W.resolve(F, g, origin(g, c.args[pn_.index("block_number")]))
                    R.ob(mentions_deep(F, bn, "get_next_block_height") and not mentions_deep(F, bn, "get_latest_block_height"), "SIBLING", c.where(),
                         "SIBLING|%s|estimate-height" % name, "%s simulates at `%s`: the estimate is computed under the rules of another block than the one the "
                         "transaction will run in" % (name, show(bn)[:80]), sample={"rule": "SIBLING", "site": name, "block_number": show(bn)[:70]})
    R.floor("simulation_height_sites", n_h, 2)
    # bisection shape
    for hname in ("eth_estimateGas", "eth_estimateGasMany"):
        hs = [h for (n, ms, hh, c) in roles.rpc_methods(F) if n == hname for h in hh]
        for h in hs:
            # the handler's own async body (not the body of a private async helper it awaits - that one is found from it below)
            bodies = [d for d in F.descendants(h) if d.j.get("root") == h and any((c.method or "") in ("read_contract", "read_contract_multi") for c in d.calls())]
            R.ob(len(bodies) == 1, "ANCHOR", F.fns[h].where(), "ANCHOR|%s" % hname, "%s body not found" % hname)
            for d in bodies:
                _bisection(R, F, F.inlined(d), hname)     # private helpers of the server (block-number parsing, height re-check) read in place
    return R


def _find_guard(d):
    guard = None
    for (b, s, fm, line) in edge_forms(d):
        if fm.rel == "<=" and any("GAS_PER_BYTE" in c for c in fm.lin.consts) and len(fm.lin.terms) == 2 and fm.lin.k == 12001:
            guard = (b, s, fm, line)
    return guard


def _awaited_private(F, d):
    """[(the poll call in d, the awaited body)] for private async helpers of the same type that d awaits: `self.helper(..).await`
    polls the helper's coroutine body, which the facts resolve as the callee of the poll"""
    from facts import is_private_helper
    out = []
    for c in d.calls():
        g = F.fns.get(c.target_id) if c.target_id else None
        if g is None or g.kind != "coroutine" or d.is_cleanup(c.bb) or g.id == d.id:
            continue
        root = F.fns.get(g.j.get("root")) or g
        if is_private_helper(root):
            out.append((c, F.inlined(g)))
    return out


def _bisection(R, F, d, hname):
    from unord import Unord
    # the loop guard: lower + GAS_PER_BYTE - upper < 0  <=>  lower - upper + 12000 + 1 <= 0
    guard = _find_guard(d)
    if guard is None:
        # the search loop moved into a private async helper (`self.bisect_gas_limit(..).await`): the loop rules are read in the
        # helper's body, the confirmation / re-check / returned-figure rules in the handler, after the await
        for (pc, hv) in _awaited_private(F, d):
            if _find_guard(hv) is not None:
                return _bisection_split(R, F, d, pc, hv, hname)
    loops = Unord(F, None).natural_loops(d)
    R.ob(guard is not None, "GUARD", d.where(), "GUARD|%s|loop" % hname, "%s: bisection does not continue while `lower + GAS_PER_BYTE < upper`" % hname,
         sample={"rule": "GUARD", "fn": hname, "row": "lower - upper + 12000 + 1 <= 0 => continue"})
    if guard is None:
        return
    b = guard[0]
    head = [h for h, body in loops.items() if b in body]
    R.ob(bool(head), "GUARD", d.where(), "GUARD|%s|loop-is-loop" % hname, "bisection guard is not inside a loop")
    if not head:
        return
    body = loops[min(head, key=lambda h: len(loops[h]))]
    # calls to read_contract*: at least one in the loop and at least one after it (final confirmation)
    rc = [c for c in d.calls() if (c.method or "") in ("read_contract", "read_contract_multi") and not d.is_cleanup(c.bb)]
    inside = [c for c in rc if c.bb in body]
    enclosing = set()
    for h, bd in loops.items():
        if b in bd:
            enclosing |= bd
    reach_from_guard = d.reachable(b)
    after = [c for c in rc if c.bb not in enclosing and c.bb in reach_from_guard]
    R.ob(bool(inside), "DOM", d.where(), "DOM|%s|probe" % hname, "no simulation inside the bisection loop")
    R.ob(bool(after), "DOM-all", d.where(), "DOM-all|%s|final-confirmation" % hname, "%s returns an estimate without a final confirmation run after the bisection" % hname,
         sample={"rule": "DOM-all", "fn": hname, "step": "final read_contract(estimate)"})
    _returned_is_confirmed(R, F, d, hname, after)
    # updates: mid and mid+1, mid = (lower+upper)/2
    mids = 0
    for bi in body:
        for s in d.blocks[bi]["stmts"]:
            if s["k"] == "assign" and s["rv"]["k"] == "bin" and s["rv"]["op"].startswith("Div"):
                from terms import rvalue_origin
                t = rvalue_origin(d, s["rv"], 0, frozenset(), 12)
                if t[3][0] == "const" and t[3][1] == 2:
                    mids += 1
    R.ob(mids >= 1, "GUARD", d.where(), "GUARD|%s|midpoint" % hname, "the probe is not the midpoint (lower + upper) / 2", sample={"rule": "GUARD", "fn": hname, "row": "mid = (lower+upper)/2"})
    # height re-check precedes Ok return: a second parse_block_number after the final confirmation, compared with the first
    pb = [c for c in d.calls() if (c.method or "") == "parse_block_number" and not d.is_cleanup(c.bb)]
    R.ob(len(pb) >= 2 and any(d.sdominates(a.bb, c.bb) and a.bb != c.bb for a in after for c in pb), "DOM-order", d.where(), "DOM-order|%s|height-recheck" % hname,
         "%s does not re-read the block height after the final confirmation" % hname, sample={"rule": "DOM-order", "fn": hname, "step": "height re-check after confirmation"})


def _bisection_split(R, F, d, pc, hv, hname):
    from unord import Unord
    loops = Unord(F, None).natural_loops(hv)
    guard = _find_guard(hv)
    R.ob(guard is not None, "GUARD", hv.where(), "GUARD|%s|loop" % hname, "%s: bisection does not continue while `lower + GAS_PER_BYTE < upper`" % hname,
         sample={"rule": "GUARD", "fn": hname, "row": "lower - upper + 12000 + 1 <= 0 => continue", "in": hv.name[-40:]})
    b = guard[0]
    head = [h for h, body in loops.items() if b in body]
    R.ob(bool(head), "GUARD", hv.where(), "GUARD|%s|loop-is-loop" % hname, "bisection guard is not inside a loop")
    if not head:
        return
    body = loops[min(head, key=lambda h: len(loops[h]))]
    rc_h = [c for c in hv.calls() if (c.method or "") in ("read_contract", "read_contract_multi") and not hv.is_cleanup(c.bb)]
    inside = [c for c in rc_h if c.bb in body]
    rc = [c for c in d.calls() if (c.method or "") in ("read_contract", "read_contract_multi") and not d.is_cleanup(c.bb)]
    after = [c for c in rc if d.sdominates(pc.bb, c.bb) and c.bb != pc.bb]
    R.ob(bool(inside), "DOM", hv.where(), "DOM|%s|probe" % hname, "no simulation inside the bisection loop")
    R.ob(bool(after), "DOM-all", d.where(), "DOM-all|%s|final-confirmation" % hname, "%s returns an estimate without a final confirmation run after the bisection" % hname,
         sample={"rule": "DOM-all", "fn": hname, "step": "final read_contract(estimate) after the awaited search"})
    _returned_is_confirmed(R, F, d, hname, after)
    mids = 0
    for bi in body:
        for s in hv.blocks[bi]["stmts"]:
            if s["k"] == "assign" and s["rv"]["k"] == "bin" and s["rv"]["op"].startswith("Div"):
                from terms import rvalue_origin
                t = rvalue_origin(hv, s["rv"], 0, frozenset(), 12)
                if t[3][0] == "const" and t[3][1] == 2:
                    mids += 1
    R.ob(mids >= 1, "GUARD", hv.where(), "GUARD|%s|midpoint" % hname, "the probe is not the midpoint (lower + upper) / 2", sample={"rule": "GUARD", "fn": hname, "row": "mid = (lower+upper)/2"})
    pb = [c for c in d.calls() if (c.method or "") == "parse_block_number" and not d.is_cleanup(c.bb)]
    R.ob(len(pb) >= 2 and any(d.sdominates(a.bb, c.bb) and a.bb != c.bb for a in after for c in pb), "DOM-order", d.where(), "DOM-order|%s|height-recheck" % hname,
         "%s does not re-read the block height after the final confirmation" % hname, sample={"rule": "DOM-order", "fn": hname, "step": "height re-check after confirmation"})


INT_TYPES = {"u8", "u16", "u32", "u64", "u128", "usize", "i8", "i16", "i32", "i64", "i128", "isize"}


def _returned_is_confirmed(R, F, d, hname, after):
    """the figure handed back is the figure the final confirmation run was given: between that run and the return,
    nothing integer-valued is computed into the hex-formatted result, and every named integer variable the result is
    sliced from also feeds the confirmation's gas argument"""
    from looprule import backward_locals
    if not after:
        return
    sinks_all = [c for c in d.calls() if (c.path or "").endswith("::new_lower_hex") and "Argument" in (c.path or "") and not d.is_cleanup(c.bb)]
    cf = None
    for a in after:
        if any(d.sdominates(a.bb, c.bb) and a.bb != c.bb for c in sinks_all):
            cf = a
    sinks = [c for c in sinks_all if cf is not None and d.sdominates(cf.bb, c.bb) and cf.bb != c.bb]
    # `figures.into_iter().map(|gas| format!("0x{:x}", gas))`: the formatting sits in a closure handed to an iterator adapter;
    # the adapter call is the sink, what it iterates is what is returned, and the closure itself must not compute
    cl_bad = []
    adapter_sinks = []
    if not sinks:
        for g in F.descendants(d.id):
            if g.kind != "closure":
                continue
            gs = [c for c in g.calls() if (c.path or "").endswith("::new_lower_hex") and "Argument" in (c.path or "") and not g.is_cleanup(c.bb)]
            if not gs:
                continue
            for c in d.calls():
                if g.id in ((c.func or {}).get("arg_cl") or []) and not d.is_cleanup(c.bb):
                    adapter_sinks.append(c)
                    for x in gs:
                        for l in sorted(backward_locals(g, x.args[0]) if x.args and "l" in x.args[0] else ()):
                            ty = (g.local_ty(l) or "")
                            for (bb, idx, kind, payload) in g.defs().get(l, []):
                                if g.is_cleanup(bb):
                                    continue
                                if (payload.get("k") == "assign" and payload["rv"]["k"] in ("bin", "un") and ty.lstrip("(").split(",")[0] in INT_TYPES) or \
                                        (payload.get("k") == "call" and ty in INT_TYPES):
                                    cl_bad.append((l, payload.get("line") or (payload.get("loc") or {}).get("l")))
        for a in after:
            if any(d.sdominates(a.bb, c.bb) and a.bb != c.bb for c in adapter_sinks):
                cf = a
        sinks = [c for c in adapter_sinks if cf is not None and d.sdominates(cf.bb, c.bb) and cf.bb != c.bb]
    R.ob(bool(sinks), "ANCHOR", d.where(), "ANCHOR|%s|hex-result" % hname, "%s: no hex-formatted figure is produced after the final confirmation run" % hname)
    if not sinks:
        return
    S = set()
    for c in sinks:
        if c.args and "l" in c.args[0]:
            S |= backward_locals(d, c.args[0])
    gas_arg = None
    tgt = F.fns.get(cf.target_id) if cf.target_id else None
    pn = (tgt.j.get("param_names") or []) if tgt is not None else []
    if "gas_limit" in pn and pn.index("gas_limit") < len(cf.args):
        gas_arg = cf.args[pn.index("gas_limit")]
    R.ob(gas_arg is not None, "ANCHOR", cf.where(), "ANCHOR|%s|gas-argument" % hname, "the simulation entry point has no gas_limit parameter")
    CONF = backward_locals(d, gas_arg) if gas_arg is not None and "l" in gas_arg else set()
    bad = []
    for l in sorted(S):
        ty = (d.local_ty(l) or "")
        for (bb, idx, kind, payload) in d.defs().get(l, []):
            if d.is_cleanup(bb) or not d.dominates(cf.bb, bb) or bb == cf.bb:
                continue
            k = payload.get("k")
            computed = False
            if k == "assign" and payload["rv"]["k"] in ("bin", "un") and ty in INT_TYPES:
                computed = True
            if k == "assign" and payload["rv"]["k"] == "bin" and ty.startswith("(") and ty.split(",")[0].lstrip("(") in INT_TYPES:
                computed = True    # checked arithmetic pair
            if k == "call" and ty in INT_TYPES:
                computed = True
            if computed:
                bad.append((l, payload.get("line") or (payload.get("loc") or {}).get("l")))
    bad += cl_bad
    R.ob(not bad, "WIRE", d.where(), "WIRE|%s|returned-is-confirmed" % hname,
         "%s: the figure returned is recomputed after the final confirmation run (integer computation into the result at line(s) %s): what "
         "the caller gets was never simulated, so sizing the inscription from it can run out of gas" % (hname, sorted({str(x[1]) for x in bad})),
         sample={"rule": "WIRE", "fn": hname, "row": "returned figure == gas argument of the final confirmation"})
    def before_cf(l):
        return any(not d.dominates(cf.bb, bb) or bb == cf.bb for (bb, idx, kind, payload) in d.defs().get(l, []))
    named_s = {l for l in S if d.local_name(l) and (d.local_ty(l) or "") in INT_TYPES | {"std::vec::Vec<u64>"} and before_cf(l)}
    named_c = {l for l in CONF if d.local_name(l)}
    stray = sorted(d.local_name(l) for l in named_s - named_c)
    R.ob(bool(named_s) and not stray, "WIRE", d.where(), "WIRE|%s|returned-from-confirmed-variable" % hname,
         "%s: the returned figure is sliced from %s, which the final confirmation run was not given" % (hname, stray or "no named variable"),
         sample={"rule": "WIRE", "fn": hname, "returned_from": sorted(d.local_name(l) for l in named_s), "confirmed": sorted(d.local_name(l) for l in named_c)[:8]})
