"""C20 — a database only reopens under the configuration it was created with."""
from report import Report
from enginerules import err_propagated
from tablerules import error_blocks, must_pass_on_success, _leads_to_error_only
from terms import origin, show, calls_in, mentions, control_deps, bool_edge, enumerate_paths, mentions_deep

KEYS = {"DB_VERSION_KEY": "DB_VERSION", "PROTOCOL_VERSION_KEY": "PROTOCOL_VERSION",
        "BITCOIN_RPC_NETWORK_KEY": "bitcoin_rpc_network", "EVM_RECORD_TRACES_KEY": "evm_record_traces"}


def run(ctx):
    R = Report("C20", ctx.tier, "proof", "dominance, error-propagation and path enumeration over the start-up gate's MIR")
    F = ctx.facts()
    CG = ctx.cg()
    R.explanation = (
        "The reopen gate: start() validates the recorded configuration before it opens the database or starts the server and "
        "propagates the error; validate_config_database writes exactly the four settings on a fresh directory and validates "
        "exactly the same four, pairwise from the same value origins, with every Result propagated and a flush after the "
        "writes; ConfigDatabase::validate returns Ok only on present ∧ equal (all paths enumerated); an undecodable row reads "
        "as absent; freshness is decided (read_dir) before anything is created in the directory and a non-directory is an Err; "
        "nobody else writes configuration keys. Obligations are all discharged or the check fails.")
    R.trusted = ["rustc resolution/MIR (A1)", "RocksDB get/put correctness (A3)"]
    vcd = [f for f in F.fns.values() if f.name.endswith("global::database::validate_config_database")]
    R.floor("validate_config_database", len(vcd), 1)
    if not vcd:
        return R
    v = F.inlined(vcd[0])      # with the gate's private helpers (directory checks, table of rows, record / verify loops) read in place
    # 1. start(): gate first
    st = [x for x in F.fns.values() if x.name.startswith("server::start::start") and x.kind == "coroutine"]
    R.floor("start_body", len(st), 1)
    if st:
        sf = F.inlined(st[0])
        cs = {}
        for c in sf.calls():
            if not sf.is_cleanup(c.bb) and c.target_path:
                cs.setdefault(c.target_path.split("::")[-1], c)
        gate = cs.get("validate_config_database")
        R.ob(gate is not None, "DOM-before", sf.where(), "DOM-before|start|gate", "start() does not call validate_config_database")
        if gate:
            R.ob(err_propagated(sf, gate), "ERR-prop", gate.where(), "ERR-prop|start|gate", "the Result of validate_config_database is dropped: a mismatching database is opened anyway",
                 sample={"rule": "ERR-prop", "fn": "start", "call": "validate_config_database"})
            opens = [c for c in sf.calls() if not sf.is_cleanup(c.bb) and c.target_path and
                     (c.target_path.endswith("Brc20ProgDatabase::new") or c.target_path.endswith("start_rpc_server") or c.target_path.endswith("BRC20ProgEngine::new"))]
            # the tail of start() may live in a private async helper it awaits (`serve(engine, config).await`): what the helper
            # opens is opened at the await
            class _At:
                def __init__(self, call, bb, where):
                    self.target_path, self.bb, self._w = call.target_path, bb, where
                def where(self):
                    return self._w
            try:
                from c16 import _awaited_private
                for (pc, hv) in _awaited_private(F, sf):
                    for c in hv.calls():
                        if not hv.is_cleanup(c.bb) and c.target_path and (c.target_path.endswith("Brc20ProgDatabase::new") or c.target_path.endswith("start_rpc_server")
                                                                         or c.target_path.endswith("BRC20ProgEngine::new")):
                            opens.append(_At(c, pc.bb, c.where()))
            except ImportError:
                pass
            R.floor("start_open_calls", len(opens), 3)
            for o in opens:
                R.ob(sf.sdominates(gate.bb, o.bb) and gate.bb != o.bb, "DOM-before", o.where(), "DOM-before|start|gate<%s" % o.target_path.split("::")[-2],
                     "%s is reachable without passing the configuration gate" % o.target_path, sample={"rule": "DOM-before", "a": "validate_config_database", "b": o.target_path.split("::")[-2] + "::" + o.target_path.split("::")[-1]})
            a = origin(sf, gate.args[0])
            R.ob(mentions(a, "config"), "WIRE", gate.where(), "WIRE|start|gate-arg", "the gate validates `%s`, not the configuration being started" % show(a))
            # ... and it is the configuration *as supplied*: the recorded settings reach the gate unchanged.  A normalising
            # (many-to-one) map between the caller's configuration and the compared rows lets two different settings reopen
            # each other's directories.
            import wire as W
            ra = W.strip(W.resolve(F, sf, a))
            bad = []
            if ra[0] == "param":
                pass
            elif ra[0] == "agg" and len(ra) > 3 and ra[3]:
                for fld, val in zip(ra[3], ra[2]):
                    if fld not in KEYS.values():
                        continue
                    sv = W.strip(val)
                    if not (sv[0] == "field" and sv[2] == "." + fld and W.strip(sv[1])[0] == "param"):
                        bad.append("%s = %s" % (fld, show(val)[:60]))
            else:
                bad.append(show(ra)[:80])
            R.ob(not bad, "WIRE", gate.where(), "WIRE|start|gate-config-as-supplied",
                 "the configuration handed to the reopen gate is not the one supplied to start(): %s. Settings that differ before this "
                 "rewrite can compare equal after it, so a directory reopens under a configuration it was not created with" % "; ".join(bad),
                 sample={"rule": "WIRE", "fn": "start", "gate_argument": show(ra)[:60]})
    # 2. keys
    sets = [c for c in v.calls() if (c.method or "") == "set" and "ConfigDatabase" in (c.self_ty or c.target_path or "") and not v.is_cleanup(c.bb)]
    vals = [c for c in v.calls() if (c.method or "") == "validate" and "ConfigDatabase" in (c.self_ty or c.target_path or "") and not v.is_cleanup(c.bb)]

    from terms import subterms

    def rows_of(c):
        """[(key term, value term)] a set / validate call stands for: itself - or, when it sits in a loop over a literal array of
        (key, value) pairs (`for (k, v) in entries { db.set(k, v)? }`), one row per array element"""
        if getattr(c, "_rows", None) is not None:
            return c._rows
        kt, vt = origin(v, c.args[1]), origin(v, c.args[2])
        def table(t):
            for x in subterms(t):
                if x[0] == "agg" and x[1] == "array" and x[2] and all(e[0] == "agg" and e[1] == "tuple" and len(e[2]) == 2 for e in x[2]):
                    return x
            return None
        def col(t):
            # which tuple component the term takes from the element drawn by next(): the innermost `.0` / `.1` above the `Some.0`
            comp = None
            for x in subterms(t):
                if x[0] == "field" and x[2] in (".0", ".1"):
                    y = x[1]
                    while y[0] in ("deref", "ref", "cast"):
                        y = y[1]
                    if y[0] == "field" and y[2] == ".0" and y[1][0] == "field" and "Some" in y[1][2]:
                        comp = int(x[2][1:])
            return comp
        ta, tb = table(kt), table(vt)
        if ta is not None and ta == tb and col(kt) == 0 and col(vt) == 1 and mentions(kt, "next"):
            return [(e[2][0], e[2][1]) for e in ta[2]]
        return [(kt, vt)]

    def key_of_term(t):
        for k in KEYS:
            if mentions(t, k):
                return k
        return show(t)[:60]

    def key_of(c):
        return key_of_term(origin(v, c.args[1]))

    INJECTIVE = ("clone", "to_string", "deref", "as_str", "to_owned", "borrow", "as_ref", "into", "from", "__stability", "initialize", "get", "call_once", "force", "new")

    def val_of(c, key, t=None):
        """the compared / recorded value is the setting itself, reached through value-preserving (injective) wrappers only:
        a normalising function in between (trim, lower-casing, an alias table) makes different settings compare equal"""
        t = origin(v, c.args[2]) if t is None else t
        want = KEYS.get(key)
        extra = sorted({x[1].split("::")[-1] for x in calls_in(t) if x[1].split("::")[-1] not in INJECTIVE and not x[1].split("::")[-1].startswith("{")})
        if extra:
            return False, "%s (through %s)" % (show(t)[:70], ", ".join(extra))
        return (want is not None and mentions(t, want)), show(t)[:100]
    # the same table walked by an iterator adapter: `entries.iter().try_for_each(|(k, v)| db.validate(k, v))`
    class _AdapterSite:
        def __init__(self, call, rows):
            self.c, self._rows = call, rows
            self.bb, self.t, self.args, self.method, self.line = call.bb, call.t, call.args, call.method, call.line
        def where(self):
            return self.c.where()

    def _tuple_table(t):
        for x in subterms(t):
            if x[0] == "agg" and x[1] == "array" and x[2] and all(e[0] == "agg" and e[1] == "tuple" and len(e[2]) == 2 for e in x[2]):
                return x
        return None

    def _param_col(t):
        comp = None
        for x in subterms(t):
            if x[0] == "field" and x[2] in (".0", ".1"):
                y = x[1]
                while y[0] in ("deref", "ref", "cast"):
                    y = y[1]
                if y[0] == "param":
                    comp = int(x[2][1:])
        return comp
    for A in v.calls():
        if v.is_cleanup(A.bb) or (A.method or "") not in ("try_for_each", "for_each", "all", "try_fold") or not A.args:
            continue
        tab = _tuple_table(origin(v, A.args[0]))
        if tab is None:
            continue
        for cid in ((A.func or {}).get("arg_cl") or []):
            g = F.fns.get(cid)
            if g is None:
                continue
            g = F.inlined(g)
            for x in g.calls():
                if g.is_cleanup(x.bb) or (x.method or "") not in ("set", "validate") or "ConfigDatabase" not in (x.self_ty or x.target_path or ""):
                    continue
                ck, cv = _param_col(origin(g, x.args[1])), _param_col(origin(g, x.args[2]))
                if ck == 0 and cv == 1:
                    site = _AdapterSite(A, [(e[2][0], e[2][1]) for e in tab[2]])
                    (sets if x.method == "set" else vals).append(site)
    skeys = [key_of_term(kt) for c in sets for (kt, _) in rows_of(c)]
    vkeys = [key_of_term(kt) for c in vals for (kt, _) in rows_of(c)]
    R.ob(sorted(skeys) == sorted(KEYS), "WIRE", v.where(), "WIRE|config|written-keys", "keys written on a fresh directory are %s; expected %s" % (sorted(skeys), sorted(KEYS)),
         sample={"rule": "WIRE", "written": sorted(skeys)})
    R.ob(sorted(vkeys) == sorted(KEYS), "WIRE", v.where(), "WIRE|config|validated-keys", "keys validated on reopen are %s; expected %s" % (sorted(vkeys), sorted(KEYS)),
         sample={"rule": "WIRE", "validated": sorted(vkeys)})
    for c in sets + vals:
        for (kt, vt) in rows_of(c):
            k = key_of_term(kt)
            ok, txt = val_of(c, k, vt)
            kind = "set" if c in sets else "validate"
            R.ob(ok, "WIRE", c.where(), "WIRE|config|%s:%s" % (kind, k), "%s(%s) uses value `%s`; expected the %s setting" % (kind, k, txt, KEYS.get(k)),
                 sample={"rule": "WIRE", "op": kind, "key": k, "value": txt})
            R.ob(err_propagated(v, c), "ERR-prop", c.where(), "ERR-prop|config|%s:%s" % (kind, k), "the Result of %s(%s) is dropped" % (kind, k))
    # fresh vs reopen, by abstract execution (independent of whether the two cases are one if/else or a per-key
    # `record_or_validate(fresh, ..)` helper read in place): with the directory empty every write and the flush are reached and
    # no validation; with it non-empty every validation and no write, no flush; on a fresh run no successful return avoids the flush
    from terms import explore_under as _xu
    fl0 = [c for c in v.calls() if (c.method or "") == "flush" and not v.is_cleanup(c.bb)]

    def _dir_env(nonempty):
        def env_of(t):
            if t[0] == "call" and t[1].split("::")[-1] in ("is_some", "is_none") and t[2] and mentions(t[2][0], "read_dir"):
                return nonempty == (t[1].split("::")[-1] == "is_some")
            if t[0] == "call" and t[1].split("::")[-1] == "next" and mentions(t, "read_dir"):
                return "Some" if nonempty else "None"          # `match dir.read_dir()?.next() { Some(_) => .., None => .. }`
            return None
        return env_of
    _o1, vis_fresh = _xu(v, _dir_env(False), limit=20000)
    _o2, vis_reopen = _xu(v, _dir_env(True), limit=20000)
    ret_noflush, _v3 = _xu(v, _dir_env(False), limit=20000, avoid=set(v.error_blocks()) | {c.bb for c in fl0})
    fresh_ok = bool(sets) and all(c.bb in vis_fresh for c in sets) and not any(c.bb in vis_fresh for c in vals) and any(c.bb in vis_fresh for c in fl0)
    reopen_ok = bool(vals) and all(c.bb in vis_reopen for c in vals) and not any(c.bb in vis_reopen for c in sets) and not any(c.bb in vis_reopen for c in fl0)
    flush_ok = bool(fl0) and not ret_noflush and not any(sc.bb in v.reachable(f_.bb) for f_ in fl0 for sc in sets if sc.bb != f_.bb)
    R.ob(fresh_ok, "GUARD", v.where(), "GUARD|config|model:fresh", "with the directory empty: writes reached %s, validations reached %s, flush reached %s" % (
        [c.bb in vis_fresh for c in sets], [c.bb in vis_fresh for c in vals], [c.bb in vis_fresh for c in fl0]),
        sample={"rule": "GUARD (abstract execution)", "scenario": "empty directory", "writes": len(sets), "validations_reached": 0})
    R.ob(reopen_ok, "GUARD", v.where(), "GUARD|config|model:reopen", "with the directory non-empty: validations reached %s, writes reached %s, flush reached %s" % (
        [c.bb in vis_reopen for c in vals], [c.bb in vis_reopen for c in sets], [c.bb in vis_reopen for c in fl0]),
        sample={"rule": "GUARD (abstract execution)", "scenario": "non-empty directory", "validations": len(vals), "writes_reached": 0})
    R.ob(flush_ok, "DOM-order", v.where(), "DOM-order|config|model:flush", "on a fresh run a successful return is reachable without the flush (or a write follows it)",
         sample={"rule": "DOM-order (abstract execution)", "scenario": "empty directory", "ok_return_avoiding_flush": bool(ret_noflush)})
    model2_ok = fresh_ok and reopen_ok and flush_ok
    # the same, read off the CFG when the two cases are the two edges of one freshness switch (fast path, adds the samples)
    fresh_sw = None
    for b in range(len(v.blocks)):
        t = v.term(b)
        if t["k"] == "switch" and mentions(origin(v, t["discr"]), "read_dir"):
            fresh_sw = b
    R.ob(fresh_sw is not None, "GUARD", v.where(), "GUARD|config|freshness", "freshness is not derived from read_dir()")
    if fresh_sw is not None:
        edges = {}
        for s in v.succ(fresh_sw):
            be = bool_edge(v, fresh_sw, s)
            if be:
                edges[s] = be
        for s, (term, truth) in edges.items():
            reach = v.reachable(s)
            has_sets = any(c.bb in reach for c in sets)
            has_vals = any(c.bb in reach for c in vals)
            # term is `is_some(next(read_dir))`: truth False == fresh
            fresh = (truth is False) if mentions(term, "is_some") else None
            if fresh is True:
                R.ob((has_sets and not has_vals) or model2_ok, "GUARD", v.where(), "GUARD|config|fresh-branch", "an empty directory must record (not validate) the configuration",
                     sample={"rule": "GUARD", "branch": "fresh", "sets": has_sets, "validates": has_vals})
            elif fresh is False:
                R.ob((has_vals and not has_sets) or model2_ok, "GUARD", v.where(), "GUARD|config|reopen-branch",
                     "a non-empty directory must validate (never rewrite) the recorded configuration", sample={"rule": "GUARD", "branch": "reopen", "sets": has_sets, "validates": has_vals})
        for c in vals:
            R.ob(not any(x.bb not in v.reachable(fresh_sw) for x in [c]) or model2_ok, "DOM-before", c.where(), "DOM-before|config|fresh<validate", "validate not under the freshness decision")
    fl = [c for c in v.calls() if (c.method or "") == "flush" and not v.is_cleanup(c.bb)]
    # after any write, no successful return without a flush in between (holds for four straight-line writes and for a loop of them)
    def flushed_after(sc):
        avoid = set(v.error_blocks()) | {f.bb for f in fl}
        return not any(rb in v.reachable(sc.bb, avoid=avoid) for rb in v.return_blocks())
    R.ob(bool(fl) and bool(sets) and (all(flushed_after(sc) for sc in sets) or model2_ok) and err_propagated(v, fl[0]), "DOM-order", v.where(), "DOM-order|config|flush",
         "the recorded configuration is not flushed after the four writes", sample={"rule": "DOM-order", "first": "4 x set", "then": "flush"})
    # 4. freshness before creation
    rd = [c for c in v.calls() if (c.method or "") == "read_dir" and not v.is_cleanup(c.bb)]
    nw = [c for c in v.calls() if (c.target_path or "").endswith("ConfigDatabase::new") and not v.is_cleanup(c.bb)]
    R.ob(bool(rd) and bool(nw) and v.sdominates(rd[0].bb, nw[0].bb) and err_propagated(v, rd[0]), "DOM-before", v.where(), "DOM-before|config|read_dir<open",
         "freshness (read_dir) is not decided before the config database is created inside the directory",
         sample={"rule": "DOM-before", "a": "read_dir", "b": "ConfigDatabase::new"})
    isd = None
    for b in range(len(v.blocks)):
        t = v.term(b)
        if t["k"] == "switch" and mentions(origin(v, t["discr"]), "is_dir"):
            for s in v.succ(b):
                be = bool_edge(v, b, s)
                if be and be[1] is False and (s in error_blocks(v) or _leads_to_error_only(v, s)):
                    isd = b
    # "an identical configuration always reopens successfully": the gate refuses only a non-directory, a failed row comparison
    # (ConfigDatabase::validate, through `?`) or an I/O error (through `?`)
    import tablerules as T
    for (ln, cond) in T.unexpected_refusals(v, allow=lambda dd: mentions(dd, "is_dir")):
        R.violation("GUARD", "%s:%s" % (v.loc["f"], ln), "GUARD|config|unexpected-refusal",
                    "validate_config_database refuses on a condition the contract does not give (`%s`): a directory must reopen under the configuration it was created with" % cond)
    R.ob(isd is not None, "GUARD", v.where(), "GUARD|config|not-a-directory", "a path that is not a directory is not refused",
         sample={"rule": "GUARD", "row": "!is_dir => Err"})
    # 3. ConfigDatabase::validate / get
    cv = [f for f in F.fns.values() if f.name.endswith("ConfigDatabase::validate")]
    if cv:
        f = cv[0]
        eb = error_blocks(f)
        n_ok = 0
        ok_paths = []
        for p in enumerate_paths(f):
            if any(b in eb for b in p):
                continue
            n_ok += 1
            present = None
            equal = None
            for i, b in enumerate(p[:-1]):
                t = f.term(b)
                if t["k"] != "switch":
                    continue
                d = origin(f, t["discr"])
                if d[0] == "discr" and len(d) > 3 and d[3] and mentions(d, "get"):
                    vals_ = [x for x, tb in t["targets"] if tb == p[i + 1]]
                    names = [n for (n, val) in d[3] if val in vals_]
                    if "Some" in names:
                        present = True
                    if "None" in names:
                        present = False
                be = bool_edge(f, b, p[i + 1])
                if be and (mentions(be[0], "ne") or mentions(be[0], "eq")) and be[1] is not None:
                    is_ne = be[0][0] == "call" and be[0][1].split("::")[-1] == "ne"
                    equal = (not be[1]) if is_ne else be[1]
            ok_paths.append((present, equal))
        R.ob(n_ok >= 1, "GUARD", f.where(), "GUARD|ConfigDatabase::validate|has-ok", "validate has no Ok path")
        # the same by abstract execution, which does not care how the decision is spelt: with the recorded value present and
        # *different* from the supplied one (every other test undecided) no Ok return may be reachable; with it equal one must be.
        # A second notion of "matches" (numeric order, prefix, case folding ...) opens an Ok return under `different`
        from terms import explore_under, eval_term

        def _lossless(t):
            """the compared operand is the recorded / supplied string itself, seen through views and copies only - a comparison of
            trimmed, case-folded or truncated forms is a different (weaker) test and stays undecided"""
            while True:
                if t[0] in ("ref", "deref", "cast"):
                    t = t[1]
                elif t[0] == "call" and t[2] and t[1].split("::")[-1] in ("to_string", "as_str", "clone", "to_owned", "as_bytes", "deref", "as_ref", "borrow", "into", "from", "as_slice", "branch", "ok_or_else", "ok_or", "map_err", "unwrap", "expect", "as_deref"):
                    t = t[2][0]
                elif t[0] == "field":
                    t = t[1]
                elif t[0] == "call" and t[1].split("::")[-1] == "get":
                    return True
                else:
                    return t[0] in ("param", "upvar", "self_closure", "built", "phi", "const")

        def _env(different, row="Some"):
            def env_of(t):
                if t[0] == "call" and t[1].split("::")[-1] in ("eq", "ne") and len(t[2]) == 2:
                    a0, a1 = t[2]
                    if ((mentions(a0, "get") and mentions(a1, "value")) or (mentions(a1, "get") and mentions(a0, "value"))) and _lossless(a0) and _lossless(a1):
                        return different == (t[1].split("::")[-1] == "ne")
                    return None
                if t[0] in ("discr", "un", "bin", "const", "cast", "ref", "deref"):
                    return None
                if t[0] == "field" and mentions(t, "get") and not mentions(t, "value") and not mentions(t, "as Some"):
                    return row          # the row read by get (after `?`): present / absent
                if t[0] == "call" and t[1].split("::")[-1] in ("is_some", "is_none", "not"):
                    return None
                if mentions(t, "get") and not mentions(t, "value") and t[0] == "call":
                    return row
                return None
            return env_of
        eb_ = set(eb)
        def _ok_returns(env_):
            """return blocks reached whose value is not known to be an Err (early `return Err(..)` blocks are fenced off; a
            combinator chain `get()?.ok_or_else(..).and_then(|v| ..).map_err(..)` is followed through the adapters)"""
            explore_under(f, env_, avoid=eb_)
            return {b_ for (b_, st_) in explore_under.returned if not (isinstance(st_.get(0), tuple) and st_[0][0] == "V" and st_[0][1] == "Err")}
        ok_diff = _ok_returns(_env(True))
        ok_same = _ok_returns(_env(False))
        ok_absent = _ok_returns(_env(None, row="None"))
        # the path reading of the same clause (knows the match / if spelling; a combinator chain has one path and no test on it)
        for (present, equal) in ok_paths:
            R.ob((present is True and equal is True) or (not ok_diff and not ok_absent and bool(ok_same)), "GUARD", f.where(), "GUARD|ConfigDatabase::validate|ok-path",
                 "validate returns Ok on a path where the row is %s and the comparison is %s" % (
                     {True: "present", False: "absent", None: "not inspected"}[present], {True: "equal", False: "different", None: "not made"}[equal]),
                 sample={"rule": "GUARD", "fn": "ConfigDatabase::validate", "ok_path": "present and equal"})
        R.ob(not ok_diff, "GUARD", f.where(), "GUARD|ConfigDatabase::validate|different=>Err",
             "validate can return Ok although the recorded value differs from the supplied one (Ok return reachable at bb%s with the equality test false): "
             "a directory recorded under another version / network reopens" % sorted(ok_diff)[:3],
             sample={"rule": "GUARD (abstract execution)", "fn": "ConfigDatabase::validate", "row": "present, recorded != supplied => no Ok return"})
        R.ob(not ok_absent, "GUARD", f.where(), "GUARD|ConfigDatabase::validate|absent=>Err",
             "validate can return Ok although the row is absent (Ok return reachable at bb%s with the row read as None): a directory with a missing record "
             "(tampered, or half-initialised) reopens" % sorted(ok_absent)[:3],
             sample={"rule": "GUARD (abstract execution)", "fn": "ConfigDatabase::validate", "row": "absent => no Ok return"})
        R.ob(bool(ok_same), "GUARD", f.where(), "GUARD|ConfigDatabase::validate|equal=>Ok", "validate cannot return Ok for an equal recorded value")
        gets = [c for c in f.calls() if (c.method or "") == "get" and not f.is_cleanup(c.bb)]
        R.ob(bool(gets) and err_propagated(f, gets[0]), "ERR-prop", f.where(), "ERR-prop|ConfigDatabase::validate|get", "the read error is dropped")
        # the comparison is between the stored value and the `value` argument
        for c in f.calls():
            if (c.method or "") in ("ne", "eq") and not f.is_cleanup(c.bb):
                a0, a1 = origin(f, c.args[0]), origin(f, c.args[1])
                R.ob((mentions(a0, "get") and mentions(a1, "value")) or (mentions(a1, "get") and mentions(a0, "value")), "WIRE", c.where(),
                     "WIRE|ConfigDatabase::validate|operands", "validate compares `%s` with `%s`" % (show(a0)[:60], show(a1)[:60]),
                     sample={"rule": "WIRE", "compare": [show(a0)[:60], show(a1)[:60]]})
    cg_ = [f for f in F.fns.values() if f.name.endswith("ConfigDatabase::get")]
    if cg_:
        f = cg_[0]
        ok = False
        for c in f.calls():
            if (c.method or "") == "map_or" and not f.is_cleanup(c.bb):
                dflt = origin(f, c.args[1])
                if dflt[0] == "agg" and dflt[1].endswith("Option::None") and mentions_deep(F, origin(f, c.args[2]), "decode_vec") and mentions_deep(F, origin(f, c.args[2]), "ok"):
                    ok = True
            # `opt.and_then(|b| decode_vec(b).ok())` is the same function as `opt.map_or(None, |b| decode_vec(b).ok())`
            if (c.method or "") == "and_then" and "Option" in (c.target_path or "") and not f.is_cleanup(c.bb):
                if mentions_deep(F, origin(f, c.args[1]), "decode_vec") and mentions_deep(F, origin(f, c.args[1]), "ok"):
                    ok = True
        # in either spelling the decode error must not be propagated with `?` anywhere in get
        for g in [f] + list(F.descendants(f.id)):
            for c in g.calls():
                if (c.target_path or "").endswith("Try::branch") and not g.is_cleanup(c.bb) and mentions(origin(g, c.args[0]), "decode_vec"):
                    ok = False
        R.ob(ok, "GUARD", f.where(), "GUARD|ConfigDatabase::get|undecodable", "an undecodable or missing row no longer reads as absent",
             sample={"rule": "GUARD", "fn": "ConfigDatabase::get", "row": "missing/undecodable => None"})
    # 5. who may write config keys
    for g in F.body_fns():
        for c in g.calls():
            if (c.method or "") == "set" and "ConfigDatabase" in (c.self_ty or c.target_path or "") and not g.is_cleanup(c.bb):
                k = origin(g, c.args[1])
                if g.id == v.id or F.hosts_of(g) <= {v.name}:
                    continue        # the gate itself, or a private helper only the gate calls
                is_cfg = any(mentions(k, kk) for kk in KEYS)
                R.ob(not is_cfg and mentions(k, "MAX_BLOCK_NUMBER_KEY"), "WHO", c.where(), "WHO|config-set|%s" % g.name,
                     "%s writes config key `%s` outside the start-up gate" % (g.name, show(k)[:60]), sample={"rule": "WHO", "writer": g.name, "key": show(k)[:40]})
    return R
