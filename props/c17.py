"""C17 — eth_call predicts what the same transaction will do (sibling agreement of the three EVM set-up sites)."""
from report import Report
from terms import origin, show, mentions, mentions_deep
import wire as W
import enginerules as ER


def run(ctx):
    R = Report("C17", ctx.tier, "other", "sibling agreement (WIRE tables) of the execution path and the two simulation paths")
    F = ctx.facts()
    CG = ctx.cg()
    R.explanation = (
        "The execution path (add_tx_to_block) is the reference; the two simulation paths (read_contract, read_contract_multi) "
        "must agree with it on every row the statement does not exempt: same constructor (get_evm) with block number = the next "
        "block height unless the request names one; the same set of TxEnv fields assigned; caller/kind/data from the TxInfo's "
        "from/to/data; nonce from the sender's current account nonce (advanced per call in the multi variant); the spec and the "
        "precompile provider come from get_evm in all three. Exempted rows (timestamp, prevrandao, current txid; the per-transaction gas limit differs by design, the block gas limit must agree) are "
        "listed with what each path uses. Equality of results is NOT decided (revm executes replay/transact_one and "
        "inspect_tx_commit identically: A3).")
    R.trusted = ["rustc resolution/MIR (A1)", "revm's non-committing and committing entry points execute identically (A3)"]
    em = ER.engine_methods(F)
    ge = F.inlined(F.fn_opt("engine::evm::get_evm"))
    sites = {}
    for name in ("add_tx_to_block", "read_contract", "read_contract_multi"):
        top = em[name]
        bodies = [top] + F.descendants(top.id)
        gcalls = [(g, c) for g in bodies for c in g.calls() if c.target_id == ge.id and not g.is_cleanup(c.bb)]
        stores = [(g, W.field_stores(g)) for g in bodies if ".caller" in W.field_stores(g)]
        entry = [(g, c) for g in bodies for c in g.calls() if c.func and any("PrecompileProvider|" in cb for cb in c.func.get("callbacks", [])) and not g.is_cleanup(c.bb)]
        sites[name] = {"top": top, "get_evm": gcalls, "stores": stores, "entry": entry}
        R.ob(len(gcalls) == 1 and len(stores) == 1 and len(entry) >= 1, "SIBLING", top.where(), "SIBLING|%s|shape" % name,
             "%s: expected one get_evm call, one TxEnv set-up closure and an EVM entry point (found %d/%d/%d)" % (name, len(gcalls), len(stores), len(entry)))
    ref = sites["add_tx_to_block"]
    if not all(len(s["stores"]) == 1 and len(s["get_evm"]) == 1 for s in sites.values()):
        return R
    ref_fields = set(ref["stores"][0][1])
    names = ge.j.get("param_names")
    for name, s in sites.items():
        g, fs = s["stores"][0]
        R.ob(set(fs) == ref_fields, "SIBLING", g.where(), "SIBLING|%s|txenv-fields" % name,
             "%s assigns TxEnv fields %s; the execution path assigns %s" % (name, sorted(fs), sorted(ref_fields)),
             sample={"rule": "SIBLING", "site": name, "txenv_fields": sorted(fs)})
        for path, fld in ((".caller", ".from"), (".kind", ".to"), (".data", ".data")):
            for _, t in fs.get(path, []):
                rt = W.resolve(F, g, t)
                R.ob(mentions(rt, fld) and mentions(rt, "tx_info"), "SIBLING", g.where(), "SIBLING|%s|tx%s" % (name, path),
                     "%s sets tx%s from `%s`, not from tx_info%s" % (name, path, show(rt)[:80], fld), sample={"rule": "SIBLING", "site": name, "field": path, "origin": show(rt)[:60]})
        for _, t in fs.get(".nonce", []):
            rt = W.resolve(F, g, t)
            ok = mentions_deep(F, rt, "get_account_nonce")
            if not ok and mentions(rt, "HashMap") and mentions(rt, "get") and mentions(rt, ".from"):
                # per-sender map: filled from get_account_nonce in the enclosing bodies
                top = s["top"]
                for bdy in [top] + F.descendants(top.id):
                    for cc in bdy.calls():
                        if (cc.method or "") == "insert" and "HashMap" in (cc.target_path or "") and len(cc.args) >= 3 and \
                                mentions(origin(bdy, cc.args[2]), "get_account_nonce"):
                            ok = True
            R.ob(ok, "SIBLING", g.where(), "SIBLING|%s|tx.nonce" % name, "%s sets tx.nonce from `%s`, not from the sender's account nonce" % (name, show(rt)[:80]),
                 sample={"rule": "SIBLING", "site": name, "field": ".nonce", "origin": show(rt)[:80]})
        gg, c = s["get_evm"][0]
        bn = W.resolve(F, gg, origin(gg, c.args[names.index("block_number")]))
        if name == "add_tx_to_block":
            ok = W.strip(bn)[0] == "param"
        else:
            ok = mentions_deep(F, bn, "get_next_block_height") and not mentions_deep(F, bn, "get_latest_block_height")
        R.ob(ok, "SIBLING", c.where(), "SIBLING|%s|block_number" % name, "%s builds its EVM at `%s`, not at the next block height (or the requested one)" % (name, show(bn)[:80]),
             sample={"rule": "SIBLING", "site": name, "block_number": show(bn)[:80]})
        # the *block* gas limit (GASLIMIT opcode) is not among the statement's exemptions (only remaining gas is):
        # all three sites must hand get_evm the same block gas limit as the execution path
        glt = show(W.strip(W.resolve(F, gg, origin(gg, c.args[names.index("gas_limit")]))))
        rg, rc_ = ref["get_evm"][0]
        ref_glt = show(W.strip(W.resolve(F, rg, origin(rg, rc_.args[names.index("gas_limit")]))))
        R.ob(glt == ref_glt, "SIBLING", c.where(), "SIBLING|%s|block-gas-limit" % name,
             "%s builds its EVM with block gas limit `%s`, the execution path with `%s`: code reading block.gaslimit behaves differently in "
             "simulation and execution" % (name, glt[:60], ref_glt[:60]), sample={"rule": "SIBLING", "site": name, "block_gas_limit": glt[:60]})
        exempt = {}
        for pn in ("timestamp", "block_hash", "current_op_return_tx_id"):
            exempt[pn] = show(W.resolve(F, gg, origin(gg, c.args[names.index(pn)])))[:60]
        R.samples.append({"rule": "SIBLING exempt rows", "site": name, "values": exempt})
        # db handed to get_evm is the taken database
        dbt = W.resolve(F, gg, origin(gg, c.args[names.index("db")]))
        R.ob(mentions(dbt, "mem::take"), "SIBLING", c.where(), "SIBLING|%s|db" % name, "%s runs the EVM over `%s`, not over the live database" % (name, show(dbt)[:60]))
    # ---- the EVM environment beyond TxEnv: whatever a site adjusts after the shared constructor (modify_cfg / modify_block /
    # modify_* closures, or direct stores into .cfg / .block), every sibling adjusts too.  A limit lifted for execution only
    # (or for simulation only) makes eth_call predict another outcome.
    from tablerules import must_pass_on_success

    def env_adjustments(site):
        out = set()
        top = site["top"]
        for b in [top] + F.descendants(top.id):
            for c in b.calls():
                m = c.method or ""
                if m.startswith("modify_") and m != "modify_tx" and not b.is_cleanup(c.bb):
                    for cid in ((c.func or {}).get("arg_cl") or []):
                        g = F.fns.get(cid)
                        if g is not None:
                            for path in W.field_stores(g):
                                out.add("%s:%s" % (m[len("modify_"):], path))
            for path in W.field_stores(b):
                if path.startswith(".cfg.") or path.startswith(".block."):
                    out.add("direct:%s" % path)
        return out
    ref_env = env_adjustments(ref)
    for name, sx in sites.items():
        mine = env_adjustments(sx)
        R.ob(mine == ref_env, "SIBLING", sx["top"].where(), "SIBLING|%s|env-adjustments" % name,
             "%s adjusts the EVM environment after get_evm with %s; the execution path with %s: simulation and execution run under "
             "different rules" % (name, sorted(mine) or "nothing", sorted(ref_env) or "nothing"),
             sample={"rule": "SIBLING", "site": name, "env_adjustments_after_get_evm": sorted(mine)})
    # the shared constructor sets its cfg / block / tx defaults unconditionally (a default that depends on an argument the
    # siblings pass differently - gas limit, txid, overrides - is a per-path rule)
    gfs = W.field_stores(ge)
    n_env = 0
    for path, sts in sorted(gfs.items()):
        if not (path.startswith(".cfg.") or path.startswith(".block.") or path.startswith(".tx.")):
            continue
        n_env += 1
        R.ob(must_pass_on_success(ge, [bb for bb, _ in sts]), "SIBLING", ge.where(), "SIBLING|get_evm|unconditional:%s" % path,
             "get_evm sets %s on some paths only" % path, sample={"rule": "SIBLING", "fn": "get_evm", "sets": path} if n_env % 4 == 1 else None)
    R.floor("get_evm_env_fields", n_env, 10)
    # multi variant: nonce advanced per call
    g, fs = sites["read_contract_multi"]["stores"][0]
    top = sites["read_contract_multi"]["top"]
    adv = False
    for b in [top] + F.descendants(top.id):
        for c in b.calls():
            if (c.method or "") == "insert" and "HashMap" in (c.target_path or "") and not b.is_cleanup(c.bb):
                from guards import lin
                if len(c.args) >= 3:
                    l = lin(origin(b, c.args[2]))
                    if l.k == 1 and len(l.terms) == 1:
                        adv = True
    if not adv:
        # the same advance through the entry API: `let n = map.entry(from).or_insert(0); let nonce = *n; *n = nonce + 1;`
        from guards import lin as _lin
        from terms import rvalue_origin as _rvo
        for b in [top] + F.descendants(top.id):
            for blk in b.blocks:
                if blk.get("cleanup"):
                    continue
                for st_ in blk["stmts"]:
                    if st_["k"] == "assign" and st_["lhs"].get("p") == ["*"]:
                        who = origin(b, {"l": st_["lhs"]["l"], "k": "copy"})
                        if mentions(who, "HashMap") and (mentions(who, "or_insert") or mentions(who, "get_mut") or mentions(who, "entry")) and mentions(who, ".from"):
                            l_ = _lin(_rvo(b, st_["rv"], 0, frozenset(), 30))
                            if l_.k == 1 and len(l_.terms) == 1:
                                adv = True
    R.ob(adv, "SIBLING", top.where(), "SIBLING|read_contract_multi|nonce-advance", "the multi-call simulation no longer advances the sender's nonce by one per simulated call",
         sample={"rule": "SIBLING", "site": "read_contract_multi", "row": "nonces[from] = nonce + 1"})
    # ---- RPC layer: the request's target is mapped to a transaction kind the same way for simulation and execution.
    # brc20_call executes Call(target) for *every* target and brc20_deploy executes Create; the simulation end points may map
    # an absent target to Create, but the kind must never depend on the *value* of the target address.
    import roles
    from terms import calls_in, bool_edge, leaves
    fi = [f for f in F.fns.values() if f.name.endswith("TxInfo::from_inscription")]
    R.floor("from_inscription", len(fi), 1)
    n_sites = 0
    handlers = {}
    for (name, ms, hh, creg) in roles.rpc_methods(F):
        if name in ("eth_call", "eth_callMany", "eth_estimateGas", "eth_estimateGasMany", "brc20_call", "brc20_deploy", "brc20_balance"):
            handlers[name] = hh

    def value_dependent(fn, want_param=None):
        """switches in fn whose condition is an (in)equality test involving an address-like operand and a constant"""
        out = []
        for b in range(len(fn.blocks)):
            t = fn.term(b)
            if t["k"] != "switch" or fn.is_cleanup(b):
                continue
            for sx in fn.succ(b):
                be = bool_edge(fn, b, sx)
                if not be:
                    continue
                cond = be[0]
                eqs = [c for c in calls_in(cond) if c[1].endswith("PartialEq::eq") or c[1].endswith("PartialEq::ne") or c[1].endswith("::eq") or c[1].endswith("::ne")]
                if cond[0] == "bin" and cond[1] in ("Eq", "Ne"):
                    eqs.append(cond)
                for e in eqs:
                    if mentions(e, "ZERO") or mentions(e, "INVALID_ADDRESS") or any(x[0] in ("const", "static") for x in leaves(e)):
                        if want_param is None or mentions(e, want_param):
                            out.append((b, show(e)[:80]))
        return out

    def handler_bodies(h):
        """the handler's own bodies plus server-level helper functions they call (so that de-duplicating the TxInfo
        construction into a helper does not hide the sites)"""
        out, seen, work = [], set(), list(F.descendants(h))
        while work:
            b = work.pop()
            if b.id in seen or not b.blocks:
                continue
            seen.add(b.id)
            out.append(b)
            for c in b.calls():
                # direct callees, and functions handed to an adapter by name (`.map(simulated_tx_info)`)
                gids = [c.target_id] + [((a.get("fn") or {}).get("res") or {}).get("id") or (a.get("fn") or {}).get("id")
                                        for a in c.args if isinstance(a, dict) and a.get("k") == "const" and a.get("fn")]
                for gid in gids:
                    g = F.fns.get(gid) if gid else None
                    if g is not None and g.blocks and g.name.startswith("server::") and g.id not in seen and not b.is_cleanup(c.bb):
                        work.append(g)
                        work += F.descendants(g.id)
        return out

    for name, hh in sorted(handlers.items()):
        found = 0
        for h in hh:
            for body in handler_bodies(h):
                for c in body.calls():
                    if not fi or c.target_id != fi[0].id or body.is_cleanup(c.bb):
                        continue
                    found += 1
                    t = W.resolve(F, body, origin(body, c.args[1]))
                    bad = []
                    for cc in calls_in(t):
                        g = F.fn_opt(cc[1])
                        if g is not None and g.blocks:
                            bad += ["%s: %s" % (g.name.split("::")[-1], d) for (_, d) in value_dependent(g)]
                    if t[0] == "phi" or mentions(t, "phi"):
                        bad += ["%s: %s" % (name, d) for (_, d) in value_dependent(body, ".to")]
                    if body.kind in ("fn", "method") and body.name.startswith("server::") and not body.name.startswith("<"):
                        bad += ["%s: %s" % (body.name.split("::")[-1], d) for (_, d) in value_dependent(body)]
                    R.ob(not bad, "SIBLING", c.where(), "SIBLING|%s|target-kind" % name,
                         "%s maps the request's target to a transaction kind that depends on the address *value* (%s): brc20_call executes "
                         "Call(target) for every target, so simulation and execution disagree for that address" % (name, "; ".join(sorted(set(bad)))[:160]),
                         sample={"rule": "SIBLING", "site": name, "target_kind": show(t)[:70]})
        if found:
            n_sites += 1
    R.floor("rpc_txinfo_sites", n_sites, 6)
    # "an eth_call made at a block boundary": what the simulation reads from the chain state (the sender's nonce, the height it
    # runs at) is read *after* the wait for the boundary - a value read before it describes the block that was still open
    n_bw = 0
    for name in ("read_contract", "read_contract_multi"):
        top = em[name]
        for g_ in [top] + F.descendants(top.id):
            waits_ = [c_ for c_ in g_.calls() if not g_.is_cleanup(c_.bb) and (c_.method or "") in ("wait_for_no_waiting_txes", "require_no_waiting_txes")]
            if not waits_:
                continue
            for c_ in g_.calls():
                if g_.is_cleanup(c_.bb) or (c_.method or "") not in ("get_account_nonce", "get_next_block_height", "get_latest_block_height"):
                    continue
                n_bw += 1
                R.ob(any(g_.sdominates(w_.bb, c_.bb) and w_.bb != c_.bb for w_ in waits_), "SIBLING", c_.where(), "SIBLING|%s|read-after-boundary:%s" % (name, c_.method),
                     "%s reads %s before it has waited for the block boundary: a transaction added to the open block in between makes the "
                     "simulation run with a stale value" % (name, c_.method), sample={"rule": "SIBLING (DOM-before)", "site": name, "a": "wait_for_no_waiting_txes", "b": c_.method})
    R.floor("simulation_state_reads_after_boundary", n_bw, 2)
    # what is read out of the result: "the success flag and return data equal those of the transaction".  The execution path
    # records `is_success()` of revm's ExecutionResult in the receipt (the reference predicate, read from the receipt
    # constructor's call site); each simulation result must report the same predicate of its result - not a weaker one such as
    # "did not halt", which counts a revert as success - and the result's own `output()` as return data
    from terms import calls_in

    def _preds(t, depth=0):
        """methods of revm's ExecutionResult a term reads its value through (closures handed to Option / Result adapters included)"""
        from terms import closures_in_term
        out = {x[1].split("::")[-1] for x in calls_in(t) if "ExecutionResult" in x[1] or "ResultAndState" in x[1]}
        if depth < 2:
            for cid in closures_in_term(t):
                cl = F.fns.get(cid)
                if cl is not None and len(cl.blocks) < 12:
                    out |= set(_preds(origin(cl, {"l": 0, "k": "copy"}), depth + 1))
        return sorted(out)

    def _negated(t):
        from terms import subterms
        return any(x[0] == "un" or (x[0] == "call" and x[1].split("::")[-1] == "not") or x[0] == "bin" for x in subterms(t))
    ref_pred = None
    import tablerules as T2
    st_ = T2.db_fn(F, "set_tx_receipt") if hasattr(T2, "db_fn") else None
    if st_ is None:
        import enginerules as ER3
        st_ = [f_ for f_ in F.fns.values() if f_.name.endswith("Brc20ProgDatabase::set_tx_receipt")]
        st_ = F.inlined(st_[0]) if st_ else None
    if st_ is not None:
        for g_ in [st_] + F.descendants(st_.id):
            for c_ in g_.calls():
                if (c_.target_path or "").endswith("TxReceiptED::new") and not g_.is_cleanup(c_.bb):
                    tg_ = F.fns.get(c_.target_id)
                    pn_ = (tg_.j.get("param_names") or []) if tg_ else []
                    if "is_success" in pn_:
                        ref_pred = _preds(W.resolve(F, g_, origin(g_, c_.args[pn_.index("is_success")])))
    R.floor("receipt_success_predicate", 1 if ref_pred else 0, 1)
    n_ro = 0
    # wherever a simulation result is built (in the two simulation methods, or in a constructor they share)
    seen_ro = set()
    for g_ in list(F.body_fns()):
        name = g_.name.split("::{closure")[0].split("::")[-1]
        if g_.name.startswith(("test", "tests::")) or "::tests::" in g_.name:
            continue
        if True:
            for bi_, b_ in enumerate(g_.blocks):
                if b_.get("cleanup"):
                    continue
                for s_ in b_["stmts"]:
                    rv_ = s_.get("rv") or {}
                    if s_["k"] != "assign" or rv_.get("k") != "agg" or not (rv_.get("adt") or "").endswith("ReadContractResult"):
                        continue
                    flds_ = dict(zip(rv_.get("fields", []), rv_.get("ops", [])))
                    if "status" not in flds_ or "output" not in flds_:
                        continue
                    n_ro += 1
                    ts_ = W.resolve(F, g_, origin(g_, flds_["status"]))
                    to_ = W.resolve(F, g_, origin(g_, flds_["output"]))
                    R.ob(ref_pred is not None and _preds(ts_) == ref_pred and not _negated(ts_), "SIBLING", "%s:%s" % (g_.loc["f"], s_.get("line")),
                         "SIBLING|%s|result-status" % name, "%s reports success as `%s`; the receipt of the executed transaction records %s of the result" % (
                             name, show(ts_)[:80], ref_pred), sample={"rule": "SIBLING", "site": name, "status": show(ts_)[:60], "reference": ref_pred})
                    R.ob("output" in _preds(to_), "SIBLING", "%s:%s" % (g_.loc["f"], s_.get("line")), "SIBLING|%s|result-output" % name,
                         "%s reports return data `%s`, not the result's output()" % (name, show(to_)[:80]), sample={"rule": "SIBLING", "site": name, "output": show(to_)[:60]})
    R.floor("simulation_result_readouts", n_ro, 1)
    return R
