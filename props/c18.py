"""C18 — eth_getLogs returns exactly the matching logs, in chain order."""
from guards import edge_forms
from report import Report
from tablerules import db_fn, error_blocks, _leads_to_error_only, self_fields
import tablerules as T
from terms import origin, show, calls_in, control_deps, bool_edge, mentions
from guards import lin
from unord import Unord
import roles


def run(ctx):
    R = Report("C18", ctx.tier, "other", "UNORD taint from the index scan to the RPC result; GUARD/DOM/WIRE rules on get_logs' MIR")
    F = ctx.facts()
    CG = ctx.cg()
    R.explanation = (
        "Chain order: no hash-iteration order reaches the vector returned by get_logs / eth_getLogs (interprocedural UNORD "
        "taint from the (block,index)->tx scan), and the scan is complete. Range rule: `to - from > 5 => Err` dominates the "
        "scan; scan bounds are key(from,0) .. key(to+1,0); defaults from<-latest, to<-from. Filter: every index into a log's "
        "topics is guarded by idx < len (positions beyond the topic count do not match), address filter is an equality on the "
        "log's address, a log is pushed once, under `matched`. Value-level equality with a reference filter is NOT decided.")
    R.trusted = ["rustc resolution/MIR (A1)", "RocksDB iterators are key ordered; std HashMap order unspecified (A3)"]
    fn = db_fn(F, "get_logs")
    if fn is None:
        R.violation("ANCHOR", "database", "ANCHOR|get_logs", "Brc20ProgDatabase::get_logs not found")
        return R
    U = Unord(F, CG)
    U.run([])
    # 0. the tables the filter reads follow the chain: rolled back by a reorg, dropped by clear_caches, committed with the rest
    #    (a stale (block, index) -> hash row left by an orphaned block makes eth_getLogs return a log of another block)
    reads = T.fields_touched(F, ["get_logs"])
    R.floor("tables_read_by_get_logs", len(reads), 3)
    for dm in ("reorg", "clear_caches", "commit_changes"):
        T.clause_tables(R, F, dm, only_fields=reads)
    T.clause_index_scan_bounds(R, F, only_methods={"get_logs"})
    # 1. order + completeness; uncommitted rows shadow committed ones ("whether or not the blocks have been committed")
    T.clause_scan_unord(R, F, CG, U)
    T.clause_read_merge(R, F, scans=("get_range",))
    sites = U.analyze(fn.id, frozenset())
    R.ob(not sites, "U-RETURN", fn.where(), "U-RETURN|%s" % fn.name,
         "get_logs builds its result by walking a sequence in hash iteration order (%s): log order differs between "
         "replicas and between committed and uncommitted data" % ", ".join(sorted(s.split("@")[-1] for s in sites)),
         sample={"rule": "U-RETURN", "fn": fn.name})
    for name, ms, handlers, c in roles.rpc_methods(F):
        if name != "eth_getLogs":
            continue
        for h in handlers:
            for d in [F.fns[h]] + F.descendants(h):
                s2 = U.analyze(d.id, frozenset())
                R.ob(not s2, "U-RETURN", d.where(), "U-RETURN|handler:%s|%s" % (name, d.kind),
                     "eth_getLogs returns logs in hash iteration order (%s)" % ", ".join(sorted(s.split("@")[-1] for s in s2)))
    # "any range of at most 6 blocks is served": the range test of get_logs is the only refusal on the way - the RPC handler and
    # the engine method hand the request on and propagate errors, they do not refuse on a condition of their own (a second,
    # stricter range test in front of the database's is a spurious refusal of a width the contract serves)
    n_fw = 0
    for name, ms, handlers, c in roles.rpc_methods(F):
        if name != "eth_getLogs":
            continue
        for h in handlers:
            for d in [F.fns[h]] + F.descendants(h):
                if not d.blocks:
                    continue
                dv = F.inlined(d)
                n_fw += 1
                for (ln, cond) in T.unexpected_refusals(dv):
                    R.violation("GUARD", "%s:%s" % (dv.loc["f"], ln), "GUARD|eth_getLogs|handler-refusal",
                                "the eth_getLogs handler refuses on a condition of its own (`%s`): every range the database serves must be served" % cond)
    import enginerules as _ER
    egl = _ER.engine_methods(F).get("get_logs")
    if egl is not None:
        n_fw += 1
        for (ln, cond) in T.unexpected_refusals(egl):
            R.violation("GUARD", "%s:%s" % (egl.loc["f"], ln), "GUARD|eth_getLogs|engine-refusal",
                        "engine.get_logs refuses on a condition of its own (`%s`)" % cond)
    R.ok(1, sample={"rule": "GUARD", "fn": "eth_getLogs handler / engine.get_logs", "own_refusals": "none", "bodies": n_fw})
    R.floor("get_logs_forwarding_bodies", n_fw, 2)
    # 2. range guard
    scans = [c for c in fn.calls() if (c.method or "") == "get_range" and not fn.is_cleanup(c.bb)]
    R.ob(len(scans) == 1, "ANCHOR", fn.where(), "ANCHOR|get_logs|scan", "expected one index scan in get_logs, found %d" % len(scans))

    def role(a):
        s = show(a)
        if mentions(a, "block_number_to"):
            return "to"
        if mentions(a, "block_number_from"):
            return "from"
        return None
    g = None
    for (b, s, fm, line) in edge_forms(fn):
        r, k, rel, bad = fm.roles(role)
        if not bad and set(r) == {"to", "from"} and rel == "<=" and (s in error_blocks(fn) or _leads_to_error_only(fn, s)):
            if g is None or (r == {"from": 1, "to": -1} and k == 6):
                g = (b, r, k, fm, line)
    R.ob(g is not None and g[1] == {"from": 1, "to": -1} and g[2] == 6, "GUARD", fn.where(), "GUARD|get_logs|range",
         "range refusal is `%s`; expected `to - from > 5 => Err`" % (g[3].text(role) if g else "absent"),
         sample={"rule": "GUARD", "fn": "get_logs", "error_edge": g[3].text(role) if g else None})
    # "for any block range of at most 6 blocks ...": the range test is get_logs' only refusal of its own
    def only_range_operands(dd):
        # a comparison of the two range bounds (e.g. an explicit `from > to`) is part of the range contract, judged by the form above
        return mentions(dd, "block_number_from") and mentions(dd, "block_number_to")
    for (ln, cond) in T.unexpected_refusals(fn, known_blocks={g[0]} if g else (), allow=only_range_operands):
        R.violation("GUARD", "%s:%s" % (fn.loc["f"], ln), "GUARD|get_logs|unexpected-refusal",
                    "get_logs refuses on a condition the contract does not give (`%s`): every range of at most 6 blocks is answered" % cond)
    R.ok(1, sample={"rule": "GUARD", "fn": "get_logs", "own_refusals": "range test only"})
    if g and scans:
        R.ob(fn.sdominates(g[0], scans[0].bb), "DOM-before", scans[0].where(), "DOM-before|get_logs|range<scan",
             "the range check does not dominate the scan", sample={"rule": "DOM-before", "a": "range check", "b": "get_range"})
    if scans:
        c = scans[0]
        lo, hi = origin(fn, c.args[1]), origin(fn, c.args[2])
        klo = [x for x in calls_in(lo) if x[1].endswith("get_number_and_index_key")]
        khi = [x for x in calls_in(hi) if x[1].endswith("get_number_and_index_key")]
        ok = bool(klo) and bool(khi)
        if ok:
            a_from, a_idx = klo[0][2][0], klo[0][2][1]
            b_to, b_idx = khi[0][2][0], khi[0][2][1]
            lf, lt = lin(a_from), lin(b_to)
            ok = (mentions(a_from, "block_number_from") and lf.k == 0 and a_idx[0] == "const" and a_idx[1] == 0
                  and mentions(b_to, "block_number_to") and lt.k == 1 and b_idx[0] == "const" and b_idx[1] == 0)
        R.ob(ok, "WIRE", c.where(), "WIRE|get_logs|bounds",
             "scan bounds are [%s, %s); expected [key(from,0), key(to+1,0))" % (show(lo)[:90], show(hi)[:90]),
             sample={"rule": "WIRE", "fn": "get_logs", "lo": show(lo)[:90], "hi": show(hi)[:90]})
        # defaults
        fr = [x for x in calls_in(lo) if x[1].split("::")[-1] == "unwrap_or"]
        R.ob(any(mentions(x[2][0], "block_number_from") and mentions(x[2][1], "get_latest_block_height") for x in fr), "WIRE", c.where(),
             "WIRE|get_logs|default-from", "default of fromBlock is not the latest height")
        to = [x for x in calls_in(hi) if x[1].split("::")[-1] == "unwrap_or"]
        R.ob(any(mentions(x[2][0], "block_number_to") and mentions(x[2][1], "block_number_from") for x in to), "WIRE", c.where(),
             "WIRE|get_logs|default-to", "default of toBlock is not fromBlock")
    # 3. filter structure: every access to a log's topic at a filter position is preceded by a presence test
    #    (idx < log.topics.len(), or log.topics.get(idx) is Some) whose *absent* edge clears the match flag before
    #    the push decision: positions beyond the log's topic count do not match.
    pushes0 = [c for c in fn.calls() if (c.method or "") == "push" and not fn.is_cleanup(c.bb)]
    if not pushes0 and any((c.method or "") == "filter" and (c.trait or "").endswith("Iterator") for c in fn.calls() if not fn.is_cleanup(c.bb)):
        # the same filter written as a predicate: `logs.extend(receipt.logs.into_iter().filter(|log| address_ok && topics_ok))`
        _predicate_filter_rules(R, F, fn)
        _positional_conversion(R, F, U)
        return R
    # the filter's meaning, decided by abstract execution of the body (rules/logmodel.py): independent of whether the decision
    # is spelt as a flag with break, early returns of a predicate method read in place, or a labelled continue.  When all
    # scenarios come out as they must, the idiom recognisers below (which know the flag spelling) only add samples
    import logmodel
    kb_, draws_, verd_ = logmodel.verdicts(F, fn)
    R.floor("log_keep_sites", len(kb_), 1)
    R.floor("log_draw_sites", len(draws_), 1)
    for nm_, (got_, want_) in verd_.items():
        R.ob(got_ == want_, "GUARD", fn.where(), "GUARD|get_logs|model:%s" % nm_,
             "scenario `%s`: a log %s kept (abstract execution of get_logs; see rules/logmodel.py for the scenario table)" % (
                 nm_, "can be" if got_ else "can never be"), sample={"rule": "GUARD (abstract execution)", "fn": "get_logs", "scenario": nm_, "kept_reachable": got_})
    model_ok = bool(kb_) and bool(draws_) and all(g_ == w_ for (g_, w_) in verd_.values())
    pushes0 = [c for c in pushes0 if c.bb in kb_] or pushes0
    flag_sw = None
    if pushes0:
        for (a, s_) in control_deps(fn).get(pushes0[0].bb, set()):
            if fn.term(a)["k"] == "switch" and "l" in fn.term(a)["discr"]:
                flag_sw = a
    R.ob(flag_sw is not None or model_ok, "ANCHOR", fn.where(), "ANCHOR|get_logs|match-flag", "the push is not controlled by a match flag")
    flag_local = fn.term(flag_sw)["discr"]["l"] if flag_sw is not None else None
    # the flag may be copied into the switch operand: follow one copy
    if flag_local is not None:
        ds = [d for d in fn.defs().get(flag_local, []) if d[2] == "assign"]
        if len(ds) == 1 and ds[0][3]["rv"]["k"] == "use" and "l" in ds[0][3]["rv"]["ops"][0]:
            flag_local = ds[0][3]["rv"]["ops"][0]["l"]
    clear_blocks = set()
    if flag_local is not None:
        for bi, b in enumerate(fn.blocks):
            for st_ in b["stmts"]:
                if st_["k"] == "assign" and st_["lhs"]["l"] == flag_local and not st_["lhs"].get("p"):
                    t_ = origin(fn, st_["rv"]["ops"][0]) if st_["rv"].get("ops") else ("x",)
                    if t_[0] == "const" and t_[1] is False:
                        clear_blocks.add(bi)
    R.floor("match_flag_clear_sites", max(len(clear_blocks), 2 if model_ok else 0), 2)

    def absent_clears(edge_target):
        """from the absent edge, the push decision cannot be reached without clearing the flag"""
        reach = fn.reachable(edge_target, avoid=clear_blocks)
        return flag_sw not in reach

    LOG_TOPICS = "FixedBytesED<32>"
    n_idx = 0
    bodies = [fn] + F.descendants(fn.id)
    # (i) presence tests by length comparison in get_logs itself
    len_tests = []
    for (b2, s2, fm, line) in edge_forms(fn):
        if fm.rel != "<=" or len(fm.lin.terms) != 2:
            continue
        lens = [(t, cf) for t, cf in fm.lin.terms.items() if "len(" in show(t) and any(x[1].split("::")[-1] == "len" and LOG_TOPICS in (x[3] or "") for x in calls_in(t))]
        if lens and lens[0][1] == -1 and fm.lin.k == 1:
            # present edge: idx - len + 1 <= 0 ; the other successor of b2 is the absent edge
            others = [x for x in fn.succ(b2) if x != s2]
            len_tests.append((b2, s2, others[0] if others else None))
    # (ii) presence tests by `.get(idx)` on the log's topics
    get_tests = []
    for c in fn.calls():
        if (c.method or "") == "get" and not fn.is_cleanup(c.bb) and LOG_TOPICS in (c.self_ty or (c.res or {}).get("full") or c.full or ""):
            sw = fn.succ(c.bb)[0]
            t = fn.term(sw)
            if t["k"] == "switch":
                some_t = [tb for v, tb in t["targets"] if v == 1]
                none_t = [tb for v, tb in t["targets"] if v == 0] or [t["otherwise"]]
                get_tests.append((sw, some_t[0] if some_t else t["otherwise"], none_t[0], c))
    for (b2, present, absent) in len_tests:
        n_idx += 1
        R.ob((absent is not None and absent_clears(absent)) or model_ok, "GUARD", "%s:%s" % (fn.loc["f"], fn.term(b2)["loc"]["l"]), "GUARD|get_logs|absent-topic-no-match:len",
             "a log with fewer topics than the filter position can still match: the `idx >= log.topics.len()` edge does not clear the match flag",
             sample={"rule": "GUARD", "fn": "get_logs", "presence_test": "idx < log.topics.len()", "absent_edge": "clears match flag"})
    for (sw, present, absent, c) in get_tests:
        n_idx += 1
        R.ob(absent_clears(absent) or model_ok, "GUARD", c.where(), "GUARD|get_logs|absent-topic-no-match:get",
             "a log with fewer topics than the filter position can still match: `log.topics.get(idx)` being None does not clear the match flag "
             "(the position is treated as a wildcard)", sample={"rule": "GUARD", "fn": "get_logs", "presence_test": "log.topics.get(idx)", "absent_edge": "clears match flag"})
    # every raw index into the log's topics must sit behind one of the presence tests
    for g2 in bodies:
        for c in g2.calls():
            if g2.is_cleanup(c.bb) or not (c.trait or "").endswith("Index") or (c.method or "") != "index":
                continue
            if "SingleOrVec" in (c.self_ty or ""):
                continue       # the filter's own vector, indexed by its induction variable (0..topics.len())
            ok = _guarded_index(F, fn, g2, c)
            R.ob(ok, "GUARD", c.where(), "GUARD|get_logs|topic-index:%s" % ("closure" if g2 is not fn else "body"),
                 "log.topics[idx] is reached without `idx < log.topics.len()` on the path: a filter position beyond the log's "
                 "topic count panics instead of not matching", sample={"rule": "GUARD", "fn": g2.name[-50:], "index": "log.topics[idx]", "guard": "idx < len"})
    # each filter arm (single value, list of alternatives) has its presence test
    R.floor("topic_presence_tests", max(n_idx, 2 if model_ok else 0), 2)
    pushes = [c for c in fn.calls() if (c.method or "") == "push" and not fn.is_cleanup(c.bb) and (not kb_ or c.bb in kb_)]
    R.ob(len(pushes) == 1, "PAIR", fn.where(), "PAIR|get_logs|single-push", "a log can be pushed %d times per receipt log" % len(pushes))
    for c in pushes:
        cd = control_deps(fn).get(c.bb, set())
        ok = any((bool_edge(fn, a, s) or (None, None))[1] is True and mentions(origin(fn, fn.term(a)["discr"]), "matched") or
                 (fn.term(a)["k"] == "switch" and show(origin(fn, fn.term(a)["discr"])) .find("phi(") >= 0)
                 for (a, s) in cd)
        R.ob(bool(cd) or model_ok, "GUARD", c.where(), "GUARD|get_logs|push-under-matched", "the push is unconditional",
             sample={"rule": "GUARD", "fn": "get_logs", "push": "control dependent on the match flag"})
        # pushed value is the log drawn from the receipt, unchanged
        v = origin(fn, c.args[1])
        R.ob(mentions(v, "next") and mentions(v, ".logs"), "WIRE", c.where(), "WIRE|get_logs|pushed-log",
             "pushed value `%s` is not the receipt's log" % show(v)[:100])
    # address filter: equality on the log's address
    ok = False
    for (b, s, fm, line) in edge_forms(fn):
        ts = [show(a) for a in fm.lin.terms]
        if fm.rel in ("==", "!=") and any("address" in t and ".logs" in t or "address.address" in t for t in ts) and any("contract_address" in t for t in ts):
            ok = True
    R.ob(ok, "GUARD", fn.where(), "GUARD|get_logs|address", "address filter is not an equality between the log's address and the requested one",
         sample={"rule": "GUARD", "fn": "get_logs", "row": "log.address == filter.address"})
    _positional_conversion(R, F, U)
    return R


def _positional_conversion(R, F, U):
    # 4. topics_as_b256: positions pass through
    tb = [f for f in F.fns.values() if f.name.endswith("GetLogsFilter::topics_as_b256")]
    if tb:
        s3 = U.analyze(tb[0].id, frozenset())
        R.ob(not s3, "U-RETURN", tb[0].where(), "U-RETURN|topics_as_b256", "filter positions are reordered")
    # the filter is *positional*: whatever turns the request's topic list into the list get_logs receives keeps one entry per
    # position, in order (null entries included).  Any adapter between the request's list and collect() that can drop, add or
    # reorder entries (filter, filter_map, flat_map, skip, take, rev, dedup, ...) shifts later positions.
    import wire as W3
    LENGTH_PRESERVING = {"iter", "into_iter", "map", "cloned", "copied", "collect", "by_ref", "as_ref", "clone", "deref", "to_vec", "enumerate"}
    n_conv = 0
    for (name, ms, hh, creg) in roles.rpc_methods(F):
        if name != "eth_getLogs":
            continue
        for h in hh:
            for dsc in F.descendants(h):
                for c in dsc.calls():
                    if (c.method or "") != "get_logs" or dsc.is_cleanup(c.bb):
                        continue
                    g3 = F.fns.get(c.target_id)
                    pn3 = (g3.j.get("param_names") or []) if g3 else []
                    if "topics" not in pn3:
                        continue
                    import terms as _terms
                    with _terms.no_inlining():
                        t = W3.resolve(F, dsc, origin(dsc, c.args[pn3.index("topics")]))
                    convs = [F.fn_opt(x[1]) for x in calls_in(t)]
                    convs = [x for x in convs if x is not None and x.blocks]
                    bodies = [dsc] if not convs else []
                    for cv in convs:
                        bodies += [cv] + F.descendants(cv.id)
                    for b in bodies:
                        for cc in b.calls():
                            if b.is_cleanup(cc.bb):
                                continue
                            tr = (cc.trait or "")
                            if tr.endswith("Iterator") or tr.endswith("IntoIterator") or tr.endswith("DoubleEndedIterator"):
                                n_conv += 1
                                okc = (cc.method or "") in LENGTH_PRESERVING
                                if (cc.method or "") == "next":
                                    # a hand-written `for x in xs { out.push(f(x)) }`: one entry per position iff exactly one push
                                    # sits in the loop this `next` drives and no iteration can go round without passing it
                                    import looprule as _LR
                                    lp = [(h_, bd_) for (h_, bd_, _bk) in _LR.natural_loops(b) if cc.bb in bd_]
                                    if lp:
                                        h_, bd_ = min(lp, key=lambda x: len(x[1]))
                                        ps = [p_ for p_ in b.calls() if (p_.method or "") == "push" and p_.bb in bd_ and not b.is_cleanup(p_.bb)]
                                        okc = len(ps) == 1 and _LR.every_cycle_passes(b, ps[0].bb)
                                R.ob(okc, "WIRE", cc.where(), "WIRE|eth_getLogs|topics-positional:%s" % (cc.method or "?"),
                                     "the request's topic list passes through `%s` on its way to get_logs: entries can be dropped, added or reordered, so "
                                     "later positions are matched against the wrong topic" % (cc.method or "?"),
                                     sample={"rule": "WIRE", "fn": b.name[-50:], "adapter": cc.method})
    R.floor("topic_conversion_adapters", n_conv, 3)


def _predicate_filter_rules(R, F, fn):
    """get_logs in predicate style.  The clauses are those of the flag-and-break form, read off a boolean function instead of
    a flag: a log is kept iff the predicate closure handed to `filter` returns true; the predicate is false whenever the
    address differs, whenever some filter position does not match (`all` over the enumerated positions), whenever the log has
    no topic at a non-null position (the absent edge of each presence test can only return false), whenever none of a
    position's alternatives matches (`any`); every raw index into the log's topics sits behind a presence test."""
    from terms import forced_result, false_forces_false
    calls = [c for c in fn.calls() if not fn.is_cleanup(c.bb)]
    filters = [c for c in calls if (c.method or "") == "filter" and (c.trait or "").endswith("Iterator") and mentions(origin(fn, c.args[0]), ".logs")]
    keeps = [c for c in calls if (c.method or "") in ("extend", "push", "append", "extend_from_slice", "insert") and "Vec" in ((c.self_ty or "") + (c.target_path or "") + show(origin(fn, c.args[0])))]
    R.ob(len(filters) == 1 and len(keeps) == 1 and mentions(origin(fn, keeps[0].args[1]), "filter") and mentions(origin(fn, keeps[0].args[1]), ".logs"),
         "PAIR", fn.where(), "PAIR|get_logs|single-push", "logs reach the result other than through one filter over the receipt's logs (%d filters, %d writes)" % (len(filters), len(keeps)),
         sample={"rule": "PAIR", "fn": "get_logs", "keep": "extend(receipt.logs.into_iter().filter(predicate))"})
    if len(filters) != 1 or not keeps:
        return
    src = origin(fn, keeps[0].args[1])
    chain = {x[1].split("::")[-1] for x in calls_in(src)}
    # between the receipt's logs and the result nothing but the filter: the kept value is the receipt's log, unchanged
    R.ob(not (chain & {"map", "filter_map", "flat_map", "scan", "zip", "chain", "rev", "skip", "take", "step_by"}), "WIRE", keeps[0].where(), "WIRE|get_logs|pushed-log",
         "the kept value is transformed on its way to the result (%s)" % sorted(chain & {"map", "filter_map", "flat_map", "scan", "zip", "chain", "rev", "skip", "take", "step_by"}))
    kid = ((filters[0].func or {}).get("arg_cl") or [None])[0]
    desc = {g.id: g for g in F.descendants(fn.id)}
    K = desc.get(kid)
    R.ob(K is not None, "ANCHOR", fn.where(), "ANCHOR|get_logs|match-flag", "the filter predicate is not a closure of get_logs")
    if K is None:
        return
    bodies = [K] + [g for g in F.descendants(K.id)]
    # address: an equality between the log's address and the requested one whose `false` makes the predicate false
    ok_addr, why = False, "no equality between the log's address and the requested one"
    for g in bodies:
        for c in g.calls():
            if g.is_cleanup(c.bb) or (c.method or "") not in ("eq", "ne"):
                continue
            a0, a1 = origin(g, c.args[0]), origin(g, c.args[1])
            if (mentions(a0, "address") and mentions(a1, "contract_address")) or (mentions(a1, "address") and mentions(a0, "contract_address")):
                if (c.method or "") == "eq":
                    ok_addr, why = false_forces_false(g, c)
                else:
                    ok_addr, why = False, "`!=` form not recognised"
    R.ob(ok_addr, "GUARD", K.where(), "GUARD|get_logs|address", "address filter: %s" % why, sample={"rule": "GUARD", "fn": "get_logs", "row": "log.address == filter.address, false => not kept"})
    # positions: one `all` over the enumerated filter positions, monotone in the predicate
    alls = [(g, c) for g in bodies for c in g.calls() if not g.is_cleanup(c.bb) and (c.method or "") in ("all", "any") and (c.trait or "").endswith("Iterator")
            and mentions(origin(g, c.args[0]), "enumerate")]
    ok_pos, why = False, "no `all` over the enumerated filter positions"
    pos_cl = None
    if len(alls) == 1 and (alls[0][1].method or "") == "all":
        ok_pos, why = false_forces_false(*alls[0])
        pos_cl = desc.get(((alls[0][1].func or {}).get("arg_cl") or [None])[0]) or {g.id: g for g in bodies}.get(((alls[0][1].func or {}).get("arg_cl") or [None])[0])
    elif alls:
        why = "positions are combined with %s" % sorted({c.method for _, c in alls})
    R.ob(ok_pos, "GUARD", K.where(), "GUARD|get_logs|push-under-matched", "a log is kept although a filter position does not match: %s" % why,
         sample={"rule": "GUARD", "fn": "get_logs", "positions": "all(position matches), false => not kept"})
    if pos_cl is None:
        R.floor("topic_presence_tests", 0, 2)
        return
    # presence tests in the per-position predicate: the absent edge can only return false
    LOG_TOPICS = "FixedBytesED<32>"
    n_idx = 0
    for (b2, s2, fm, line) in edge_forms(pos_cl):
        if fm.rel != "<=" or len(fm.lin.terms) != 2:
            continue
        lens = [(t, cf) for t, cf in fm.lin.terms.items() if "len(" in show(t) and any(x[1].split("::")[-1] == "len" and LOG_TOPICS in (x[3] or "") for x in calls_in(t))]
        if lens and lens[0][1] == -1 and fm.lin.k == 1:
            others = [x for x in pos_cl.succ(b2) if x != s2]
            n_idx += 1
            fr = forced_result(pos_cl, others[0]) if others else {"?"}
            R.ob(fr == {False}, "GUARD", "%s:%s" % (pos_cl.loc["f"], pos_cl.term(b2)["loc"]["l"]), "GUARD|get_logs|absent-topic-no-match:len",
                 "a log with fewer topics than the filter position can still match: past the `idx >= log.topics.len()` edge the position predicate can return %s" % sorted(str(x) for x in fr),
                 sample={"rule": "GUARD", "fn": "get_logs", "presence_test": "idx < log.topics.len()", "absent_edge": "returns false"})
    for c in pos_cl.calls():
        if (c.method or "") == "get" and not pos_cl.is_cleanup(c.bb) and LOG_TOPICS in (c.self_ty or (c.res or {}).get("full") or c.full or ""):
            sw = pos_cl.succ(c.bb)[0]
            t = pos_cl.term(sw)
            if t["k"] == "switch":
                none_t = [tb for v, tb in t["targets"] if v == 0] or [t["otherwise"]]
                n_idx += 1
                fr = forced_result(pos_cl, none_t[0])
                R.ob(fr == {False}, "GUARD", c.where(), "GUARD|get_logs|absent-topic-no-match:get",
                     "a log with fewer topics than the filter position can still match: `log.topics.get(idx)` being None can return %s" % sorted(str(x) for x in fr))
    # (iii) `log.topics.get(idx).is_some_and(|topic| ..)` / `.map_or(false, |topic| ..)`: absent => false by the adapter's own
    # meaning; its result must be used monotonically for the position predicate
    monotone_adapters = {}
    for c in pos_cl.calls():
        if pos_cl.is_cleanup(c.bb) or not c.args:
            continue
        m_ = c.method or ""
        if m_ not in ("is_some_and", "map_or"):
            continue
        rt = origin(pos_cl, c.args[0])
        gets = [x for x in calls_in(rt) if x[1].split("::")[-1] == "get" and LOG_TOPICS in (x[3] or x[4] or "")]
        if not gets:
            continue
        if m_ == "map_or":
            dflt = origin(pos_cl, c.args[1])
            if not (dflt[0] == "const" and dflt[1] is False):
                continue
        n_idx += 1
        okm, whym = false_forces_false(pos_cl, c)
        R.ob(okm, "GUARD", c.where(), "GUARD|get_logs|absent-topic-no-match:get",
             "a log with fewer topics than the filter position can still match: the result of `get(idx).%s(..)` is not what decides the position (%s)" % (m_, whym),
             sample={"rule": "GUARD", "fn": "get_logs", "presence_test": "log.topics.get(idx).%s(..)" % m_, "absent": "false"})
        for cid in ((c.func or {}).get("arg_cl") or []):
            monotone_adapters[cid] = c
    R.floor("topic_presence_tests", n_idx, 2)
    # alternatives of one position: `any`, monotone (in the position predicate itself, or in the closure a presence adapter runs)
    under = [pos_cl] + [g for g in F.descendants(pos_cl.id) if g.id in monotone_adapters]
    anys = [(g, c) for g in under for c in g.calls() if not g.is_cleanup(c.bb) and (c.method or "") in ("any", "all") and (c.trait or "").endswith("Iterator")]
    ok_alt, why = False, "no `any` over a position's alternatives"
    if len(anys) == 1 and (anys[0][1].method or "") == "any":
        ok_alt, why = false_forces_false(*anys[0])
    elif anys:
        why = "alternatives are combined with %s" % sorted({c.method for _, c in anys})
    R.ob(ok_alt, "GUARD", pos_cl.where(), "GUARD|get_logs|alternatives", "a list position: %s" % why,
         sample={"rule": "GUARD", "fn": "get_logs", "alternatives": "any(topic == alternative), false => position does not match"})
    # every raw index into the log's topics must sit behind one of the presence tests
    for g2 in [fn] + list(F.descendants(fn.id)):
        for c in g2.calls():
            if g2.is_cleanup(c.bb) or not (c.trait or "").endswith("Index") or (c.method or "") != "index":
                continue
            if "SingleOrVec" in (c.self_ty or ""):
                continue
            ok = _guarded_index(F, fn, g2, c)
            R.ob(ok, "GUARD", c.where(), "GUARD|get_logs|topic-index:%s" % ("closure" if g2 is not fn else "body"),
                 "log.topics[idx] is reached without `idx < log.topics.len()` on the path: a filter position beyond the log's "
                 "topic count panics instead of not matching", sample={"rule": "GUARD", "fn": g2.name[-50:], "index": "log.topics[idx]", "guard": "idx < len"})


def _guarded_index(F, top, g, c):
    """is the index call (in g, possibly a closure of top) control dependent on an `idx < len(X)` edge where X is the
    indexed collection (same element type: the log's topics, not the filter's)"""
    want_ty = (c.self_ty or "")

    def same_collection(fn, len_term):
        # the len() call's receiver type must be the indexed collection's type
        for x in calls_in(len_term):
            if x[1].split("::")[-1] == "len" and x[3]:
                return x[3].replace(" ", "") == want_ty.replace(" ", "")
        return False

    def has_guard(fn, bb):
        from terms import edge_dominates
        for (b2, s2, fm, line) in edge_forms(fn):
            if fm.rel != "<=":
                continue
            lens = [(t, cf) for t, cf in fm.lin.terms.items() if "len(" in show(t) and same_collection(fn, t)]
            if lens and lens[0][1] == -1 and fm.lin.k == 1 and len(fm.lin.terms) == 2 and edge_dominates(fn, (b2, s2), bb):
                return True
        return False
    if has_guard(g, c.bb):
        return True
    if g is not top:
        # closure: the place where it is handed over must be guarded in the parent chain
        parent = F.fns.get(g.j.get("parent"))
        while parent is not None:
            for b in range(len(parent.blocks)):
                t = parent.term(b)
                if t["k"] == "call":
                    for a in t.get("args", []):
                        if "l" in a and g.id in parent.local_closures(a["l"]):
                            if has_guard(parent, b):
                                return True
            g = parent
            parent = F.fns.get(parent.j.get("parent")) if parent.j.get("parent") else None
    return False
