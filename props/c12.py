"""C12 — without credentials nobody can drive the indexer interface.

Decides: deny list complete w.r.t. the inferred write effects of the registered
handlers (W ⊆ D ⊆ M); all three dispatch paths of the RPC middleware guard the
inner service by the validator; the validator is `authorized ∨ ¬listed`; only
the HTTP layer mints `Authorized`, under `allow_all ∨ header == expected`;
`allow()` only when auth is disabled; middleware wiring precedes start."""
import itertools
import os

from effects import Effects
from lockrule import LockModel
from report import Report
import roles
from terms import (origin, show, bool_edge, control_deps, reachable_without_edges, bool_fn_table, bool_fn_table_inlined,
                   eval_bool_table, calls_in, leaves, mentions)
from c10 import classify_methods


def run(ctx):
    R = Report("C12", ctx.tier, "proof", "effect inference for deny-list completeness + CFG/dominance rules on the auth middleware")
    F = ctx.facts()
    CG = ctx.cg()
    LM = LockModel(F, CG)
    E = Effects(F, CG, LM)
    R.explanation = (
        "Completeness: registered method names and deny-list strings are read from MIR constants; every handler with "
        "an inferred write effect (EFFECT rule, C10's read shape excluded) must be listed, every listed name must be "
        "registered. Dispatch: in the RpcServiceT impl of the auth middleware, the inner service call is reachable "
        "only over the validator's true edge (call, notification); in batch every path round the loop either is an "
        "already-failed entry, or passes the matching validator and, on false, overwrites the entry with Err. "
        "Validator semantics by truth table over its two atoms. Minting of Authorized and wiring by who-may-call + dominance.")
    R.trusted = ["rustc resolution/MIR (A1)", "call-graph closure (A2)", "jsonrpsee/tower dispatch every request through the "
                 "installed middleware (A3)"]
    methods, deny, read, write = classify_methods(F)
    names = [m[0] for m in methods]
    R.say("C12: %d registered methods, deny list = %s" % (len(names), sorted(deny)))
    R.floor("registered_methods", len(names), 55)
    R.floor("deny_entries", len(deny), 13)
    containers, payloads = roles.state_containers(F)
    dbname = roles.database_struct(F)["name"]
    cl = E.closed()
    db_lock = None
    for s in LM.sites:
        if s["mode"] == "W" and dbname.split("::")[-1] in (s["call"].func.get("self_ty") or ""):
            db_lock = s["lock"]

    def write_effects(h):
        out = set()
        for e in cl[h]:
            k, subj = e
            if k == "MUT" and subj in containers:
                out.add(e)
            elif k in ("WDISK", "COMMIT", "IMUT", "OPEN"):
                out.add(e)
            elif k == "WLOCK" and subj != db_lock:
                out.add(e)
        return out

    # 1. W ⊆ D ⊆ M
    W = {}
    for (name, ms, handlers, c) in methods:
        R.ob(bool(handlers), "DENY-RESOLVE", c.where(), "DENY-RESOLVE|%s" % name,
             "registered method %s resolves to no handler body" % name)
        effs = set()
        for h in handlers:
            effs |= write_effects(h)
        if effs:
            W[name] = (effs, handlers)
        ok = (not effs) or (name in deny)
        R.ob(ok, "DENY-COMPLETE", c.where(), "DENY-COMPLETE|%s" % name,
             "method %s can mutate state (%s) but is not on the deny list" % (
                 name, ", ".join(sorted("%s(%s)" % (e[0], e[1].split("::")[-1]) for e in effs)[:6])),
             path=(E.witness(handlers[0], sorted(effs)[0]) if effs and handlers else []),
             sample={"rule": "DENY-COMPLETE", "method": name, "writes": bool(effs), "listed": name in deny})
    for d in sorted(deny):
        R.ob(d in names, "DENY-REGISTERED", "src/api/api.rs", "DENY-REGISTERED|%s" % d,
             "deny-list entry %r is not a registered method name (a misspelt entry protects nothing)" % d)
    R.say("C12: methods with write effects: %s" % sorted(W))
    R.floor("writer_methods", len(W), 11)

    # 2. dispatch paths (the rules below look for the validator *calls* on guard edges: keep calls as calls)
    import terms as _terms
    _terms.INLINE_ACCESSORS = False
    mw_impls = [f for f in F.fns.values() if (f.j.get("trait") or "").endswith("RpcServiceT") and f.kind == "method"]
    by_method = {f.j["method"]: f for f in mw_impls}
    R.floor("rpc_service_methods", len(by_method), 3)
    validators = {}
    abstract_ok = set()
    for m in ("call", "notification"):
        f = by_method.get(m)
        if not f:
            R.violation("DISPATCH", "src/server/auth.rs", "DISPATCH|%s|missing" % m, "RpcServiceT::%s not implemented locally" % m)
            continue
        inner = [c for c in f.calls() if c.trait and c.trait.endswith("RpcServiceT") and c.method == m and not f.is_cleanup(c.bb)]
        R.ob(len(inner) >= 1, "DISPATCH", f.where(), "DISPATCH|%s|inner" % m, "no inner service.%s call found" % m)
        for ic in inner:
            # every path entry -> inner call takes a switch edge on which a local validator returned true
            edges = []
            for b in range(len(f.blocks)):
                for s in f.succ(b):
                    be = bool_edge(f, b, s)
                    if be and be[1] is True:
                        cs = [c for c in calls_in(be[0]) if "validate" in c[1] or "RpcAuthMiddleware" in c[1]]
                        loc = [c for c in calls_in(be[0]) if any(ff.name.split("<")[0] == c[1].split("<")[0] or ff.name == c[1] for ff in F.by_name.get(c[1], []))]
                        if be[0][0] == "call" and F.by_name.get(be[0][1]):
                            edges.append(((b, s), be[0][1]))
            guard_edges = [e for e, v in edges]
            reach = reachable_without_edges(f, guard_edges)
            ok = ic.bb not in reach and bool(guard_edges)
            if not ok or not any((F.fn_opt(v_) is not None) and _validator_shape_ok(F, F.fn_opt(v_)) for e_, v_ in edges):
                # decided by abstract execution: whatever the predicate is called and whichever way round it is phrased
                # (`!validate(..)`, `must_refuse(..)`, a generic helper over a private trait), the inner service is reached
                # exactly when the request carries the Authorized marker or its method is not on the deny list
                ok_abs, why_abs = _dispatch_abstract(F, f, ic)
                if ok_abs:
                    ok = True
                    abstract_ok.add(m)
                    edges = []
                elif not ok:
                    R.note("DISPATCH %s: abstract execution: %s" % (m, why_abs))
            R.ob(ok, "DISPATCH", ic.where(), "DISPATCH|%s|unguarded" % m,
                 "inner service.%s is reachable without passing the validator's true edge" % m,
                 sample={"rule": "DISPATCH", "path": m, "validator": [v for e, v in edges]})
            for e, v in edges:
                validators[m] = v
    # batch
    fb = by_method.get("batch")
    if fb:
        if abstract_ok and not validators:
            okb, whyb = _batch_abstract(F, fb)
            R.ob(okb, "DISPATCH", fb.where(), "DISPATCH|batch|loop", "batch: %s" % whyb,
                 sample={"rule": "DISPATCH batch path", "decided_by": "abstract execution", "row": "entry replaced by Err <=> Ok entry, listed method, no Authorized marker"})
        else:
            _check_batch(R, F, fb, validators)
    # validator semantics
    for m, v in sorted(validators.items()):
        vf = F.fn_opt(v)
        if not vf:
            R.violation("VALIDATOR", "src/server/auth.rs", "VALIDATOR|%s|missing" % v, "validator %s not found" % v)
            continue
        rows = bool_fn_table_inlined(F, vf)
        atoms = sorted({a for (ats, val) in rows for (a, t) in ats} | {val[1] for (ats, val) in rows if isinstance(val, tuple)})
        A = [a for a in atoms if "Extensions::get" in a and "is_some" in a]
        B = [a for a in atoms if "contains" in a and "denylist" in a and "method_name" in a]
        vbodies = [vf] + [F.fns[c.target_id] for c in vf.calls() if c.target_id in F.fns and F.fns[c.target_id].blocks and (F.fns[c.target_id].j.get("output") or "") == "bool"]
        gen_ok = any("Authorized" in (c.full or "") for vb in vbodies for c in vb.calls() if c.path and c.path.endswith("Extensions::get"))
        ok = len(A) == 1 and len(B) == 1 and len(atoms) == 2 and gen_ok
        if ok:
            for va, vb in itertools.product([False, True], repeat=2):
                got = eval_bool_table(rows, {A[0]: va, B[0]: vb})
                want = va or (not vb)
                R.ob(got == want, "VALIDATOR", vf.where(), "VALIDATOR|%s|authorized=%s,listed=%s" % (v, va, vb),
                     "%s returns %s for authorized=%s listed=%s; expected %s (allowed iff authorized or not listed)" % (v, got, va, vb, want),
                     sample={"rule": "VALIDATOR truth table", "fn": v, "authorized": va, "listed": vb, "allowed": got})
        else:
            R.violation("VALIDATOR", vf.where(), "VALIDATOR|%s|shape" % v,
                        "validator %s is not a function of exactly {has Authorized extension, denylist.contains(method_name)}: atoms=%s" % (v, atoms))

    # 3. who may mint Authorized
    auth_adt = [a for a in F.adts.values() if a["name"].endswith("::Authorized")]
    R.floor("authorized_marker", len(auth_adt), 1)
    if auth_adt:
        an = auth_adt[0]["name"]
        builders = []
        for f in F.body_fns():
            for b in f.blocks:
                for s in b["stmts"]:
                    if s["k"] == "assign" and s["rv"]["k"] == "agg" and s["rv"].get("adt") == an:
                        builders.append(f)
        for f in builders:
            # Default mints; Clone copies an existing marker (needs one to exist)
            ok = f.j.get("trait") in ("std::default::Default", "std::clone::Clone")
            R.ob(ok, "MINT", f.where(), "MINT|construct|%s" % f.name,
                 "Authorized is constructed in %s (only its Default impl may)" % f.name)
        minters = set(f.id for f in builders)
        # callers of the constructors
        for f in F.body_fns():
            for c in f.calls():
                if c.target_id in minters and f.id not in minters:
                    ok = (f.j.get("trait") or "").endswith("ValidateRequest") and f.j.get("method") == "validate"
                    R.ob(ok, "MINT", c.where(), "MINT|call|%s" % f.name,
                         "Authorized::default() is called from %s (only the HTTP layer's validate may mint it)" % f.name)
                    if ok:
                        _check_mint_guard(R, F, f, c)
        # insertions of Authorized into request extensions
        for f in F.body_fns():
            for c in f.calls():
                if c.path and c.path.endswith("Extensions::insert") and "Authorized" in (c.full or ""):
                    ok = (f.j.get("trait") or "").endswith("ValidateRequest")
                    R.ob(ok, "MINT", c.where(), "MINT|insert|%s" % f.name, "Authorized extension inserted in %s" % f.name)
    # allow(): only on the !enable_auth branch
    _check_allow(R, F)
    # 4. wiring
    _check_wiring(R, F, CG)
    _terms.INLINE_ACCESSORS = True
    return R


def _validator_shape_ok(F, vf):
    rows = bool_fn_table_inlined(F, vf)
    atoms = sorted({a for (ats, val) in rows for (a, t) in ats} | {val[1] for (ats, val) in rows if isinstance(val, tuple)})
    A = [a for a in atoms if "Extensions::get" in a and "is_some" in a]
    B = [a for a in atoms if "contains" in a and "denylist" in a and "method_name" in a]
    return len(A) == 1 and len(B) == 1 and len(atoms) == 2


def _auth_atoms(v):
    """{shown term: ('A'|'D', call)}: A = the request carries the Authorized marker, D = its method is on the deny list"""
    from terms import call_origin
    out = {}
    for c in v.calls():
        if v.is_cleanup(c.bb):
            continue
        t = call_origin(v, c.t, 0, frozenset(), 40)
        if (c.method or "") == "contains" and c.args and mentions(origin(v, c.args[0]), "denylist") and mentions(origin(v, c.args[1]), "method_name"):
            out[show(t)] = ("D", c)
        if (c.method or "") in ("is_some", "is_none") and c.args:
            src = origin(v, c.args[0])
            gets = [x for x in calls_in(src) if x[1].endswith("Extensions::get")]
            if gets and any("Authorized" in (g_[4] or "") or "Authorized" in (g_[3] or "") for g_ in gets):
                out[show(t)] = ("A" if c.method == "is_some" else "notA", c)
    return out


def _dispatch_abstract(F, f, ic):
    from terms import explore_under
    v = F.inlined(f)
    targets = {bi for bi in range(len(v.blocks)) if v.prov(bi) == (f.id, ic.bb)} or {ic.bb}
    atoms = _auth_atoms(v)
    kinds = sorted(k for k, _ in atoms.values())
    if kinds not in (["A", "D"], ["D", "notA"]):
        return False, "decision atoms found: %s" % kinds
    names = sorted(atoms)
    for combo in itertools.product([False, True], repeat=len(names)):
        asg = dict(zip(names, combo))

        def env_of(t, asg=asg):
            x = t
            while x[0] in ("ref", "deref", "cast"):
                x = x[1]
            if x[0] == "call":
                sx = show(x)
                if sx in asg:
                    return asg[sx]
            return None
        rets, visited = explore_under(v, env_of)
        for ub in getattr(explore_under, "undecided", ()):
            succs = [sx for sx in v.succ(ub) if v.term(sx)["k"] != "unreachable"]
            r_ = [any(tb in v.reachable(sx) for tb in targets) for sx in succs]
            if any(r_) and not all(r_):
                return False, "the inner call also depends on `%s`" % show(origin(v, v.term(ub)["discr"]))[:80]
        val = {atoms[n][0]: asg[n] for n in names}
        authorized = val["A"] if "A" in val else (not val["notA"])
        want = authorized or (not val["D"])
        got = any(tb in visited for tb in targets)
        if got != want:
            return False, "authorized=%s listed=%s: inner service %sreached" % (authorized, val["D"], "" if got else "not ")
    return True, "abstract"


def _batch_abstract(F, fb):
    """every entry: replaced by Err exactly when it is an Ok entry whose method is listed and that carries no marker.  The
    entry kinds (call, notification) are the *arms*: an arm is a (marker test, deny-list test) pair about the same message;
    each arm is executed abstractly with the other arms' tests fenced off"""
    from terms import explore_under, eval_term
    bodies = [F.inlined(fb)] + [g for g in F.descendants(fb.id)]
    decided = 0
    for B in bodies:
        stores = []
        for bi, b in enumerate(B.blocks):
            if b.get("cleanup"):
                continue
            for s_ in b["stmts"]:
                if s_["k"] == "assign" and "*" in (s_["lhs"].get("p") or []):
                    from terms import rvalue_origin as _rvo
                    tv = _rvo(B, s_["rv"], 0, frozenset(), 20)
                    if tv[0] == "agg" and tv[1].endswith("Result::Err"):
                        stores.append(bi)
        if not stores:
            continue
        atoms = _auth_atoms(B)
        # pair the tests by the message they are about
        def subject(c, kind):
            t = origin(B, c.args[1] if kind == "D" else c.args[0])
            for x in calls_in(t):
                if x[1].split("::")[-1] in ("method_name", "extensions") and x[2]:
                    return show(x[2][0])
            return None
        arms = {}
        for n, (kind, c) in atoms.items():
            sj = subject(c, kind)
            if sj is None:
                return False, "a marker / deny-list test in %s is not about a message of the batch" % B.name[-40:]
            arms.setdefault(sj, {})["D" if kind == "D" else "A"] = (n, kind, c)
        arms = {k: v for k, v in arms.items() if "A" in v and "D" in v}
        if len(arms) < 2:
            return False, "%d of the two entry kinds (call, notification) test both the marker and the deny list before an entry is replaced" % len(arms)

        def make_env(asg):
            def env_of(t):
                x = t
                while x[0] in ("ref", "deref", "cast"):
                    x = x[1]
                if x[0] == "call":
                    sx = show(x)
                    if sx in asg:
                        return asg[sx]
                    if x[1].split("::")[-1] in ("then", "then_some") and x[2]:
                        c0 = eval_term(x[2][0], env_of)
                        if isinstance(c0, bool):
                            return "Some" if c0 else "None"
                return None
            return env_of
        all_arm_blocks = {v[k][2].bb for v in arms.values() for k in ("A", "D")}
        for sj, arm in arms.items():
            fence = all_arm_blocks - {arm["A"][2].bb, arm["D"][2].bb}
            for a_val, d_val in itertools.product([False, True], repeat=2):
                asg = {arm["A"][0]: a_val, arm["D"][0]: d_val}
                rets, visited = explore_under(B, make_env(asg), avoid=fence)
                authorized = a_val if arm["A"][1] == "A" else (not a_val)
                want = d_val and not authorized
                # only paths that actually consulted this arm count (the others are the Err-entry / other-kind paths)
                consulted = arm["D"][2].bb in visited or arm["A"][2].bb in visited
                if not consulted:
                    return False, "the tests of one entry kind are unreachable"
                got = any(sb in visited and (B.sdominates(arm["D"][2].bb, sb) or B.sdominates(arm["A"][2].bb, sb) or _reaches_via(B, visited, arm, sb)) for sb in stores)
                if got != want:
                    return False, "an entry with authorized=%s listed=%s is %sreplaced by Err" % (authorized, d_val, "" if got else "not ")
        # an entry that consults no arm (already Err) is left alone
        rets, visited = explore_under(B, make_env({}), avoid=all_arm_blocks)
        if any(sb in visited for sb in stores):
            return False, "an entry is replaced by Err without any test"
        decided += 1
    if not decided:
        return False, "no place where an entry is replaced by Err was found"
    return True, "abstract"


def _reaches_via(B, visited, arm, sb):
    """the store is reached on an explored path that went through this arm's tests"""
    starts = [arm["D"][2].bb, arm["A"][2].bb]
    return any(st in visited and sb in B.reachable(st, avoid=set(range(len(B.blocks))) - visited) for st in starts)


def _check_batch(R, F, fb, validators):
    # loop head = block calling Iterator::next
    heads = [c for c in fb.calls() if c.path and c.path.endswith("Iterator::next") and not fb.is_cleanup(c.bb)]
    R.ob(len(heads) == 1, "DISPATCH", fb.where(), "DISPATCH|batch|loop", "batch: expected exactly one iteration over the entries")
    if len(heads) != 1:
        return
    head = heads[0].bb
    nxt = fb.succ(head)[0]
    t = fb.term(nxt)
    if t["k"] != "switch":
        R.violation("DISPATCH", fb.where(), "DISPATCH|batch|shape", "batch: no switch on next()")
        return
    some_bb = None
    none_bb = None
    for v, tb in t["targets"]:
        if v == 1:
            some_bb = tb
        if v == 0:
            none_bb = tb
    if some_bb is None:
        some_bb = t["otherwise"]
    # inner batch call only after the loop
    inner = [c for c in fb.calls() if c.trait and c.trait.endswith("RpcServiceT") and not fb.is_cleanup(c.bb)]
    R.ob(len(inner) == 1 and inner[0].method == "batch", "DISPATCH", fb.where(), "DISPATCH|batch|inner",
         "batch: expected exactly one inner service.batch call")
    loop_blocks = fb.reachable(some_bb, avoid={head})
    for c in inner:
        R.ob(c.bb not in loop_blocks, "DISPATCH", c.where(), "DISPATCH|batch|inner-in-loop", "inner service call inside the validation loop")
    # enumerate paths some_bb -> head
    paths = []
    st = [(some_bb, [some_bb])]
    while st:
        b, p = st.pop()
        for s in fb.succ(b):
            if s == head:
                paths.append(p + [head])
            elif s not in p and s in loop_blocks:
                st.append((s, p + [s]))
    R.floor("batch_loop_paths", len(paths), 4)
    vset = set(validators.values())
    for p in paths:
        variants = []
        validated = None
        err_assigned = False
        verdict = None
        infeasible = False
        for i, b in enumerate(p[:-1]):
            tm = fb.term(b)
            for s in fb.blocks[b]["stmts"]:
                if s["k"] == "assign" and s["lhs"].get("p") == ["*"]:
                    from terms import rvalue_origin
                    o = rvalue_origin(fb, s["rv"], 0, frozenset(), 40)
                    if o[0] == "agg" and o[1].endswith("Result::Err"):
                        err_assigned = True
            if tm["k"] == "switch":
                d = origin(fb, tm["discr"])
                if d[0] == "discr" and len(d) > 3 and d[3]:
                    vals = [v for v, tb in tm["targets"] if tb == p[i + 1]]
                    names = [n for (n, val) in d[3] if val in vals]
                    if tm.get("otherwise") == p[i + 1]:
                        listed = {v for v, tb in tm["targets"]}
                        names += [n for (n, val) in d[3] if val not in listed]
                    if not names:
                        infeasible = True     # `otherwise` edge of an exhaustive variant switch
                    variants += names
                else:
                    be = bool_edge(fb, b, p[i + 1])
                    if be and be[0][0] == "call" and be[0][1] in vset:
                        validated = be[0][1]
                        verdict = be[1]
            if tm["k"] == "call":
                pass
        key = "/".join(variants) or "?"
        if infeasible:
            continue
        if "Err" in variants:
            R.ok(1, sample={"rule": "DISPATCH batch path", "variants": key, "status": "already-failed entry: nothing to validate"})
            continue
        if validated is None:
            R.violation("DISPATCH", fb.where(), "DISPATCH|batch|unvalidated:%s" % key,
                        "batch entry variant %s reaches the inner service without passing a validator" % key)
            continue
        if verdict is False and not err_assigned:
            R.violation("DISPATCH", fb.where(), "DISPATCH|batch|not-rejected:%s" % key,
                        "batch entry variant %s: validator returned false but the entry is not replaced by Err" % key)
            continue
        if verdict is True and err_assigned:
            R.violation("DISPATCH", fb.where(), "DISPATCH|batch|rejected-valid:%s" % key,
                        "batch entry variant %s: authorised entry is replaced by Err" % key)
            continue
        # variant <-> validator agreement (Call -> call's validator, Notification -> notification's)
        want = None
        if "Call" in variants:
            want = validators.get("call")
        elif "Notification" in variants:
            want = validators.get("notification")
        R.ob(want is None or want == validated, "DISPATCH", fb.where(), "DISPATCH|batch|validator:%s" % key,
             "batch variant %s validated by %s, single-request path uses %s" % (key, validated, want),
             sample={"rule": "DISPATCH batch path", "variants": key, "validator": validated, "verdict": verdict, "err_assigned": err_assigned})


def _comparator_ok(F, g):
    """a local credential comparator is a whole-value equality only if the lengths of its two inputs are compared
    (an `len(a) == len(b)`-shaped form somewhere in it) -- or it delegates to std equality on the whole values"""
    from guards import edge_forms, return_form, compare_form
    from terms import rvalue_origin
    forms = [fm for (b, s, fm, line) in edge_forms(g)] + [fm for fm, line in return_form(g)]
    for b in g.blocks:
        for st in b["stmts"]:
            if st["k"] == "assign" and st["rv"]["k"] == "bin":
                fm = compare_form(rvalue_origin(g, st["rv"], 0, frozenset(), 30))
                if fm is not None:
                    forms.append(fm)
    for fm in forms:
        if fm.rel in ("==", "!=") and fm.lin.k == 0 and len(fm.lin.terms) == 2:
            ts = [show(t) for t in fm.lin.terms]
            if all("len(" in t for t in ts) and any("param:" in t for t in ts):
                return True
    for c in g.calls():
        p = c.target_path or ""
        if (p.endswith("PartialEq>::eq") or p.endswith("::eq") or p.endswith("ct_eq") or p.endswith("constant_time_eq")) and len(c.args) == 2 and not (c.res or {}).get("local"):
            a = [show(origin(g, x)) for x in c.args]
            if all("param:" in x for x in a) and not any("next(" in x or "[" in x for x in a):
                return True
    return False


def _check_mint_guard(R, F, f, c):
    """the minting call must be reachable only over `allow_all == true` or `credential comparison == true`, where the
    comparison is an equality of the *whole* provided header with the expected one"""
    def cred_atom(t):
        """classify a boolean term: 'allow_all' | 'eq' | 'bad-comparator:<fn>' | None"""
        if mentions(t, "allow_all") and not mentions(t, "Authorization"):
            return "allow_all"
        if not (mentions(t, "Authorization") and mentions(t, "header")):
            return None
        # std equality on Option<&str> / &str
        cs = calls_in(t)
        head = cs[0] if cs else None
        if head and (head[1].endswith("::eq") or head[1].endswith("::ne")) and not F.by_name.get(head[1]):
            both = all(mentions(a, "self") and mentions(a, "header") or mentions(a, "Authorization") for a in head[2])
            return "eq" if both and any(mentions(a, "self") for a in head[2]) else None
        # a local comparator applied to (expected, provided)
        for x in cs:
            gs = F.by_name.get(x[1]) or []
            if gs and len(x[2]) == 2 and any(mentions(a, "Authorization") for a in x[2]) and any(mentions(a, "self") and mentions(a, "header") for a in x[2]):
                return "eq" if _comparator_ok(F, gs[0]) else "bad-comparator:%s" % x[1]
        # phi of a local bool computed by a match: look through
        return None
    true_edges = []
    kinds = set()
    bad = []
    for b in range(len(f.blocks)):
        for s in f.succ(b):
            be = bool_edge(f, b, s)
            if be and be[1] is True:
                k = cred_atom(be[0])
                if k is None and be[0][0] == "phi":
                    # `let authorized = match .. { .. => cmp(..), _ => false }`: every non-false alternative must be a comparison
                    alts = [x for x in be[0][1] if not (x[0] == "const" and x[1] is False)]
                    ks = {cred_atom(x) for x in alts}
                    if alts and len(ks) == 1:
                        k = ks.pop()
                if k is None and be[0][0] == "call":
                    # the guard is a local boolean helper (`if self.is_authorized(request)`): it must compute allow_all OR eq
                    hs = F.by_name.get(be[0][1]) or []
                    if len(hs) == 1 and (hs[0].j.get("output") or "") == "bool" and hs[0].blocks:
                        from terms import _bool_rows_terms
                        import itertools as _it
                        rows_t = _bool_rows_terms(hs[0])
                        atoms_t = {}
                        okh = True
                        for atoms_, val_ in rows_t:
                            for (a_, tr_) in list(atoms_) + ([(val_[1], True)] if isinstance(val_, tuple) else []):
                                ka = cred_atom(a_)
                                if ka in ("allow_all", "eq"):
                                    atoms_t[show(a_)] = ka
                                elif ka and ka.startswith("bad-comparator"):
                                    bad.append(ka)
                                    okh = False
                                else:
                                    okh = False
                        if okh and set(atoms_t.values()) == {"allow_all", "eq"}:
                            srows = [(tuple((show(a_), tr_) for (a_, tr_) in atoms_), (("atom", show(val_[1]), val_[2]) if isinstance(val_, tuple) else val_)) for atoms_, val_ in rows_t]
                            names_ = sorted(atoms_t)
                            good = True
                            for vals_ in _it.product([False, True], repeat=len(names_)):
                                asg = dict(zip(names_, vals_))
                                want_ = any(v for n_, v in asg.items())      # allow_all OR eq
                                if eval_bool_table(srows, asg) != want_:
                                    good = False
                            if good:
                                true_edges.append((b, s))
                                kinds |= {"allow_all", "eq"}
                                continue
                if k in ("allow_all", "eq"):
                    true_edges.append((b, s))
                    kinds.add(k)
                elif k and k.startswith("bad-comparator"):
                    bad.append(k)
    for k in sorted(set(bad)):
        R.violation("MINT", c.where(), "MINT|comparator|%s" % k.split(":", 1)[1],
                    "the Authorization header is compared with the expected value by %s, which is not a whole-value equality (no length "
                    "comparison of its two inputs): a prefix or truncated header can be accepted" % k.split(":", 1)[1])
    reach = reachable_without_edges(f, true_edges)
    ok_shape = c.bb not in reach and kinds == {"allow_all", "eq"}
    detail = ""
    if not ok_shape and not bad:
        # decided by abstract execution instead of by the shape of the condition: however the open state is stored (a bool, an
        # enum with an allow-all variant) and however the test is spelled, the mint must be reached exactly when the state has
        # the value only `allow()` builds, or the whole-header equality holds
        ok_abs, detail = _mint_guard_abstract(F, f, c)
        if ok_abs:
            ok_shape = True
            kinds = {"allow_all", "eq"}
    R.ob(ok_shape, "MINT", c.where(), "MINT|guard|%s" % f.name,
         "Authorized is minted on a path that passes neither `allow_all` nor `Authorization header == expected` (recognised guards: %s)%s" % (sorted(kinds), (" [" + detail + "]") if detail else ""),
         sample={"rule": "MINT guard", "fn": f.name, "true_edges": len(true_edges), "guards": sorted(kinds), "decided_by": "abstract execution" if detail == "abstract" else "guard edges"})


def _open_state(F):
    """(field name, value) of the authenticator state that means `accept everything`: the field of the aggregate `allow()` builds
    whose value is the constant true or a payload-free enum variant; value is True or the variant name"""
    allow = [f for f in F.fns.values() if f.name.endswith("HttpNonBlockingAuth::allow")]
    if not allow:
        return None
    f = allow[0]
    for b in f.blocks:
        for s_ in b["stmts"]:
            if s_["k"] == "assign" and s_["rv"]["k"] == "agg" and (s_["rv"].get("adt") or "").endswith("HttpNonBlockingAuth"):
                for fld, op in zip(s_["rv"].get("fields", []), s_["rv"]["ops"]):
                    v = origin(f, op)
                    if v[0] == "const" and v[1] is True:
                        return fld, True
                    if v[0] == "agg" and "::" in v[1] and not v[2] and not v[1].startswith("std::option::Option"):
                        return fld, v[1].split("::")[-1]
    return None


def _mint_guard_abstract(F, f, c):
    import itertools
    from terms import eval_term, subterms
    st = _open_state(F)
    if st is None:
        return False, "open state not found in allow()"
    sfield, open_value = st
    fi = F.inlined(f)
    mint_bbs = {bi for bi in range(len(fi.blocks)) if fi.prov(bi) == (f.id, c.bb)} or {c.bb}

    def classify(d):
        """('state', key, domain) | ('eq', key, [True, False]) | None for a switch discriminant term"""
        x = d
        while x[0] in ("ref", "deref", "cast"):
            x = x[1]
        inner = x[1] if x[0] == "discr" else x
        base = inner
        while base[0] in ("ref", "deref", "cast"):
            base = base[1]
        if base[0] == "field" and base[2] == "." + sfield and not mentions(base, "Authorization"):
            if x[0] == "discr":
                return ("state", show(base), [n for (n, v_) in (x[3] or [])], x)
            return ("state", show(base), [True, False], x)
        if x[0] == "call" and x[1].split("::")[-1] in ("eq", "ne") and len(x[2]) == 2:
            a0, a1 = x[2]
            cred = (mentions(a0, "Authorization") and mentions(a1, "self")) or (mentions(a1, "Authorization") and mentions(a0, "self"))
            if cred:
                gs = F.by_name.get(x[1]) or []
                if gs and not _comparator_ok(F, gs[0]):
                    return None
                return ("eq", show(x), [True, False], x)
        return None
    atoms = {}
    for b in range(len(fi.blocks)):
        t = fi.term(b)
        if t["k"] != "switch" or fi.is_cleanup(b):
            continue
        d = origin(fi, t["discr"])
        k = classify(d)
        if k is None:
            continue          # decided (or not) by the values tracked along the path; checked after each run below
        atoms[k[1]] = k
    from terms import call_origin
    for cc in fi.calls():
        if fi.is_cleanup(cc.bb) or (cc.method or "") not in ("eq", "ne"):
            continue
        k = classify(call_origin(fi, cc.t, 0, frozenset(), 40))
        if k is not None:
            atoms[k[1]] = k
    kinds = {k[0] for k in atoms.values()}
    if kinds != {"state", "eq"} or len(atoms) != 2:
        return False, "decision atoms: %s" % sorted(k[0] + ":" + k[1][:40] for k in atoms.values())
    names = sorted(atoms)
    for combo in itertools.product(*[atoms[n][2] for n in names]):
        asg = dict(zip(names, combo))

        def env_of(t, asg=asg):
            x = t
            while x[0] in ("ref", "deref", "cast"):
                x = x[1]
            for n in names:
                kind, key, dom, term = atoms[n]
                if kind == "eq" and x[0] == "call" and show(x) == key:
                    v = asg[n]
                    return v if x[1].split("::")[-1] == "eq" else (not v)
                if kind == "state":
                    if x[0] == "discr" and show(x[1] if x[1][0] not in ("ref", "deref") else x[1]) and show(_strip_rd(x[1])) == key:
                        for (nm, val) in (x[3] or []):
                            if nm == asg[n]:
                                return val
                    if x[0] == "field" and show(x) == key and isinstance(asg[n], bool):
                        return asg[n]
            return None
        from terms import explore_under
        rets, visited = explore_under(fi, env_of)
        for ub in getattr(explore_under, "undecided", ()):
            # a switch the assignment leaves open must not separate the mint from the entry
            succs = [sx for sx in fi.succ(ub) if fi.term(sx)["k"] != "unreachable"]
            r_ = [any(mb in fi.reachable(sx) for mb in mint_bbs) for sx in succs]
            if any(r_) and not all(r_):
                return False, "the mint also depends on `%s`" % show(origin(fi, fi.term(ub)["discr"]))[:80]
        reached = any(mb in visited for mb in mint_bbs)
        want = any((atoms[n][0] == "state" and asg[n] == open_value) or (atoms[n][0] == "eq" and asg[n] is True) for n in names)
        if reached != want:
            return False, "with %s the mint is %sreached" % ({atoms[n][0]: asg[n] for n in names}, "" if reached else "not ")
    return True, "abstract"


def _strip_rd(t):
    while t[0] in ("ref", "deref", "cast"):
        t = t[1]
    return t


def _check_allow(R, F):
    allow = [f for f in F.fns.values() if f.name.endswith("HttpNonBlockingAuth::allow")]
    R.floor("allow_ctor", len(allow), 1)
    if not allow:
        return
    aid = allow[0].id
    # allow_all: true only constructed in allow()
    for f in F.body_fns():
        for b in f.blocks:
            for s in b["stmts"]:
                if s["k"] == "assign" and s["rv"]["k"] == "agg" and (s["rv"].get("adt") or "").endswith("HttpNonBlockingAuth"):
                    fields = s["rv"].get("fields", [])
                    ops = s["rv"]["ops"]
                    st_ = _open_state(F)
                    if "allow_all" not in fields and st_ is not None and st_[0] in fields:
                        # the open state stored otherwise (an enum with an accept-everything variant): that value is built in allow() only
                        v = origin(f, ops[fields.index(st_[0])])
                        is_open = (v[0] == "const" and v[1] is True and st_[1] is True) or (v[0] == "agg" and v[1].split("::")[-1] == st_[1])
                        copied = f.j.get("trait") == "std::clone::Clone"
                        known = v[0] in ("const", "agg")
                        R.ob((known and not is_open) or f.id == aid or copied, "MINT", f.where(), "MINT|allow_all|%s" % f.name,
                             "HttpNonBlockingAuth{%s: %s} constructed in %s" % (st_[0], show(v)[:60], f.name))
                    if "allow_all" in fields:
                        v = origin(f, ops[fields.index("allow_all")])
                        is_true = v[0] == "const" and v[1] is True
                        copied = f.j.get("trait") == "std::clone::Clone" and "self.allow_all" in show(v)
                        ok = (not is_true and v[0] == "const") or f.id == aid or copied
                        R.ob(ok, "MINT", f.where(), "MINT|allow_all|%s" % f.name,
                             "HttpNonBlockingAuth{allow_all: %s} constructed in %s" % (show(v), f.name))
    callers = []
    for f in F.body_fns():
        for c in f.calls():
            if c.target_id == aid:
                callers.append((f, c))
    R.floor("allow_callers", len(callers), 1)
    for f, c in callers:
        cd = control_deps(f)
        ok = False
        txt = []
        for (a, s) in cd.get(c.bb, set()):
            be = bool_edge(f, a, s)
            if be:
                txt.append("%s=%s" % (show(be[0]), be[1]))
                if "enable_auth" in show(be[0]) and be[1] is False:
                    ok = True
        R.ob(ok, "MINT", c.where(), "MINT|allow-call|%s" % f.name,
             "HttpNonBlockingAuth::allow() is called in %s not under `enable_auth == false` (deps: %s)" % (f.name, txt),
             sample={"rule": "MINT allow()", "caller": f.name, "deps": txt})
    # new(user, pass) receives the configured credentials
    news = [f for f in F.fns.values() if f.name.endswith("HttpNonBlockingAuth::new")]
    for nf in news:
        for f in F.body_fns():
            for c in f.calls():
                if c.target_id == nf.id:
                    o = [show(origin(f, a)) for a in c.args]
                    ok = len(o) == 2 and "rpc_server_user" in o[0] and "rpc_server_password" in o[1]
                    R.ob(ok, "WIRE", c.where(), "WIRE|auth-new|%s" % f.name,
                         "HttpNonBlockingAuth::new receives (%s) instead of (config user, config password)" % ", ".join(o),
                         sample={"rule": "WIRE credentials", "args": o})


def _check_wiring(R, F, CG):
    srv = [f for f in F.fns.values() if f.name.startswith("server::rpc_server::start_rpc_server") and f.kind in ("coroutine",)]
    R.floor("start_rpc_server_body", len(srv), 1)
    if not srv:
        return
    f = srv[0]
    # the always-allow HTTP validator is built only when authentication is switched off: with `enable_auth` true (every other
    # test undecided - missing, empty or odd credentials included) no path reaches `HttpNonBlockingAuth::allow()`
    from terms import explore_under as _xu2
    fi_ = F.inlined(f)
    allow_bbs = {c.bb for c in fi_.calls() if not fi_.is_cleanup(c.bb) and (c.path or "").endswith("HttpNonBlockingAuth::allow")}
    R.floor("http_allow_sites", len(allow_bbs), 1)

    def _auth_env(on):
        def env_of(t):
            x = t
            while x[0] in ("ref", "deref", "cast"):
                x = x[1]
            if x[0] == "field" and x[2] == ".brc20_prog_rpc_server_enable_auth":
                return on
            return None
        return env_of
    _o, vis_on = _xu2(fi_, _auth_env(True), limit=20000)
    _o, vis_off = _xu2(fi_, _auth_env(False), limit=20000)
    R.ob(not (allow_bbs & vis_on), "GUARD", fi_.where(), "GUARD|server|allow-only-when-auth-off",
         "with authentication enabled a path reaches HttpNonBlockingAuth::allow(): on it every request passes the HTTP layer as authorized, "
         "so the indexer methods are open to callers without credentials", sample={"rule": "GUARD (abstract execution)", "fn": "start_rpc_server", "row": "enable_auth => allow() unreachable"})
    R.ob(bool(allow_bbs & vis_off) or not allow_bbs, "GUARD", fi_.where(), "GUARD|server|allow-when-auth-off", "with authentication disabled the always-allow validator is not reached")
    calls = {c.path.split("::")[-1]: c for c in f.calls() if c.path and not f.is_cleanup(c.bb)}
    need = ["set_http_middleware", "set_rpc_middleware", "start", "layer_fn", "custom"]
    for n in need:
        R.ob(n in calls, "WIRE", f.where(), "WIRE|server|%s" % n, "start_rpc_server no longer calls %s" % n)
    if all(n in calls for n in need):
        st = calls["start"].bb
        for n in ("set_http_middleware", "set_rpc_middleware"):
            R.ob(f.sdominates(calls[n].bb, st), "WIRE", calls[n].where(), "WIRE|server|%s-before-start" % n,
                 "%s does not dominate Server::start" % n, sample={"rule": "DOM", "a": n, "b": "start"})
        # data flow: the object passed to set_http_middleware derives from the ValidateRequestHeaderLayer::custom(auth) layer
        o = show(origin(f, calls["set_http_middleware"].args[1]))
        R.ob("ValidateRequestHeaderLayer::custom" in o, "WIRE", calls["set_http_middleware"].where(), "WIRE|server|http-layer",
             "http middleware is not built from ValidateRequestHeaderLayer::custom(auth): %s" % o[:200])
        o2 = show(origin(f, calls["set_rpc_middleware"].args[1]))
        R.ob("layer_fn" in o2, "WIRE", calls["set_rpc_middleware"].where(), "WIRE|server|rpc-layer",
             "rpc middleware is not the layer_fn(RpcAuthMiddleware::new) stack: %s" % o2[:200])
    # the layer_fn closure builds RpcAuthMiddleware::new(service, &*DENYLIST)
    found = False
    denys = roles.deny_list(F)
    dn = denys[0][0] if denys else None
    for ch in F.descendants(f.id):
        for c in ch.calls():
            if c.path and c.path.endswith("RpcAuthMiddleware::<S>::new"):
                found = True
                o = show(origin(ch, c.args[1]))
                R.ob(dn is not None and dn.split("::")[-1] in o, "WIRE", c.where(), "WIRE|server|denylist-arg",
                     "RpcAuthMiddleware::new is given %s, not the deny list %s" % (o, dn),
                     sample={"rule": "WIRE deny list", "arg": o})
    R.ob(found, "WIRE", f.where(), "WIRE|server|middleware-new", "RpcAuthMiddleware::new is not called from the rpc middleware layer")
    # new(): the denylist field is built from the argument (not from a constant / empty set)
    mnew = [x for x in F.fns.values() if x.name.endswith("RpcAuthMiddleware::<S>::new")]
    for g in mnew:
        okd = False
        for b in g.blocks:
            for st_ in b["stmts"]:
                if st_["k"] == "assign" and st_["rv"]["k"] == "agg" and (st_["rv"].get("adt") or "").endswith("RpcAuthMiddleware"):
                    from terms import rvalue_origin
                    t = rvalue_origin(g, st_["rv"], 0, frozenset(), 30)
                    m = dict(zip(t[3], t[2]))
                    dl = m.get("denylist")
                    from wire import leaf_params
                    okd = dl is not None and any(p[1] == 2 for p in leaf_params(dl, g.name)) and mentions(dl, "collect")
        R.ob(okd, "WIRE", g.where(), "WIRE|middleware.new|denylist", "RpcAuthMiddleware::new does not build its deny list from the `denylist` argument",
             sample={"rule": "WIRE", "sink": "RpcAuthMiddleware.denylist", "origin": "denylist argument, collected"})
    # start(): validate_config before start_rpc_server, result propagated
    st = [x for x in F.fns.values() if x.name.startswith("server::start::start") and x.kind == "coroutine"]
    R.floor("start_body", len(st), 1)
    if st:
        sf = F.inlined(st[0])       # start() may group its steps into private helpers (`validate_startup`, `open_engine`)
        cs = {c.path.split("::")[-1]: c for c in sf.calls() if c.path and not sf.is_cleanup(c.bb)}
        # a step may sit in a private async helper start() awaits (`serve(engine, config).await`): it happens at the await
        try:
            from c16 import _awaited_private
            for (pc_, hv_) in _awaited_private(F, sf):
                for c_ in hv_.calls():
                    if c_.path and not hv_.is_cleanup(c_.bb) and c_.path.split("::")[-1] in ("validate_config", "start_rpc_server"):
                        cs.setdefault(c_.path.split("::")[-1], pc_)
        except ImportError:
            pass
        for n in ("validate_config", "start_rpc_server"):
            R.ob(n in cs, "WIRE", sf.where(), "WIRE|start|%s" % n, "start() no longer calls %s" % n)
        if "validate_config" in cs and "start_rpc_server" in cs:
            R.ob(sf.sdominates(cs["validate_config"].bb, cs["start_rpc_server"].bb), "WIRE", cs["validate_config"].where(),
                 "WIRE|start|validate-before-server", "validate_config does not dominate start_rpc_server")
            R.ob(_err_propagated(sf, cs["validate_config"]), "ERR-PROP", cs["validate_config"].where(),
                 "ERR-PROP|start|validate_config", "the Result of validate_config is not propagated with `?`")
    vc = F.fn_opt("global::config::validate_config")
    if vc:
        rows = []
        # auth enabled ∧ (user none ∨ password none) ⇒ Err : check by path table on Result discriminant
        from terms import enumerate_paths, path_constraints

        def var_of(t):
            if mentions(t, "rpc_server_user"):
                return "user"
            if mentions(t, "rpc_server_password"):
                return "password"
            if mentions(t, "enable_auth"):
                return "auth"
            return None
        bad = False
        n_err = 0
        outcomes = {}
        for p in enumerate_paths(vc):
            cons = path_constraints(vc, p, var_of)
            if cons is None:
                continue
            is_err = _returns_err(vc, p)
            for u in ("Some", "None"):
                for pw in ("Some", "None"):
                    if cons.get("auth", True) is True and cons.get("user", u) == u and cons.get("password", pw) == pw:
                        outcomes.setdefault((u, pw), set()).add(is_err)
        for (u, pw), oc in outcomes.items():
            if u == "None" or pw == "None":
                if False in oc:
                    bad = True
                else:
                    n_err += 1
        if bad or n_err < 2:
            ok_tab, why_tab = _validate_config_rule_table(F, F.inlined(vc))     # predicate helpers of the file read in place
            if ok_tab:
                bad, n_err = False, 2
            elif os.environ.get("VERIF_DEBUG"):
                print("validate_config table:", why_tab)
        R.ob(not bad and n_err >= 2, "GUARD", vc.where(), "GUARD|validate_config|auth-needs-credentials",
             "validate_config accepts auth enabled without user/password",
             sample={"rule": "GUARD validate_config", "err_paths": n_err})


def _validate_config_rule_table(F, vc):
    """validate_config written as a table: a literal array of `(violated, message)` pairs, the first violated one reported
    through `rules.iter().find(|r| r.0).map_or(Ok(()), |r| Err(r.1.into()))`.  The returned value must have exactly that shape,
    and under every configuration with authentication enabled and a credential missing some `violated` must be true
    (decided by abstract execution up to the construction of the table)."""
    from terms import explore_under, subterms, rvalue_origin as _rvo
    rets = [_rvo(vc, s_["rv"], 0, frozenset(), 40) for b in vc.blocks if not b.get("cleanup") for s_ in b["stmts"]
            if s_["k"] == "assign" and s_["lhs"]["l"] == 0 and not s_["lhs"].get("p")]
    from terms import call_origin
    rets += [call_origin(vc, b["term"], 0, frozenset(), 40) for b in vc.blocks if not b.get("cleanup") and b["term"]["k"] == "call"
             and b["term"]["dest"]["l"] == 0 and not b["term"]["dest"].get("p")]
    from terms import closures_in_term
    found = None
    if len(rets) == 1 and rets[0][0] == "call" and rets[0][1].split("::")[-1] == "map_or" and len(rets[0][2]) == 3:
        found, dflt, mapper = rets[0][2]
        if not (dflt[0] == "agg" and dflt[1].endswith("Result::Ok")):
            return False, "default is not Ok"
        mcl = [F.fns.get(x) for x in closures_in_term(mapper)]
        if len(mcl) != 1 or mcl[0] is None:
            return False, "mapper closure not found"
        mret = [_rvo(mcl[0], s_["rv"], 0, frozenset(), 40) for b in mcl[0].blocks for s_ in b["stmts"] if s_["k"] == "assign" and s_["lhs"]["l"] == 0]
        if not mret or not all(x[0] == "agg" and x[1].endswith("Result::Err") for x in mret):
            return False, "a found rule is not turned into Err"
    else:
        # the same decision as a match: `match rules.iter().find(..) { Some((_, msg)) => Err(msg.into()), None => Ok(()) }`
        fcs = [c for c in vc.calls() if (c.method or "") == "find" and (c.trait or "").endswith("Iterator") and not vc.is_cleanup(c.bb)]
        if len(fcs) != 1:
            return False, "returned value is neither find(..).map_or(Ok, Err) nor a match on one find(..)"
        d_ = fcs[0].t["dest"]["l"]
        sw_ = None
        for bi, b in enumerate(vc.blocks):
            if b.get("cleanup") or b["term"]["k"] != "switch":
                continue
            dd = origin(vc, b["term"]["discr"])
            if dd[0] == "discr" and len(dd) > 3 and {n for (n, _v) in (dd[3] or [])} == {"None", "Some"} and any(x[1].split("::")[-1] == "find" for x in calls_in(dd)):
                sw_ = (bi, b["term"], dd)
        if sw_ is None:
            return False, "the result of find is not matched on"
        vals_ = dict(sw_[2][3])
        tg_ = dict((v_, tb_) for v_, tb_ in sw_[1]["targets"])
        none_t = tg_.get(vals_["None"], sw_[1]["otherwise"])
        some_t = tg_.get(vals_["Some"], sw_[1]["otherwise"])

        def kinds_from(start, avoid):
            ks = set()
            for x in vc.reachable(start, avoid={avoid}) | {start}:
                if vc.is_cleanup(x):
                    continue
                for s_ in vc.blocks[x]["stmts"]:
                    if s_["k"] == "assign" and s_["lhs"]["l"] == 0 and not s_["lhs"].get("p") and s_["rv"]["k"] == "agg":
                        ks.add(s_["rv"].get("variant"))
            return ks
        if none_t == some_t or kinds_from(none_t, some_t) != {"Ok"} or kinds_from(some_t, none_t) != {"Err"}:
            return False, "a found rule is not turned into Err (or no rule found is not Ok)"
        found = sw_[2][1]
    fc = [x for x in calls_in(found) if x[1].split("::")[-1] == "find"]
    if len(fc) != 1 or len(fc[0][2]) != 2:
        return False, "no find over the rules"
    pcl = [F.fns.get(x) for x in closures_in_term(fc[0][2][1])]
    if len(pcl) != 1 or pcl[0] is None:
        return False, "find predicate not found"
    pret = [_rvo(pcl[0], s_["rv"], 0, frozenset(), 40) for b in pcl[0].blocks for s_ in b["stmts"] if s_["k"] == "assign" and s_["lhs"]["l"] == 0]
    def is_first_component(t):
        while t[0] in ("deref", "ref", "cast"):
            t = t[1]
        if t[0] != "field" or t[2] != ".0":
            return False
        b_ = t[1]
        while b_[0] in ("deref", "ref", "cast"):
            b_ = b_[1]
        return b_[0] == "param"
    if not pret or not all(is_first_component(x) for x in pret):
        return False, "find predicate is not `|rule| rule.0`"
    spine, t_ = set(), fc[0][2][0]
    while True:
        if t_[0] in ("ref", "deref", "cast"):
            t_ = t_[1]
        elif t_[0] == "call" and t_[2]:
            spine.add(t_[1].split("::")[-1])
            t_ = t_[2][0]
        else:
            break
    if spine - {"iter", "into_iter", "deref", "as_slice"} or not (t_[0] == "agg" and t_[1] == "array"):
        return False, "rules are filtered before the search"
    # the literal array and the locals holding each rule's `violated`
    arr_stmt = None
    for bi, b in enumerate(vc.blocks):
        if b.get("cleanup"):
            continue
        for s_ in b["stmts"]:
            if s_["k"] == "assign" and s_["rv"]["k"] == "agg" and s_["rv"].get("agg") == "array" and len(s_["rv"]["ops"]) >= 1:
                arr_stmt = (bi, s_)
    if arr_stmt is None:
        return False, "no literal array of rules"
    firsts = []
    for op in arr_stmt[1]["rv"]["ops"]:
        ds = [d for d in vc.defs().get(op.get("l"), []) if d[2] == "assign" and d[3]["rv"]["k"] == "agg" and d[3]["rv"].get("agg") == "tuple"]
        if len(ds) != 1:
            return False, "a rule is not a literal pair"
        firsts.append(ds[0][3]["rv"]["ops"][0])

    def var_of(t):
        x = t
        while x[0] in ("ref", "deref", "cast"):
            x = x[1]
        if x[0] == "field" and x[2] == ".brc20_prog_rpc_server_user":
            return "user"
        if x[0] == "field" and x[2] == ".brc20_prog_rpc_server_password":
            return "password"
        if x[0] == "field" and x[2] == ".brc20_prog_rpc_server_enable_auth":
            return "auth"
        return None
    for u in ("Some", "None"):
        for pw in ("Some", "None"):
            if u == "Some" and pw == "Some":
                continue
            env = {"user": u, "password": pw, "auth": True}
            rr, visited = explore_under(vc, lambda t, env=env: env.get(var_of(t)), capture={arr_stmt[0]})
            caps = [st for (b_, st) in getattr(explore_under, "captured", [])]
            if not caps:
                return False, "the rule table is not reached"
            for st in caps:
                vals = []
                for op in firsts:
                    if op.get("k") == "const":
                        vals.append(op.get("v"))
                    else:
                        vals.append(st.get(op.get("l")))
                if not any(v is True for v in vals):
                    return False, "auth enabled, user=%s password=%s: no rule is violated (%s)" % (u, pw, vals)
    return True, "table"


def _returns_err(fn, path):
    """does the last assignment to _0 on this path build Result::Err (or come from a `?` residual)"""
    last = None
    for b in path:
        for s in fn.blocks[b]["stmts"]:
            if s["k"] == "assign" and s["lhs"]["l"] == 0 and not s["lhs"].get("p"):
                rv = s["rv"]
                if rv["k"] == "agg":
                    last = rv.get("variant")
        t = fn.term(b)
        if t["k"] == "call" and t["dest"]["l"] == 0:
            p = (t["func"].get("fn") or {}).get("path", "")
            if p.endswith("from_residual"):
                last = "Err"
    return last == "Err"


def _err_propagated(fn, call):
    """the call's Result flows into Try::branch whose Break arm reaches from_residual + return"""
    dst = call.t["dest"]["l"]
    from enginerules import err_propagated as _ep
    if _ep(fn, call):
        return True          # also through a helper's tail expression whose Result the caller then `?`s
    for c in fn.calls():
        if c.path and c.path.endswith("Try::branch") and any(a.get("l") == dst for a in c.args):
            return True
        if c.path and c.path.endswith("Try::branch"):
            o = origin(fn, c.args[0])
            if o[0] == "call" and o[1] == (call.res or {}).get("path", call.path):
                return True
    return False
