"""C01 — an accepted reorg restores exactly the state as of the chosen block.

Structural necessary conditions decided here (DESIGN 5, C01): all tables roll back
together and commit last; every versioned write is stamped with the height under
construction; depth/window inequalities come from one constant and agree; the
recorded maximum is monotone; the two next-height functions agree; the engine's
reorg validates before writing; per-table rollback visits persisted ∪ cached keys."""
from report import Report
import tablerules as T
import windowrules as W


def run(ctx):
    R = Report("C01", ctx.tier, "other", "TABLES exhaustiveness, stamp WIRE slices, GUARD normal forms, dominance on MIR")
    F = ctx.facts()
    CG = ctx.cg()
    R.explanation = (
        "Necessary structural conditions of reorg correctness, each decided on the resolved program: (1) D::reorg and "
        "commit_changes visit every table field on every success path, reorgs dominate the commit; (2) the block-number "
        "argument of every versioned set/unset in D slices back to get_next_block_height() (recursing through callers), never "
        "a constant or the latest height; (3) guard normal forms of the engine/database/history window checks equal the "
        "statement's 10-block window and come from MAX_REORG_HISTORY_SIZE; (4) the recorded maximum is only raised; (5) "
        "engine.reorg refuses before any write; (6) BlockCachedDatabase::reorg visits persisted ∪ cached keys then commits; "
        "(7) engine and database agree on the height under construction. Value-level equality with a fresh replay is NOT decided.")
    R.trusted = ["rustc resolution/MIR (A1)", "RocksDB iterators are ordered and complete (A3)"]
    R.assumptions = ["one writer (engine.db write lock) at a time — C11"]
    T.clause_tables(R, F, "reorg")
    T.clause_tables(R, F, "commit_changes")
    T.clause_reorg_order(R, F)
    T.clause_stamps(R, F, CG)
    # the cached chain tip never outlives the blocks it points at (heights stay contiguous after clear_caches / reorg)
    T.clause_derived_caches_coherent(R, F)
    T.clause_max_monotone(R, F)
    T.clause_next_height_siblings(R, F)
    W.clause_engine_reorg(R, F, CG)
    W.clause_history_window(R, F)
    W.clause_table_reorg_visits_all(R, F)
    W.clause_blockdb_reorg(R, F)
    # a rollback needs the histories: each commit persists the history row of every changed key, and a key's persisted
    # history is loaded (never replaced by a fresh one) before it is changed again
    T.clause_commit_per_key(R, F)
    T.clause_retrieve_cache(R, F)
    return R
