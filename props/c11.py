"""C11 — concurrent readers and the indexer can never deadlock the server.

Decides the lock-discipline clause: no re-entry (LOCK-1), acyclic order
(LOCK-2), no guard across await (LOCK-3), writers of read-re-entered locks
unreachable from any concurrent entry (LOCK-4, the only discharge of a
read->read re-entry)."""
from collections import defaultdict

from lockrule import LockModel, GUARD_RE
from report import Report
import roles

FLOOR_SITES = 80       # 88 accessor call sites counted on the pinned tree
FLOOR_LOCKS = 7


def short(fid):
    return fid.replace("brc20_prog::", "")


def run(ctx):
    R = Report("C11", ctx.tier, "proof", "lock-state dataflow over MIR + interprocedural acquisition summaries")
    F = ctx.facts()
    CG = ctx.cg()
    return rules(R, F, CG, own=True)


def rules(R, F, CG, own=False):
    """the lock-discipline obligations, recorded into R (C11's own report, or another property's that depends on them)"""
    LM = LockModel(F, CG)
    if not own:
        R_say = R.say
        R.say = lambda s_: None
    if own:
      R.explanation = (
        "LOCK rules over the resolved program: every call site of the lock wrapper's accessor methods is an "
        "acquisition (lock identified by the field/static it is reached through); a forward may-dataflow gives the "
        "guards held at every call; acquisition summaries are propagated over the call graph (closures, fn pointers, "
        "trait impls, callback edges of foreign generics). Obligations: per (call site x held lock): no re-entry, "
        "order edges acyclic; per coroutine: no guard type among the locals saved across an await; per raw "
        "std lock call: inside the wrapper only.")
    if own:
        R.trusted = ["rustc name resolution/type check/MIR (A1)", "call-graph closure rules (A2)",
                     "extern summaries: std::sync::RwLock is not re-entrant and may prefer writers (A3)"]
        R.assumptions = ["one BRC20ProgEngine instance per process (locks identified by field path)",
                         "dependencies take no lock of this crate (they cannot name them)"]

    locks = sorted({s["lock"] for s in LM.sites})
    R.say("C11: wrapper types: %s" % ", ".join(a["name"] for a in LM.wrappers.values()))
    R.say("C11: accessors: %s" % ", ".join("%s[%s%s%s]" % (a["name"].split("::")[-1], a["mode"],
                                                             ",guard" if a["returns_guard"] else "",
                                                             ",callback" if a["callback"] else "")
                                            for a in LM.accessors.values()))
    R.say("C11: %d acquisition sites over %d locks: %s" % (len(LM.sites), len(locks), ", ".join(locks)))
    R.floor("acquisition_sites", len(LM.sites), FLOOR_SITES)
    R.floor("locks", len(locks), FLOOR_LOCKS)
    R.floor("accessors", len(LM.accessors), 4)
    for l in locks:
        if l.startswith("type "):
            R.note("lock identity of some site fell back to the payload type: %s (merged conservatively)" % l)

    # raw lock use outside the wrapper: fail closed
    for c in LM.raw_sites:
        R.violation("LOCK-RAW", c.where(), "LOCK-RAW|%s|%s" % (c.fn.name, c.path),
                    "raw %s outside the lock wrapper: not covered by the accessor model" % c.path)
    R.ok(1, sample={"rule": "LOCK-RAW", "raw_sites_outside_wrapper": len(LM.raw_sites)})

    handlers = roles.handler_roots(F)
    R.floor("handlers", len(handlers), 50)
    entry_roots = set(handlers) | set(roles.precompile_entries(F, CG))
    reach_from_entries = CG.reachable_from(entry_roots)

    # LOCK-4: which locks have a write acquisition reachable from a concurrent entry
    writer_reachable = {}
    for l in locks:
        ws = [s for s in LM.writers(l) if s["fn"].id in reach_from_entries]
        writer_reachable[l] = ws
    for l in locks:
        R.say("C11: lock %-60s readers=%d writers=%d (reachable from handlers: %d)" % (
            l, len([s for s in LM.sites if s["lock"] == l and s["mode"] == "R"]), len(LM.writers(l)),
            len(writer_reachable[l])))

    # LOCK-1 / LOCK-2
    order = defaultdict(list)   # (held lock, acquired lock) -> [where]
    acq = LM.acq()
    n_sites_checked = 0
    for f in F.body_fns():
        if f.id in LM.accessors:
            continue
        held = LM.held(f)
        for c in f.calls():
            if f.is_cleanup(c.bb):
                continue
            H = {(g[1], g[2]) for g in held[c.bb]}
            site = LM.site_by_call.get((f.id, c.bb))
            targets = CG.site_targets(c)
            inner = set()
            if site:
                # direct acquisition at this call
                inner.add((site["lock"], site["mode"], LM.sites.index(site)))
                if site["acc"]["callback"]:
                    # closure runs while H + this lock are held
                    cb_acq = LM.acq_of_targets(targets)
                    H2 = set(H) | {(site["lock"], site["mode"])}
                    _check(R, LM, CG, f, c, H2, cb_acq, order, writer_reachable, via_site=site)
                    n_sites_checked += 1
            else:
                inner |= LM.acq_of_targets(targets)
            if H:
                _check(R, LM, CG, f, c, H, inner, order, writer_reachable)
                n_sites_checked += 1
    R.count("call_sites_with_lock_held", n_sites_checked)

    # LOCK-2 cycles
    graph = defaultdict(set)
    for (a, b) in order:
        if a != b:
            graph[a].add(b)
    cycles = _cycles(graph)
    for cyc in cycles:
        # discharged iff no lock in the cycle has a concurrent writer
        if all(not writer_reachable.get(l) for l in cyc):
            R.ok(1)
            continue
        where = order[(cyc[0], cyc[1 % len(cyc)])][0] if (cyc[0], cyc[1 % len(cyc)]) in order else "?"
        R.violation("LOCK-2", where, "LOCK-2|" + "->".join(sorted(cyc)),
                    "lock order cycle: %s" % " -> ".join(cyc + [cyc[0]]))
    for (a, b), ws in sorted(order.items()):
        if a != b:
            R.ok(1, sample={"rule": "LOCK-2 order edge", "held": a, "acquired": b, "at": ws[0]})
    R.say("C11: order edges: %s" % "; ".join("%s -> %s" % (a.split(" ")[-1].split("::")[-1], b.split(" ")[-1].split("::")[-1])
                                              for (a, b) in sorted(order) if a != b))

    # LOCK-3 guards across await
    n_cor = 0
    for f in F.fns.values():
        if f.kind != "coroutine":
            continue
        n_cor += 1
        bad = [w for w in f.mir.get("witnesses", []) if GUARD_RE.search(w["ty"])]
        R.ob(not bad, "LOCK-3", f.where(), "LOCK-3|%s" % f.name,
             "lock guard live across an await point: %s" % ", ".join("%s (line %d)" % (w["ty"][:60], w["line"]) for w in bad))
        # also: a yield while the dataflow says a guard is held (elaborated bodies only)
        held = LM.held(f)
        for bi, b in enumerate(f.blocks):
            if b["term"]["k"] == "yield" and held[bi]:
                R.violation("LOCK-3", "%s:%d" % (b["term"]["loc"]["f"], b["term"]["loc"]["l"]),
                            "LOCK-3|%s|yield" % f.name, "await while holding %s" % sorted({g[1] for g in held[bi]}))
    R.floor("coroutines", n_cor, 100)
    R.samples.append({"rule": "LOCK-3", "coroutines_checked": n_cor})
    if not own:
        R.say = R_say
    return R


def _check(R, LM, CG, f, c, H, inner, order, writer_reachable, via_site=None):
    """H: set of (lock, mode) held at call c in f; inner: set of (lock, mode, site idx) acquired during the call"""
    heldlocks = defaultdict(set)
    for (l, m) in H:
        heldlocks[l].add(m)
    for (l2, m2, si) in sorted(inner, key=lambda x: (x[0], x[1], x[2])):
        s2 = LM.sites[si]
        if via_site is not None and s2 is via_site:
            continue
        for l, ms in heldlocks.items():
            at = "%s (in %s)" % (c.where(), f.name)
            if l != l2:
                order[(l, l2)].append(at)
                continue
            # same lock: re-entry
            for m in ms:
                inner_where = "%s (in %s)" % (s2["call"].where(), s2["fn"].name)
                key = "LOCK-1|%s|%s:%s->%s@%s" % (f.name, l, m, m2, s2["fn"].name)
                if m == "R" and m2 == "R" and not writer_reachable.get(l):
                    R.ok(1, sample={"rule": "LOCK-1 read->read re-entry discharged by LOCK-4 (no writer of this lock "
                                            "is reachable from any handler/precompile entry)",
                                    "lock": l, "outer": at, "inner": inner_where})
                    continue
                path = []
                if s2["fn"].id != f.id:
                    for t in sorted(CG.site_targets(c)):
                        p = CG.path(t, lambda x: x == s2["fn"].id)
                        if p:
                            path = [x.replace("brc20_prog::", "") for x in p]
                            break
                why = "self-deadlock" if (m == "W" or m2 == "W") else (
                    "deadlocks as soon as a writer queues between the two acquisitions; writers reachable from "
                    "handlers: %s" % ", ".join(sorted({w["fn"].name for w in writer_reachable.get(l, [])})))
                R.violation("LOCK-1", at, key,
                            "%s is acquired (%s) at %s while already held (%s): %s" % (l, m2, inner_where, m, why),
                            path)
    if not inner:
        R.ok(1)


def _cycles(graph):
    """elementary cycles via SCC (report one representative per SCC of size>1)"""
    index = {}
    low = {}
    st = []
    on = set()
    out = []
    counter = [0]

    def strong(v):
        index[v] = low[v] = counter[0]
        counter[0] += 1
        st.append(v)
        on.add(v)
        for w in graph.get(v, ()):
            if w not in index:
                strong(w)
                low[v] = min(low[v], low[w])
            elif w in on:
                low[v] = min(low[v], index[w])
        if low[v] == index[v]:
            comp = []
            while True:
                w = st.pop()
                on.discard(w)
                comp.append(w)
                if w == v:
                    break
            if len(comp) > 1:
                out.append(sorted(comp))
    for v in list(graph):
        if v not in index:
            strong(v)
    return out
