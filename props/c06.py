"""C06 — blocks, transactions, receipts, logs and inscription indexes are coherent."""
from report import Report
from tablerules import db_fn, must_pass_on_success, self_fields, calls_on_field
from terms import origin, show, calls_in, mentions, rvalue_origin, mentions_deep
from unord import Unord
from guards import lin
import roles
import tablerules as T


def _engine_closure_calling(F, engine_method, callee_method):
    out = []
    for f in F.fns.values():
        if f.name.startswith("engine::engine::BRC20ProgEngine::%s" % engine_method) and f.blocks:
            if any((c.method or "") == callee_method for c in f.calls()):
                out.append(f)
    return out


def run(ctx):
    R = Report("C06", ctx.tier, "other", "DOM-all/DOM-order/WIRE rules on the index writers' MIR + UNORD taint into stored blocks")
    F = ctx.facts()
    CG = ctx.cg()
    R.explanation = (
        "Cross-reference rows are written together (tx, (block,index)->hash, inscription->hash, receipt on every success path of "
        "set_tx_receipt, all keyed/stamped from the same parameters through the one key helper); finalise order makes the block "
        "visible by hash/height last; the running counters of the unfinished block are updated together from the execution "
        "output; the transaction list is sorted by index before Merkle root/bloom/transactions and no hash-iteration order "
        "reaches the stored raw block; parent hash is the hash of block-1. Merkle/bloom/gas values are NOT decided.")
    R.trusted = ["rustc resolution/MIR (A1)"]
    # 1. set_tx_receipt
    fn = db_fn(F, "set_tx_receipt")
    sets = calls_on_field(fn, {"set"})
    need = ["db_tx", "db_number_and_index_to_tx_hash", "db_tx_receipt"]
    for fld in need:
        cs = sets.get(fld, [])
        R.ob(bool(cs) and must_pass_on_success(fn, [c.bb for c in cs]), "DOM-all", fn.where(), "DOM-all|set_tx_receipt|%s" % fld,
             "set_tx_receipt does not write %s on every success path" % fld, sample={"rule": "DOM-all", "fn": "set_tx_receipt", "row": fld})
        for c in cs:
            st = origin(fn, c.args[1])
            R.ob(st[0] == "param" and st[2] == "block_number" or (st[0] == "param" and st[1] == 3), "WIRE", c.where(),
                 "WIRE|set_tx_receipt|stamp:%s" % fld, "row %s stamped with %s instead of the block_number parameter" % (fld, show(st)))
            key = origin(fn, c.args[2])
            if fld == "db_number_and_index_to_tx_hash":
                ks = [x for x in calls_in(key) if x[1].endswith("get_number_and_index_key")]
                ok = bool(ks) and ks[0][2][0][0] == "param" and ks[0][2][0][1] == 3 and ks[0][2][1][0] == "param" and ks[0][2][1][1] == 9
                R.ob(ok, "WIRE", c.where(), "WIRE|set_tx_receipt|index-key", "(block,index) key is `%s`; expected key(block_number, tx_idx)" % show(key)[:120],
                     sample={"rule": "WIRE", "row": "number_and_index key", "key": show(key)[:100]})
                v = origin(fn, c.args[3])
                R.ob(mentions(v, "tx_hash"), "WIRE", c.where(), "WIRE|set_tx_receipt|index-value", "(block,index) row holds `%s`, not the tx hash" % show(v)[:80])
            else:
                R.ob(mentions(key, "tx_hash"), "WIRE", c.where(), "WIRE|set_tx_receipt|key:%s" % fld, "row %s keyed by `%s`, not by tx_hash" % (fld, show(key)[:80]))
    ins = [c for c in fn.calls() if (c.method or "") == "set_tx_hash_by_inscription_id" and not fn.is_cleanup(c.bb)]
    R.ob(bool(ins) and must_pass_on_success(fn, [c.bb for c in ins]), "DOM-all", fn.where(), "DOM-all|set_tx_receipt|inscription",
         "inscription id -> tx hash row is not written on every success path", sample={"rule": "DOM-all", "row": "inscription_id_to_tx_hash"})
    for c in ins:
        a1, a2 = origin(fn, c.args[1]), origin(fn, c.args[2])
        R.ob(mentions(a1, "inscription_id") and mentions(a2, "tx_hash"), "WIRE", c.where(), "WIRE|set_tx_receipt|inscription-args",
             "inscription row is (%s -> %s)" % (show(a1)[:60], show(a2)[:60]))
    # who may build the (block<<64|idx) key: only the helper
    helper = [f for f in F.fns.values() if f.name.endswith("get_number_and_index_key")]
    R.floor("index_key_helper", len(helper), 1)
    users = 0
    from facts import is_private_helper
    for f in F.body_fns():
        if is_private_helper(f):
            continue          # counted once per caller, through the inlined view
        for c in F.inlined(f).calls():
            if helper and c.target_id == helper[0].id:
                users += 1
    R.floor("index_key_uses", users, 9)
    if helper:
        h = helper[0]
        # shape: (block as u128) << 64 | idx
        shl = [s for b in h.blocks for s in b["stmts"] if s["k"] == "assign" and s["rv"]["k"] == "bin" and s["rv"]["op"].startswith("Shl")]
        ok = False
        for s in shl:
            t = rvalue_origin(h, s["rv"], 0, frozenset(), 10)
            if t[2][0] == "cast" and t[2][1][0] == "param" and t[2][1][1] == 1 and t[3][0] == "const" and t[3][1] == 64:
                ok = True
        R.ob(ok, "CONST", h.where(), "CONST|index-key|shape", "index key is no longer (block_number as u128) << 64 | tx_idx",
             sample={"rule": "CONST", "fn": "get_number_and_index_key", "shape": "(block<<64)|idx"})
    # index rows (incl. contract address -> inscription id) are stamped with the block they belong to, so that a reorg
    # removes them together with the transaction they point at
    T.clause_stamps(R, F, CG)
    # the cached chain tip never outlives the blocks it points at (heights stay contiguous after clear_caches / reorg)
    T.clause_derived_caches_coherent(R, F)
    # block gas used / log index / processing time start from zero in every block
    import enginerules as ER
    ER.clause_block_info_reset(R, F, owners=("clear_caches", "finalise_block"))
    # 2. finalise order
    fin = ER.operation_bodies_calling(F, "finalise_block", "set_block_hash")
    R.floor("finalise_closure", len(fin), 1)
    if fin:
        f = fin[0]
        order = ["generate_block", "set_block", "generate_raw_block", "set_raw_block", "clear_txpool", "set_block_hash"]
        pos = {}
        for c in f.calls():
            if (c.method or "") in order and not f.is_cleanup(c.bb):
                pos[c.method] = c
        for m in order:
            R.ob(m in pos and must_pass_on_success(f, [pos[m].bb]), "DOM-all", f.where(), "DOM-all|finalise|%s" % m,
                 "finalise_block does not call %s on every success path" % m)
        for a, b in zip(order, order[1:]):
            if a in pos and b in pos:
                R.ob(f.sdominates(pos[a].bb, pos[b].bb) and pos[a].bb != pos[b].bb, "DOM-order", pos[b].where(), "DOM-order|finalise|%s<%s" % (a, b),
                     "%s is not preceded by %s: the block hash must become visible last" % (b, a), sample={"rule": "DOM-order", "first": a, "then": b})
        # the same block number / hash flow to all
        for m in ("set_block", "set_raw_block", "clear_txpool", "set_block_hash", "generate_block"):
            if m in pos:
                c = pos[m]
                idx = 2 if m == "generate_block" else 1
                a = origin(f, c.args[idx])
                R.ob(mentions(a, "block_number"), "WIRE", c.where(), "WIRE|finalise|%s-number" % m, "%s receives `%s` as block number" % (m, show(a)[:60]))
        if "set_raw_block" in pos:
            a = origin(f, pos["set_raw_block"].args[2])
            R.ob(mentions(a, "generate_raw_block"), "WIRE", pos["set_raw_block"].where(), "WIRE|finalise|raw-source", "raw block stored is not generate_raw_block's result")
        if "set_block" in pos:
            a = origin(f, pos["set_block"].args[2])
            R.ob(mentions(a, "generate_block"), "WIRE", pos["set_block"].where(), "WIRE|finalise|block-source", "block stored is not generate_block's result")
    # LastBlockInfo reset after the db closure
    feng = [ER.engine_methods(F).get("finalise_block")]
    if feng[0] is not None:
        f = feng[0]
        wf = [c for c in f.calls() if (c.method or "") == "write_fn" and not f.is_cleanup(c.bb)]
        wu = [c for c in f.calls() if (c.method or "") == "write_fn_unchecked" and not f.is_cleanup(c.bb)]
        nt = [c for c in f.calls() if (c.method or "") == "notify_waiters" and not f.is_cleanup(c.bb)]
        R.ob(bool(wf) and bool(wu) and bool(nt) and f.sdominates(wf[0].bb, wu[0].bb) and f.sdominates(wu[0].bb, nt[0].bb), "DOM-order", f.where(),
             "DOM-order|finalise|db<reset<notify", "finalise_block must store the block, then reset the unfinished-block info, then notify",
             sample={"rule": "DOM-order", "fn": "finalise_block", "order": "db.write_fn < last_block_info reset < notify"})
    # 3. counters together
    atb = ER.engine_methods(F).get("add_tx_to_block")
    upd = [g for g in (F.descendants(atb.id) if atb is not None else []) if g.kind == "closure"
           and any(s["k"] == "assign" and s["lhs"].get("p") and s["lhs"]["p"][-1] == ".waiting_tx_count"
                   and rvalue_origin(g, s["rv"], 0, frozenset(), 30)[0] != "const" for b in g.blocks for s in b["stmts"])]
    # the increment closure (not the first-tx reset which assigns the whole struct)
    R.floor("counter_update_closure", len(upd), 1)
    for g in upd:
        fields = {}
        for bi, b in enumerate(g.blocks):
            for s in b["stmts"]:
                if s["k"] == "assign" and s["lhs"].get("p") and s["lhs"]["p"][-1] in (".waiting_tx_count", ".gas_used", ".log_index"):
                    fields.setdefault(s["lhs"]["p"][-1], []).append((bi, rvalue_origin(g, s["rv"], 0, frozenset(), 30)))
        for fld in (".waiting_tx_count", ".gas_used", ".log_index"):
            R.ob(fld in fields and must_pass_on_success(g, [bi for bi, _ in fields[fld]]), "DOM-all", g.where(), "DOM-all|counters|%s" % fld,
                 "the unfinished-block counter %s is not updated with the others" % fld, sample={"rule": "DOM-all", "closure": g.name[-40:], "field": fld})
        if ".waiting_tx_count" in fields:
            l = lin(fields[".waiting_tx_count"][0][1])
            R.ob(l.k == 1 and len(l.terms) == 1, "WIRE", g.where(), "WIRE|counters|tx-count", "waiting_tx_count is not incremented by exactly one")
        import wire as _W6
        for fk in list(fields):
            fields[fk] = [(bi, _W6.resolve(F, g, t)) for bi, t in fields[fk]]      # captured values: as computed by the creating function
        if ".gas_used" in fields:
            R.ob(any(mentions_deep(F, t, "gas_used") and (mentions(t, "checked_add") or mentions(t, "saturating_add")) for _, t in fields[".gas_used"]),
                 "WIRE", g.where(), "WIRE|counters|gas", "gas_used is not accumulated from the execution output's gas_used")
        if ".log_index" in fields:
            R.ob(any(mentions_deep(F, t, "logs") and mentions(t, "len") for _, t in fields[".log_index"]), "WIRE", g.where(), "WIRE|counters|log-index",
                 "log_index does not advance by the number of logs of the execution output")
    # 4. order
    U = Unord(F, CG)
    U.run([])
    gb = db_fn(F, "generate_block")
    s = U.analyze(gb.id, frozenset())
    R.ob(not s, "U-RETURN", gb.where(), "U-RETURN|generate_block", "generate_block builds the block from an unsorted scan (%s)" % sorted(s),
         sample={"rule": "UNORD", "fn": "generate_block", "sorted_before_use": True})
    for ev in U.events:
        if ev["kind"] == "U-STORE":
            R.violation("U-STORE", ev["where"], "U-STORE|%s|%s" % (ev["fn"], ev["site"].split("@")[0].split("::")[-1]),
                        "a sequence in hash iteration order (from %s) is stored: %s in %s — the stored block's transaction/receipt "
                        "order is arbitrary" % (ev["site"].split("@")[-1], ev["detail"], ev["fn"]))
    R.ok(1, sample={"rule": "U-STORE", "events": len([e for e in U.events if e["kind"] == "U-STORE"])})
    # 5. parent link
    ph = [c for c in gb.calls() if (c.method or "") == "get_block_hash" and not gb.is_cleanup(c.bb)]
    ok = False
    for c in ph:
        l = lin(origin(gb, c.args[1]))
        if l.k == -1 and len(l.terms) == 1 and list(l.terms)[0][0] == "param":
            ok = True
    R.ob(ok, "WIRE", gb.where(), "WIRE|generate_block|parent", "parent hash is not get_block_hash(block_number - 1)",
         sample={"rule": "WIRE", "fn": "generate_block", "parent": "get_block_hash(block_number - 1)"})
    # the chain/index tables the cross-references are read from follow the chain through reorg / clear_caches / commit
    # (a table left out keeps rows of orphaned blocks: lookups no longer point at each other)
    chain_tables = T.fields_touched(F, ["get_block", "get_raw_block_by_number", "get_block_number", "get_block_hash", "get_tx_by_hash", "get_tx_receipt",
                                        "get_tx_hash_by_block_number_and_index", "get_tx_hash_by_block_hash_and_index", "get_tx_hash_by_inscription_id",
                                        "get_inscription_id_by_contract_address", "get_block_tx_count"])
    R.floor("chain_and_index_tables", len(chain_tables), 9)
    for dm in ("reorg", "clear_caches", "commit_changes"):
        T.clause_tables(R, F, dm, only_fields=chain_tables)
    # lookups answer the same whether or not the rows were committed: cache before disk, unset shadows disk
    T.clause_read_merge(R, F, scans=("get_range",))
    # the receipt is built from the transaction it belongs to: every argument of the one set_tx_receipt call site comes from
    # the source its parameter names (several parameters share a type: u64 x4, Address, U256 x2 - a swap compiles)
    import wire as W2
    st = db_fn(F, "set_tx_receipt")
    SOURCES = {
        "block_hash": ("block_hash",), "block_number": ("block_number",), "contract_address": ("get_contract_address", "inspect_tx_commit"),
        "from": (".from",), "to": ("to_address_optional", ".to"), "data": (".data",), "tx_hash": ("get_tx_hash",), "tx_idx": ("tx_idx",),
        "output": ("inspect_tx_commit",), "cumulative_gas_used": (".gas_used",), "nonce": (".nonce", "get_account_nonce"),
        "start_log_index": (".log_index",), "inscription_id": ("inscription_id",), "gas_limit": ("get_gas_limit",),
        "v": (".v",), "r": (".r",), "s": (".s",),
    }
    EXCLUDE = {"cumulative_gas_used": (".log_index", ".nonce"), "nonce": (".gas_used", ".log_index", "get_gas_limit"),
               "start_log_index": (".gas_used", ".nonce", "get_gas_limit"), "gas_limit": (".gas_used", ".log_index", ".nonce"),
               "from": ("to_address_optional",), "r": (".s",), "s": (".r",), "block_number": ("tx_idx",), "tx_idx": ("block_number",)}
    n_rc = 0
    if st is not None:
        pn = st.j.get("param_names") or []
        for b in ER.operation_bodies(F, "add_tx_to_block"):
            for c in b.calls():
                if c.target_id != st.id or b.is_cleanup(c.bb):
                    continue
                for nm, a in zip(pn, c.args):
                    if nm == "self" or nm not in SOURCES:
                        continue
                    n_rc += 1
                    t = W2.resolve(F, b, origin(b, a))
                    ok = any(mentions(t, tok) for tok in SOURCES[nm]) and not any(mentions(t, tok) for tok in EXCLUDE.get(nm, ()))
                    R.ob(ok, "WIRE", c.where(), "WIRE|receipt-args|%s" % nm,
                         "the receipt's `%s` is built from `%s`, not from its own source (%s)" % (nm, show(t)[:70], " / ".join(SOURCES[nm])),
                         sample={"rule": "WIRE receipt call site", "parameter": nm, "origin": show(t)[:50]} if n_rc % 5 == 1 else None)
    R.floor("receipt_call_site_arguments", n_rc, 17)
    # crate-wide name agreement at the call sites of the chain writers: a variable named like *another* same-typed parameter
    # of the callee is passed in the wrong position
    sw = W2.swapped_arguments(F, lambda g_: g_.name.startswith("db::") or g_.name.startswith("engine::"))
    for (b_, c_, i_, j_, nm_) in sw:
        g_ = F.fns[c_.target_id]
        R.violation("WIRE", c_.where(), "WIRE|swapped-arguments|%s|%s" % (g_.name.split("::")[-1], nm_),
                    "`%s` is passed as parameter `%s` of %s, which has a same-typed parameter `%s`" % (nm_, g_.j["param_names"][i_], g_.name.split("::")[-1], nm_))
    R.ok(1, sample={"rule": "WIRE swapped arguments", "violations": len(sw)})
    # generate_block: the block is assembled from exactly this block's index rows, every transaction is listed, every log of
    # every listed transaction is accrued into the bloom, and each field of the block comes from its own source
    import looprule as LR
    gbf = db_fn(F, "generate_block")
    if gbf is not None:
        gr = [c for c in gbf.calls() if (c.method or "") == "get_range" and not gbf.is_cleanup(c.bb)]
        R.ob(len(gr) == 1, "WIRE", gbf.where(), "WIRE|generate_block|scan", "generate_block does not perform exactly one range scan of the index")
        for c in gr:
            lo, hi = origin(gbf, c.args[1]), origin(gbf, c.args[2])
            from guards import lin as _lin
            from terms import calls_in as _calls_in

            def key_arg(t):
                ks = [x for x in _calls_in(t) if x[1].endswith("get_number_and_index_key") and len(x[2]) == 2]
                if len(ks) != 1:
                    return None
                l0, l1 = _lin(ks[0][2][0]), _lin(ks[0][2][1])
                if len(l0.terms) != 1 or not mentions(list(l0.terms)[0], "block_number") or l1.terms or l1.k != 0:
                    return None
                return l0.k
            ok_lo = key_arg(lo) == 0
            ok_hi = key_arg(hi) == 1
            R.ob(ok_lo and ok_hi, "WIRE", c.where(), "WIRE|generate_block|scan-bounds",
                 "the block's transactions are scanned over [%s, %s); expected [key(block_number, 0), key(block_number + 1, 0))" % (show(lo)[:60], show(hi)[:60]),
                 sample={"rule": "WIRE", "fn": "generate_block", "scan": "[key(n,0), key(n+1,0))"})
        pushes = [c for c in gbf.calls() if (c.method or "") == "push" and not gbf.is_cleanup(c.bb)]
        accr = [c for c in gbf.calls() if (c.method or "") == "accrue_log" and not gbf.is_cleanup(c.bb)]
        loops = LR.natural_loops(gbf)

        def every_cycle_passes(call):
            """the innermost loop containing the call cannot go round (head -> ... -> head) without passing the call's block"""
            inner = [(h, body) for (h, body, backs) in loops if call.bb in body]
            if not inner:
                return False
            h, body = min(inner, key=lambda x: len(x[1]))
            seen, st = set(), [sx for sx in gbf.succ(h) if sx in body]
            while st:
                x = st.pop()
                if x == h:
                    return False
                if x in seen or x == call.bb or x not in body:
                    continue
                seen.add(x)
                st += [sx for sx in gbf.succ(x) if sx in body]
            return True
        def listed_by_adapters():
            """the other spelling of "every scanned row is listed": the block's transaction list is the scan result taken through
            iterator adapters that keep every element in place (`rows.into_iter().map(|(_, h)| h).collect()`) - no adapter
            that can drop, add or move one"""
            KEEP = {"map", "collect", "into_iter", "iter", "cloned", "copied", "inspect", "by_ref", "from_iter", "next", "size_hint"}
            for c_ in gbf.calls():
                if not (c_.target_path or "").endswith("BlockResponseED::new") or gbf.is_cleanup(c_.bb):
                    continue
                g3_ = F.fns.get(c_.target_id)
                pn_ = (g3_.j.get("param_names") or []) if g3_ else []
                if "transactions" not in pn_:
                    return False
                t_ = origin(gbf, c_.args[pn_.index("transactions")])
                cs_ = calls_in(t_)
                its = [x[1].split("::")[-1] for x in cs_ if "Iterator::" in x[1] or "::iter::" in x[1] or x[1].split("::")[-1] in ("into_iter", "iter")]
                return any(x[1].split("::")[-1] == "get_range" for x in cs_) and "collect" in its and all(x in KEEP for x in its)
            return False
        R.ob((len(pushes) == 1 and every_cycle_passes(pushes[0])) or (not pushes and listed_by_adapters()), "DOM-all", gbf.where(), "DOM-all|generate_block|every-tx-listed",
             "an index row of the block can be passed over without its transaction being listed in the block",
             sample={"rule": "DOM-all", "fn": "generate_block", "row": "every scanned row -> transactions.push"})
        R.ob(len(accr) == 1 and every_cycle_passes(accr[0]), "DOM-all", gbf.where(), "DOM-all|generate_block|every-log-accrued",
             "a log of a listed transaction can be passed over without being accrued into the block bloom",
             sample={"rule": "DOM-all", "fn": "generate_block", "row": "every log -> bloom.accrue_log"})
        BLOCK_SOURCES = {"gas_used": ("gas_used",), "hash": ("block_hash",), "logs_bloom": ("Bloom", "as_slice"), "nonce": ("len",), "number": ("block_number",),
                         "timestamp": ("block_timestamp",), "mine_timestamp": ("total_time_took",), "transactions": ("new", "get_range"),
                         "transactions_root": ("from_leaves",), "parent_hash": ("get_block_hash",)}
        BLOCK_EXCL = {"gas_used": ("total_time_took", "block_timestamp", "block_number"), "number": ("gas_used", "block_timestamp", "total_time_took"),
                      "timestamp": ("gas_used", "total_time_took", "block_number"), "mine_timestamp": ("gas_used", "block_timestamp", "block_number"),
                      "hash": ("get_block_hash",), "parent_hash": ()}
        nb = 0
        for c in gbf.calls():
            if not (c.target_path or "").endswith("BlockResponseED::new") or gbf.is_cleanup(c.bb):
                continue
            g3 = F.fns.get(c.target_id)
            for nm, a in zip((g3.j.get("param_names") or []) if g3 else [], c.args):
                if nm not in BLOCK_SOURCES:
                    continue
                nb += 1
                t = origin(gbf, a)
                ok = any(mentions(t, tok) for tok in BLOCK_SOURCES[nm]) and not any(mentions(t, tok) for tok in BLOCK_EXCL.get(nm, ()))
                R.ob(ok, "WIRE", c.where(), "WIRE|block-args|%s" % nm, "the block's `%s` is built from `%s`, not from its own source (%s)" % (nm, show(t)[:70], " / ".join(BLOCK_SOURCES[nm])),
                     sample={"rule": "WIRE block constructor", "parameter": nm, "origin": show(t)[:50]} if nb % 4 == 1 else None)
        R.floor("block_constructor_arguments", nb, 10)
        # parent link: the previous block's hash (block_number - 1)
    # a height / hash is finalised once: the block record, raw block and number<->hash rows of finalise_block are written only
    # after the uniqueness guard (require_block_does_not_exist, directly or inside the validator) has passed.  set_block_hash
    # carries the guard itself but is the *last* write, so without a guard before the first one a finalise that is going to be
    # refused has already replaced the stored block: by-number and by-hash lookups stop inverting
    from enginerules import err_propagated as _ep
    GUARD_M = "require_block_does_not_exist"

    def _reaches_guard(g, depth=0):
        if g is None or not g.blocks:
            return False
        for b_ in [g] + F.descendants(g.id):
            for c_ in b_.calls():
                if b_.is_cleanup(c_.bb):
                    continue
                if (c_.method or "") == GUARD_M and (_ep(b_, c_) or c_.t["dest"]["l"] == 0):
                    return True
                if depth < 1 and c_.target_id and c_.target_id in F.fns and F.fns[c_.target_id].name.startswith("engine::") and (_ep(b_, c_) or c_.t["dest"]["l"] == 0):
                    if _reaches_guard(F.fns[c_.target_id], depth + 1):
                        return True
        return False
    fb = ER.engine_methods(F).get("finalise_block")
    R.floor("finalise_block_body", 1 if fb is not None else 0, 1)
    if fb is not None:
        n_fw = 0
        for w in fb.calls():
            if fb.is_cleanup(w.bb) or (w.method or "") not in ("write_fn", "write_fn_unchecked"):
                continue
            ks = [F.fns.get(x) for x in ((w.func or {}).get("arg_cl") or [])]
            ks = [F.inlined(k_) for k_ in ks if k_ is not None]
            if not any((c_.method or "") in ("set_block", "set_raw_block", "set_block_hash") for k_ in ks for c_ in k_.calls()):
                continue
            n_fw += 1
            pre = [c_ for c_ in fb.calls() if not fb.is_cleanup(c_.bb) and c_.bb != w.bb and fb.sdominates(c_.bb, w.bb) and _ep(fb, c_) and
                   ((c_.method or "") == GUARD_M or (c_.target_id in F.fns and _reaches_guard(F.fns[c_.target_id])))]
            inside = False
            for k_ in ks:
                firsts = [c_ for c_ in k_.calls() if not k_.is_cleanup(c_.bb) and (c_.method or "") in ("set_block", "set_raw_block")]
                gs_ = [c_ for c_ in k_.calls() if not k_.is_cleanup(c_.bb) and (c_.method or "") == GUARD_M and _ep(k_, c_)]
                if firsts and gs_ and all(any(k_.sdominates(g_.bb, f_.bb) and g_.bb != f_.bb for g_ in gs_) for f_ in firsts):
                    inside = True
            R.ob(bool(pre) or inside, "DOM-before", w.where(), "DOM-before|finalise_block|block-unique",
                 "finalise_block writes the block record before anything has checked that this height / hash is not finalised already "
                 "(the guard inside set_block_hash comes after set_block / set_raw_block): a refused finalise leaves a replaced block behind",
                 sample={"rule": "DOM-before", "a": "require_block_does_not_exist (via %s)" % ((pre[0].method or "?") if pre else "closure"), "b": "set_block / set_raw_block / set_block_hash"})
        R.floor("finalise_block_chain_writes", n_fw, 1)
    n_scan = T.clause_index_scan_bounds(R, F)
    R.floor("index_range_scans", n_scan, 3)
    # the hash an inscription transaction is stored under is derived from (sender, *account nonce*, target, data): unique per
    # sender over time.  Derived from anything that repeats (the index in the block, the block number) two transactions collide
    # and the later one overwrites the rows of the earlier.
    gth = [f for f in F.fns.values() if f.name.endswith("engine::utils::get_tx_hash")]
    R.floor("get_tx_hash", len(gth), 1)
    n_h = 0
    for b in ER.operation_bodies(F, "add_tx_to_block"):
        for c in b.calls():
            if gth and c.target_id == gth[0].id and not b.is_cleanup(c.bb):
                n_h += 1
                pnh = gth[0].j.get("param_names") or []
                ai = pnh.index("account_nonce") if "account_nonce" in pnh else 1
                a = W2.resolve(F, b, origin(b, c.args[ai]))
                R.ob(mentions(a, "get_account_nonce") and not mentions(a, "tx_idx") and not mentions(a, "block_number"), "WIRE", c.where(), "WIRE|add_tx_to_block|tx-hash-nonce",
                     "the transaction hash is derived from `%s`, not from the sender's account nonce" % show(a)[:70],
                     sample={"rule": "WIRE", "fn": "add_tx_to_block", "row": "get_tx_hash(tx_info, account nonce)"})
    R.floor("tx_hash_sites", n_h, 1)
    # a drained transaction is indexed under its own inscription id (and runs with its own stored data)
    ER.clause_drain_own_data(R, F)
    return R
