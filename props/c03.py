"""C03 — commit points are unobservable; uncommitted work is what is lost."""
from effects import Effects
from report import Report
import tablerules as T


def run(ctx):
    R = Report("C03", ctx.tier, "other", "TABLES exhaustiveness, read-merge dominance, who-may-touch-disk effect rule, UNORD")
    F = ctx.facts()
    CG = ctx.cg()
    R.explanation = (
        "Every table is committed and every cache (and the cached height) dropped on all success paths; every read merges "
        "cache over disk, cache first, completely (scan loops cannot stop early on an element comparison); RocksDB is touched "
        "only inside the table types; commit happens only at block boundaries (validator dominates, error propagated); "
        "clear_caches resets the unfinished block and wakes waiters first; the height after reopen comes from one committed "
        "table. Equality of answers before/after a commit is NOT decided (values).")
    R.trusted = ["rustc resolution/MIR (A1)", "RocksDB get/put/iterator semantics and durability (A3)"]
    T.clause_tables(R, F, "commit_changes")
    T.clause_tables(R, F, "clear_caches")
    T.clause_tables_new(R, F)
    T.clause_clear_resets_height(R, F)
    T.clause_derived_caches_coherent(R, F)
    T.clause_commit_order(R, F)
    T.clause_read_merge(R, F)
    T.clause_scan_unord(R, F, CG)
    E = Effects(F, CG, None)
    T.clause_who_touches_disk(R, F, E)
    T.clause_engine_commit_clear(R, F)
    import enginerules as ER
    ER.clause_block_info_reset(R, F, owners=("clear_caches",))
    # commit persists, per key, exactly the latest value the cache served (so that dropping the cache changes no answer)
    T.clause_commit_per_key(R, F)
    # a commit must not drop a history that an accepted reorg still needs: which commit placements are harmless depends on
    # the pruning guard (is_old) being exactly the window
    import windowrules as W2
    W2.clause_history_window(R, F)
    # what is in memory is at least as new as what a commit persisted: a later operation (a reorg, a write) works on the
    # in-memory history of a key when there is one - a persisted history is loaded only for an absent key, and a table rollback
    # visits cached and persisted keys through that loader
    T.clause_retrieve_cache(R, F)
    # "commit at any boundary, or never, changes no later answer": whether a deep reorg is refused must not depend on it - the
    # recorded maximum height only grows (after a reorg and one new block it would otherwise admit a reorg below pruned history)
    T.clause_max_monotone(R, F)
    W2.clause_table_reorg_visits_all(R, F)
    return R
