"""C10 — read-only methods never change state.

Decides the *effect clause*: for every read handler, no write effect on any
shared state container, no disk write, no EVM commit and no write lock is
reachable in the resolved program, with exactly one permitted shape: the
database slot move (mem::take .. mem::swap back on every path) under the db
write lock around a *non-committing* EVM entry point -- where "non-committing"
is decided by parametricity (the callee's elaborated where-clauses give it no
DatabaseCommit capability on our database), not by its name."""
from effects import Effects
from lockrule import LockModel
from pairrule import slot_windows, unpaired_exits
from report import Report
import roles


def classify_methods(F):
    methods = roles.rpc_methods(F)
    denys = roles.deny_list(F)
    deny = set()
    for name, strs, f in denys:
        if name and "INDEXER" in name.upper() or len(denys) == 1:
            deny |= set(strs)
    read, write = [], []
    for (name, ms, handlers, c) in methods:
        if name in deny and not name.startswith("debug_"):
            write.append((name, ms, handlers))
        else:
            read.append((name, ms, handlers))
    return methods, deny, read, write


def run(ctx):
    R = Report("C10", ctx.tier, "proof", "may-write effect inference over MIR + call graph; parametricity of EVM entry points")
    return rules(R, ctx.facts(), ctx.cg(), own=True)


def rules(R, F, CG, own=False, only=None):
    """the effect obligations, recorded into R: C10's own report, or another property's for the methods in `only`"""
    LM = LockModel(F, CG)
    E = Effects(F, CG, LM)
    if not own:
        _say = R.say
        R.say = lambda s_: None
        _expl, _tr, _as = R.explanation, R.trusted, R.assumptions
    R.explanation = (
        "EFFECT rule: primitive write effects (stores through &mut into shared-state containers, mem::take/swap "
        "slots, RocksDB/fs write APIs, EVM commit capability, write-lock acquisitions, interior mutability) are read "
        "off every body's MIR and closed over the call graph; obligations = read handlers x effect classes, plus the "
        "slot-move shape (pairing on all paths + non-commit entry points) and purity of the revm::Database callbacks.")
    R.trusted = ["rustc resolution/type check/MIR (A1)", "call-graph closure rules incl. callback elaboration (A2)",
                 "revm holds simulated changes in its journal and writes the database only through DatabaseCommit (A3)",
                 "RocksDB API read/write classification table (effects.py)"]
    R.assumptions = ["dependencies do not downcast through Any or use specialisation to reach DatabaseCommit"]
    methods, deny, read, write = classify_methods(F)
    if only is not None:
        read = [x for x in read if x[0] in only]
    R.say("C10: %d registered methods, %d on the deny list, %d read handlers analysed" % (len(methods), len(deny), len(read)))
    R.floor("registered_methods", len(methods), 55)
    R.floor("read_methods" if only is None else "simulation_methods", len(read), 44 if only is None else len(only))
    containers, payloads = roles.state_containers(F)
    R.say("C10: shared-state containers: %s" % ", ".join(sorted(x.split("::")[-1] for x in containers)))
    R.floor("state_containers", len(containers), 8)
    dbname = roles.database_struct(F)["name"]
    cl = E.closed()

    for (fn, wh, path) in E.unknown_rocks:
        R.violation("EFFECT-API", wh, "EFFECT-API|%s|%s" % (fn.name, path),
                    "RocksDB API %s is not classified as read or write in effects.py (fail closed)" % path)

    # the permitted shape: which functions hold the slot window
    windows = slot_windows(F, E)
    slot_fns = {w[0].id for w in windows}
    db_lock = None
    for s in LM.sites:
        if s["mode"] == "W" and dbname.split("::")[-1] in (s["call"].func.get("self_ty") or ""):
            db_lock = s["lock"]
    R.say("C10: database = %s, db lock = %s, %d slot windows" % (dbname, db_lock, len(windows)))
    R.floor("slot_windows", len(windows), 2)      # 3 on the pinned tree; the two simulation windows may share one take/swap frame

    def forbidden(e):
        k, subj = e
        if k == "MUT":
            return subj in containers
        if k in ("WDISK", "COMMIT", "IMUT", "OPEN"):
            return True
        if k == "WLOCK":
            return subj != db_lock
        return False

    n = 0
    for (name, ms, handlers) in read:
        if not handlers:
            R.violation("EFFECT", "into_rpc", "EFFECT|%s|unresolved" % name, "registered method %s resolves to no handler" % name)
            continue
        for h in handlers:
            effs = cl[h]
            bad = sorted(e for e in effs if forbidden(e))
            for e in bad:
                R.violation("EFFECT", F.fns[h].where(), "EFFECT|%s|%s:%s" % (name, e[0], e[1]),
                            "read method %s can reach effect %s(%s)" % (name, e[0], e[1]), E.witness(h, e))
            classes = 6
            R.ok(classes - min(len(bad), classes), sample=None if n > 6 else {
                "rule": "EFFECT", "method": name, "handler": F.fns[h].name,
                "reachable_bodies": len(CG.reachable_from([h])),
                "effects": sorted("%s(%s)" % (e[0], e[1].split("::")[-1]) for e in effs if e[0] not in ("RDISK",) and not e[1].startswith("?"))})
            n += 1
            # the slot shape: SLOT/WLOCK(db) reachable only through the window functions
            if ("SLOT", dbname) in effs or ("WLOCK", db_lock) in effs:
                reach = CG.reachable_from([h])
                holders = [x for x in reach if ("SLOT", dbname) in E.direct.get(x, ()) or ("WLOCK", db_lock) in E.direct.get(x, ())]
                for x in holders:
                    fx = F.fns[x]
                    # a W acquisition of the db lock in a read path must be the one passing a slot-window closure
                    ok = x in slot_fns or any(c in slot_fns for c in CG.edges.get(x, ()))
                    R.ob(ok, "EFFECT-SLOT", fx.where(), "EFFECT-SLOT|%s|%s" % (name, fx.name),
                         "read method %s takes the database write lock / moves the slot in %s outside the take..swap shape" % (name, fx.name))

    # windows: pairing + non-commit entry points (only the windows reachable from read handlers must be non-commit)
    read_roots = [h for (_, _, hs) in read for h in hs]
    read_reach = CG.reachable_from(read_roots)
    for (fn, takes, swaps, owner) in windows:
        bad = unpaired_exits(fn, takes, swaps)
        R.ob(not bad, "PAIR", fn.where(), "PAIR|%s|take-swap" % fn.name,
             "mem::take of the database is not followed by mem::swap on every path to a return: %s" % (
                 ", ".join("take@bb%d -> return@bb%d (line %s)" % (a, b, fn.term(b)["loc"]["l"]) for a, b in bad)),
             sample={"rule": "PAIR take/swap", "fn": fn.name, "takes": len(takes), "swaps": len(swaps)})
        if fn.id in read_reach:
            # EVM entry points inside: calls with a revm::Database callback on our database
            entries = []
            for c in fn.calls():
                cbs = (c.func or {}).get("callbacks", [])
                if any(cb.endswith("PrecompileProvider|" + x) or "PrecompileProvider|" in cb for cb in cbs for x in [""]):
                    entries.append(c)
            R.ob(len(entries) >= 1, "EFFECT-ENTRY", fn.where(), "EFFECT-ENTRY|%s|none" % fn.name,
                 "no EVM entry point found inside the slot window of %s (anchor lost)" % fn.name)
            for c in entries:
                cbs = c.func.get("callbacks", [])
                commit = [cb for cb in cbs if "DatabaseCommit|" in cb]
                R.ob(not commit and ("COMMIT", c.path.split("::")[-1]) not in E.direct.get(fn.id, ()),
                     "EFFECT-ENTRY", c.where(), "EFFECT-ENTRY|%s|%s" % (fn.name, c.path.split("::")[-1]),
                     "simulation path calls EVM entry point %s which has DatabaseCommit capability on %s" % (c.path, owner),
                     sample={"rule": "EFFECT-ENTRY (parametricity)", "fn": fn.name, "entry": c.path,
                             "callbacks": cbs})
    # clause 2: the revm::Database callbacks are pure
    n_cb = 0
    for f in F.fns.values():
        if f.j.get("trait") == "revm::Database" and f.j.get("self_ty") == dbname:
            n_cb += 1
            bad = sorted(e for e in cl[f.id] if forbidden(e) or e[0] in ("SLOT", "WLOCK"))
            R.ob(not bad, "EFFECT-DBREAD", f.where(), "EFFECT-DBREAD|%s" % f.name,
                 "revm::Database callback %s has write effects %s" % (f.name, bad),
                 sample={"rule": "EFFECT-DBREAD", "fn": f.name})
    R.floor("database_trait_methods", n_cb, 4)
    if not own:
        R.say = _say
        R.explanation, R.trusted, R.assumptions = _expl, _tr, _as
    return R
