"""C07 — the BRC20 bridge ledger is conserved and only the indexer can mint or burn (authority and wiring; not the arithmetic)."""
import json
import os
import re

from report import Report
from terms import origin, show, mentions, calls_in
import enginerules as ER
import construle
import roles
import solparse as S
import wire as W


def run(ctx):
    R = Report("C07", ctx.tier, "other", "who-may-speak-as-the-indexer WIRE/who-may-call rules on MIR; selector/ABI/bytecode agreement; Solidity structure rules")
    F = ctx.facts()
    CG = ctx.cg()
    R.explanation = (
        "Authority and wiring, not arithmetic: every TxInfo that reaches add_tx_to_block has a sender that is hash-derived from a "
        "pkscript, signature-recovered, read back from a stored pending transaction, or the indexer address via the three controller "
        "loaders; the indexer address is used only by those loaders, and the mint/burn/deploy loaders are called only from "
        "brc20_deposit / brc20_withdraw / initialise; deposit/withdraw/balance pass the ticker through the one lower-casing "
        "normaliser and the pkscript through the one address derivation; the sol! signatures equal the shipped ABI entries and their "
        "selectors occur as PUSH4 constants in the embedded runtime bytecode; in the Solidity sources every public/external function "
        "that reaches _mint/_burn carries onlyOwner, _update is called only from _mint/_burn/_transfer, _transfer rejects the zero "
        "address before _update, balances/supply are assigned only in _update, owners are fixed at construction to the deployer; "
        "controller address and bytecode are pinned. Balance conservation arithmetic and bytecode<->source correspondence (no solc "
        "in the sandbox) are NOT decided.")
    R.trusted = ["rustc resolution/MIR (A1)", "the embedded deploy bytecode is the compilation of contract/src (A4: no solc available)", "EVM CALLER semantics (A3)"]
    em = ER.engine_methods(F)
    atb = em["add_tx_to_block"]
    idx = atb.j["param_names"].index("tx_info")
    # ---- 1. who may speak as the indexer
    sites = [(f, c) for f in F.host_units() for c in f.calls() if c.target_id == atb.id and not f.is_cleanup(c.bb)]
    R.floor("add_tx_to_block_call_sites", len(sites), 7)
    classes = {}
    for f, c in sites:
        t = W.resolve(F, f, origin(f, c.args[idx]))
        if mentions(t, "load_brc20_mint_tx") or mentions(t, "load_brc20_burn_tx") or mentions(t, "load_brc20_deploy_tx"):
            k = "indexer-loader"
        elif mentions(t, "from_saved_transaction") and mentions(t, "get_pending_tx"):
            k = "stored-pending"
        elif mentions(t, "from_inscription") and mentions(t, "get_evm_address_from_pkscript"):
            k = "pkscript-hash"
        elif mentions(t, "get_info_from_raw_tx"):
            k = "signature-recovered"
        elif W.strip(t)[0] == "param":
            k = "param"
        else:
            k = "?"
        classes.setdefault(k, []).append(c.where())
        R.ob(k != "?", "WIRE", c.where(), "WIRE|sender|%s" % f.name, "a transaction is executed with a sender of unrecognised origin: %s" % show(t)[:140],
             sample={"rule": "WIRE sender", "site": f.name[-50:], "class": k})
    R.say("C07: sender classes at add_tx_to_block call sites: %s" % {k: len(v) for k, v in classes.items()})
    # from_saved_transaction's `from` is the stored pending tx's from
    art = em["add_raw_tx_to_block"]
    for g in [art]:
        for c in g.calls():
            if (c.target_path or "").endswith("TxInfo::from_saved_transaction") and not g.is_cleanup(c.bb):
                a = origin(g, c.args[0])
                R.ob(mentions(a, "get_pending_tx") and mentions(a, ".from"), "WIRE", c.where(), "WIRE|sender|stored-from", "a drained transaction's sender is `%s`, not its stored sender" % show(a)[:80])
    # signature recovered: from <- recover_address_from_prehash
    gi = em["get_info_from_raw_tx"]
    for c in gi.calls():
        if (c.target_path or "").endswith("TxInfo::from_raw_transaction") and not gi.is_cleanup(c.bb):
            a = origin(gi, c.args[0])
            R.ob(mentions(a, "recover_address_from_prehash"), "WIRE", c.where(), "WIRE|sender|recovered", "a signed transaction's sender is `%s`, not the recovered signer" % show(a)[:80],
                 sample={"rule": "WIRE sender", "site": "get_info_from_raw_tx", "from": "recover_address_from_prehash(signing_hash)"})
    # users of INDEXER_ADDRESS
    users = set()
    for f in F.body_fns():
        for c in f.calls():
            if c.trait == "std::ops::Deref" and (c.self_ty or "").endswith("INDEXER_ADDRESS") and not f.is_cleanup(c.bb):
                users |= F.hosts_of(f)       # a private helper shared by the loaders is the loaders' use
    allowed_users = {"brc20_controller::brc20_controller::load_brc20_mint_tx", "brc20_controller::brc20_controller::load_brc20_burn_tx",
                     "brc20_controller::brc20_controller::load_brc20_balance_tx", "brc20_controller::brc20_controller::load_brc20_deploy_tx"}
    for u in sorted(users):
        # eth_accounts only *reports* the address as a string (no execution); lazy_static plumbing
        ok = u in allowed_users or u.endswith("__static_ref_initialize") or "LazyStatic>::initialize" in u or u.startswith("api::api::Brc20ProgApiServer::eth_accounts")
        R.ob(ok, "WHO", "src", "WHO|INDEXER_ADDRESS|%s" % u, "%s uses the indexer address (only the controller loaders may)" % u, sample={"rule": "WHO", "static": "INDEXER_ADDRESS", "user": u})
    R.floor("indexer_address_users", len(users), 4)
    # callers of the loaders
    want = {"load_brc20_mint_tx": "brc20_deposit", "load_brc20_burn_tx": "brc20_withdraw", "load_brc20_deploy_tx": "initialise", "load_brc20_balance_tx": "brc20_balance"}
    for ln, who in want.items():
        lf = [f for f in F.fns.values() if f.name.endswith("brc20_controller::" + ln)]
        callers = sorted({h for f in F.body_fns() for c in f.calls() if lf and c.target_id == lf[0].id for h in F.hosts_of(f)})
        R.ob(bool(callers) and all(who in c for c in callers), "WHO", "src/brc20_controller", "WHO|%s" % ln, "%s is called from %s; only %s may" % (ln, callers, who),
             sample={"rule": "WHO", "loader": ln, "callers": callers})
    # ---- 3. one normaliser / one derivation
    tk = [f for f in F.fns.values() if f.name.endswith("rpc_server::ticker_as_bytes")]
    R.floor("ticker_normaliser", len(tk), 1)
    if tk:
        R.ob(any((c.method or "") == "to_lowercase" for c in tk[0].calls()), "GUARD", tk[0].where(), "GUARD|ticker|lowercase", "the ticker normaliser no longer lower-cases",
             sample={"rule": "GUARD", "fn": "ticker_as_bytes", "row": "to_lowercase"})
    for name, ms, handlers, creg in roles.rpc_methods(F):
        if name not in ("brc20_deposit", "brc20_withdraw", "brc20_balance"):
            continue
        for h in handlers:
            for d in F.descendants(h):
                for c in d.calls():
                    p = c.target_path or ""
                    if p.endswith("load_brc20_mint_tx") or p.endswith("load_brc20_burn_tx") or p.endswith("load_brc20_balance_tx"):
                        t0 = W.resolve(F, d, origin(d, c.args[0]))
                        t1 = W.resolve(F, d, origin(d, c.args[1]))
                        R.ob(mentions(t0, "ticker_as_bytes") and mentions(t0, "ticker"), "SIBLING", c.where(), "SIBLING|%s|ticker" % name, "%s passes ticker `%s` without the normaliser" % (name, show(t0)[:60]),
                             sample={"rule": "SIBLING", "handler": name, "ticker": show(t0)[:60]})
                        R.ob(mentions(t1, "get_evm_address_from_pkscript") and mentions(t1, "pkscript"), "SIBLING", c.where(), "SIBLING|%s|address" % name, "%s derives the holder address as `%s`" % (name, show(t1)[:60]),
                             sample={"rule": "SIBLING", "handler": name, "address": show(t1)[:60]})
                        if len(c.args) > 2:
                            t2 = W.resolve(F, d, origin(d, c.args[2]))
                            R.ob(mentions(t2, "amount"), "WIRE", c.where(), "WIRE|%s|amount" % name, "%s passes amount `%s`" % (name, show(t2)[:60]))
    # ---- 2. selectors / ABI / bytecode
    man = construle.manifest(F, ctx.repo)
    base = os.path.join(ctx.repo, "src/brc20_controller/contract/output")
    abi = json.load(open(os.path.join(base, "BRC20_Controller.abi")))
    bytecode = open(os.path.join(base, "BRC20_Controller_deploy.bytecode")).read().strip().lower()
    sigs = {}
    for e in abi:
        if e.get("type") == "function":
            sigs["%s(%s)" % (e["name"], ",".join(i["type"] for i in e["inputs"]))] = e
    for call in ("mintCall", "burnCall", "balanceOfCall"):
        sig = man.get("sol brc20_controller::brc20_controller::%s>::SIGNATURE" % call)
        sel = man.get("sol brc20_controller::brc20_controller::%s>::SELECTOR" % call)
        R.ob(sig in sigs, "CONST", "src/brc20_controller/brc20_controller.rs", "CONST|abi|%s" % call, "sol! signature %r is not a function of the shipped ABI" % sig,
             sample={"rule": "CONST", "call": call, "signature": sig, "in_abi": sig in sigs})
        R.ob(bool(sel) and ("63" + sel) in bytecode, "CONST", "src/brc20_controller/contract/output", "CONST|bytecode|%s" % call, "selector %s of %s does not occur as a PUSH4 constant in the embedded bytecode" % (sel, call),
             sample={"rule": "CONST", "call": call, "selector": sel, "push4_in_bytecode": bool(sel) and ("63" + sel) in bytecode})
        if sig in sigs and call in ("mintCall", "burnCall"):
            R.ob(sigs[sig].get("stateMutability") == "nonpayable", "CONST", "abi", "CONST|abi-mut|%s" % call, "ABI mutability of %s changed" % sig)
    pinned = ctx.table("consensus_v2.json")["constants"]
    for k in ("static brc20_controller::brc20_controller::BRC20_CONTROLLER_ADDRESS", "static global::config::INDEXER_ADDRESS",
              "file contract/output/BRC20_Controller_deploy.bytecode", "file contract/output/BRC20_Controller.abi"):
        R.ob(man.get(k) == pinned.get(k), "CONST", "consensus manifest", "CONST|" + k, "%s is %r, pinned %r" % (k, man.get(k), pinned.get(k)), sample={"rule": "CONST pin", "name": k.split("::")[-1][:50]})
    # verify address after deployment
    ini = em["initialise"]
    R.ob(any((c.target_path or "").endswith("verify_brc20_contract_address") for c in ini.calls()), "DOM-all", ini.where(), "DOM-all|initialise|verify-address",
         "initialise no longer verifies the deployed controller address", sample={"rule": "DOM-all", "fn": "initialise", "step": "verify_brc20_contract_address"})
    # ---- 4. Solidity structure
    srcdir = os.path.join(ctx.repo, "src/brc20_controller/contract/src")
    cs = S.parse(open(os.path.join(srcdir, "BRC20_Controller.sol")).read()) + S.parse(open(os.path.join(srcdir, "access/Ownable.sol")).read())
    byname = {c["name"]: c for c in cs}
    R.floor("solidity_contracts", len([c for c in cs if c["kind"] == "contract"]), 3)
    tok = byname.get("BRC20")
    ctl = byname.get("BRC20_Controller")
    own = byname.get("Ownable")
    if tok and ctl and own:
        # internal call graph of the token
        fns = {}
        for f in tok["functions"]:
            fns.setdefault(f["name"], []).append(f)

        def reach(body, seen=None):
            seen = seen if seen is not None else set()
            for n in S.calls(body):
                if n in fns and n not in seen:
                    seen.add(n)
                    for g in fns[n]:
                        reach(g["body"], seen)
            return seen
        for f in tok["functions"]:
            if f["kind"] != "function" or S.visibility(f) not in ("public", "external"):
                continue
            r = reach(f["body"])
            if "_mint" in r or "_burn" in r:
                R.ob("onlyOwner" in f["attrs"], "SOL", "BRC20_Controller.sol", "SOL|BRC20|%s(%s)" % (f["name"], len(f["params"].split(","))),
                     "token function %s can reach _mint/_burn without onlyOwner" % f["name"], sample={"rule": "SOL", "contract": "BRC20", "fn": f["name"], "modifiers": f["attrs"]})
        callers_update = sorted({f["name"] for f in tok["functions"] if "_update" in S.calls(f["body"])})
        R.ob(callers_update == ["_burn", "_mint", "_transfer"], "SOL", "BRC20_Controller.sol", "SOL|BRC20|_update-callers", "_update is called from %s" % callers_update,
             sample={"rule": "SOL", "row": "_update callers", "callers": callers_update})
        for f in tok["functions"]:
            writes = re.findall(r"\b(_balances\s*\[[^\]]*\]|_totalSupply)\s*(\+=|-=|=)(?!=)", f["body"])
            if writes:
                R.ob(f["name"] == "_update", "SOL", "BRC20_Controller.sol", "SOL|BRC20|ledger-write:%s" % f["name"], "%s assigns balances/supply outside _update" % f["name"],
                     sample={"rule": "SOL", "row": "ledger writes", "fn": f["name"], "writes": len(writes)})
        tr = fns.get("_transfer", [{}])[0].get("body", "")
        up = tr.find("_update(")
        ok = up > 0 and "from == address(0)" in tr[:up].replace("  ", " ") and "to == address(0)" in tr[:up] and tr[:up].count("revert") >= 2
        R.ob(ok, "SOL", "BRC20_Controller.sol", "SOL|BRC20|_transfer-zero", "_transfer does not reject zero from/to before _update", sample={"rule": "SOL", "row": "_transfer rejects zero address"})
        # mint/burn shapes
        R.ob("_update(address(0), account, value)" in fns["_mint"][0]["body"].replace("  ", " "), "SOL", "BRC20_Controller.sol", "SOL|BRC20|_mint-shape", "_mint is no longer _update(0, account, value)")
        R.ob("_update(account, address(0), value)" in fns["_burn"][0]["body"].replace("  ", " "), "SOL", "BRC20_Controller.sol", "SOL|BRC20|_burn-shape", "_burn is no longer _update(account, 0, value)")
        # constructors fix the owner to the deployer
        for c in (tok, ctl):
            ctor = [f for f in c["functions"] if f["kind"] == "constructor"]
            R.ob(bool(ctor) and re.search(r"Ownable\s*\(\s*(_msgSender\(\)|msg\.sender)\s*\)", ctor[0]["attrs"]) is not None, "SOL", "BRC20_Controller.sol", "SOL|%s|owner" % c["name"],
                 "%s's owner is not fixed to the deployer at construction" % c["name"], sample={"rule": "SOL", "contract": c["name"], "ctor": ctor[0]["attrs"] if ctor else None})
        # controller: mint/burn onlyOwner and forward to the token's mint/burn; tokens created only in mint
        for f in ctl["functions"]:
            if f["kind"] == "function" and (".mint(" in f["body"] or ".burn(" in f["body"] or "new BRC20" in f["body"]):
                R.ob("onlyOwner" in f["attrs"], "SOL", "BRC20_Controller.sol", "SOL|Controller|%s" % f["name"], "controller function %s mints/burns/creates tokens without onlyOwner" % f["name"],
                     sample={"rule": "SOL", "contract": "BRC20_Controller", "fn": f["name"], "modifiers": f["attrs"]})
        # Ownable: modifier checks, _checkOwner reverts unless owner() == _msgSender()
        mod = [f for f in own["functions"] if f["kind"] == "modifier" and f["name"] == "onlyOwner"]
        chk = [f for f in own["functions"] if f["name"] == "_checkOwner"]
        R.ob(bool(mod) and "_checkOwner()" in mod[0]["body"] and mod[0]["body"].find("_checkOwner()") < mod[0]["body"].find("_;"), "SOL", "Ownable.sol", "SOL|Ownable|modifier",
             "onlyOwner no longer checks the owner before running the body", sample={"rule": "SOL", "row": "onlyOwner = _checkOwner(); _;"})
        R.ob(bool(chk) and re.search(r"owner\(\)\s*!=\s*_msgSender\(\)", chk[0]["body"]) and "revert" in chk[0]["body"], "SOL", "Ownable.sol", "SOL|Ownable|_checkOwner",
             "_checkOwner no longer reverts when owner() != _msgSender()")
    else:
        R.violation("SOL", "contract/src", "SOL|parse", "Solidity sources could not be parsed into BRC20 / BRC20_Controller / Ownable")
    # a refused bridge call must not mint or burn: the block-protocol validator refuses, before anything executes, every call
    # that the database layer would only refuse after the EVM state change was applied (existing hash / number, wrong index)
    ER.clause_validator_rows(R, F)
    # the ledger lives in EVM state: the three state tables follow the chain (a reorg that leaves one out keeps balances of
    # orphaned deposits; a clear_caches that leaves one out keeps uncommitted mints)
    import tablerules as T
    state_tables = T.fields_touched(F, ["get_account_info", "get_account_memory", "get_code"])
    R.floor("state_tables", len(state_tables), 3)
    for dm in ("reorg", "clear_caches", "commit_changes"):
        T.clause_tables(R, F, dm, only_fields=state_tables)
    # ... "across reorgs": a deposit of an orphaned block must be rolled back even by a reorg of the maximum accepted depth, so the
    # history of a balance slot may be dropped only once it is outside the window (is_old / pruning guards exactly the window)
    import windowrules as W7
    W7.clause_history_window(R, F)
    # ... and the rollback of a balance slot restores the *persisted* value it had before the orphaned deposit: the history of
    # a key is seeded from the value table (not from the history table), every touched key is visited by the table's reorg,
    # and a commit writes each key's latest value (round-6 seed C07-history-seeded-from-history-table: owned by C13, a
    # necessary condition of "conserved across reorgs")
    T.clause_retrieve_cache(R, F)
    W7.clause_table_reorg_visits_all(R, F)
    T.clause_commit_per_key(R, F)
    # the ledger is contract storage: revm's state diff is written slot by slot in DatabaseCommit::commit, and a slot that
    # went back to exactly zero (a whole balance moved or withdrawn) is a *changed* slot like any other.  In the innermost loop
    # that holds the slot store, the only tests are the iterator's exhaustion and `is_changed` (round-6 seed
    # C07-zero-slot-not-written: `|| present_value().is_zero()` keeps the sender's balance while the receiver is credited)
    import looprule as _LR7
    n_store_loops = 0
    for f7 in F.host_units():
        if not (f7.name.endswith("::commit") and "DatabaseCommit" in f7.name):
            continue
        sm = [c for c in f7.calls() if (c.target_path or "").endswith("set_account_memory") and not f7.is_cleanup(c.bb)]
        loops = sorted([(len(b_), h_, b_) for (h_, b_, _k) in _LR7.natural_loops(f7) if any(c.bb in b_ for c in sm)], key=lambda x: x[0])
        if not loops:
            continue
        n_store_loops += 1
        _n, _h, body7 = loops[0]
        for b7 in sorted(body7):
            t7 = f7.term(b7)
            if t7["k"] != "switch" or f7.is_cleanup(b7):
                continue
            heads = {x[1].split("::")[-1] for x in calls_in(origin(f7, t7["discr"]))}
            extra = heads - {"next", "into_iter", "iter", "is_changed"}
            R.ob(not extra and bool(heads), "GUARD", "%s:%s" % (f7.loc["f"], (t7.get("loc") or {}).get("l")), "GUARD|db.commit|slot-skip-only-unchanged",
                 "the slot loop of DatabaseCommit::commit tests something besides `is_changed` (%s): a changed slot can be left unwritten "
                 "(a balance that returns to zero keeps its old value)" % sorted(extra),
                 sample={"rule": "GUARD", "fn": "DatabaseCommit::commit", "tests": sorted(heads)})
    R.floor("slot_store_loops", n_store_loops, 1)
    # "no transaction a user can submit can create or destroy tokens": the public simulation end points execute arbitrary calls
    # with any sender (the indexer address included); nothing they do may reach the database (no commit capability, no store
    # into a state container) - otherwise eth_callMany(from = indexer, mint(..)) mints
    import c10
    c10.rules(R, F, CG, only={"eth_call", "eth_callMany", "eth_estimateGas", "eth_estimateGasMany", "brc20_balance"})
    return R
