"""C13 — versioned tables behave like a simple map with a 10-block undo window."""
from report import Report
import tablerules as T
import windowrules as W


def run(ctx):
    R = Report("C13", ctx.tier, "other", "UNORD taint + GUARD normal forms + dominance over the versioned-table MIR")
    F = ctx.facts()
    CG = ctx.cg()
    R.explanation = (
        "Structural conditions of the map-with-undo-window behaviour: range/full scans are complete (no element-dependent "
        "exit from the hash-ordered cache merge loop) and key-ordered (no hash iteration order reaches the result); the "
        "window inequalities of pruning, is_old and rollback equal the statement's 10 blocks from the one constant; "
        "set/unset are siblings (same monotonicity guard, same dedup→insert→prune order, keyed by the block argument); "
        "retrieve_cache seeds from the stored value and never overwrites a cached history; commit deletes history rows "
        "iff is_old and writes/deletes the latest row by latest(). Model equivalence over operation sequences is NOT decided.")
    R.trusted = ["rustc resolution/MIR (A1)", "std HashMap iteration order is unspecified; BTreeMap iterates ascending; RocksDB iterators are key-ordered (A3)"]
    T.clause_scan_unord(R, F, CG)
    W.clause_history_window(R, F)
    T.clause_retrieve_cache(R, F)
    T.clause_commit_per_key(R, F)
    T.clause_read_merge(R, F)
    W.clause_table_reorg_visits_all(R, F)
    return R
