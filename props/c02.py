"""C02 — replicas fed the same call history agree byte for byte."""
import json
import os

from lockrule import LockModel
from report import Report
from terms import origin, show, mentions, calls_in
from unord import Unord
import construle
import ndet
import roles
import tablerules as T
import wire as W

PINNED = "consensus_v2.json"


def run(ctx):
    R = Report("C02", ctx.tier, "other", "UNORD + NDET taint (source-freedom of outputs), purity (who-may-read) of derivations, consensus-constant manifest")
    F = ctx.facts()
    CG = ctx.cg()
    R.explanation = (
        "The static answer to a determinism property: if no nondeterministic source flows to an output, outputs are a function of "
        "the input history. (1) UNORD over the whole crate: no std HashMap/HashSet iteration order reaches an RPC result, a stored "
        "value or a hash/encoding (interprocedural taint, sorts as sanitizers); loops over hash containers only perform keyed "
        "writes (reviewed table) and cannot exit on an element-dependent condition. (2) NDET: every clock/env/random source in the "
        "crate is found and its forward flow is limited to the processing-time bookkeeping the statement exempts, tracing, and "
        "configuration loading. (3) tx hash / gas limit / sender address / generated block hash are pure functions of their "
        "arguments (no lock, static, clock reachable). (4) same protocol version => same consensus constants (pinned manifest of "
        "evaluated constants, precompile addresses, selectors, embedded bytecode hash). (5) sorted where the statement says "
        "sorted. Determinism of revm, RocksDB, zstd, nada is NOT decided (A3).")
    R.trusted = ["rustc resolution/MIR (A1)", "std HashMap iteration order is the only order-nondeterminism in std collections used here", "dependencies are deterministic (A3)"]
    # ---- 1. UNORD
    U = Unord(F, CG)
    hs = roles.handler_roots(F)
    entries = set(hs)
    for h in hs:
        for d in F.descendants(h):
            entries.add(d.id)
    cb = [f.id for f in F.fns.values() if (f.j.get("trait") or "") in ("revm::Database", "revm::DatabaseCommit") or (f.j.get("trait") or "").endswith("PrecompileProvider")]
    ret, out = U.run(sorted(entries))
    # 12 on the pinned tree; several are copies of one overlay loop (get_range / all / commit / clear ...) that a de-duplicating
    # refactoring merges, so the floor only guards against losing the type-resolved HashMap iteration facts wholesale
    R.floor("hash_iteration_sources", len(U.sources), 6)
    R.say("C02: %d hash-iteration sources, %d bodies return an order-tainted sequence" % (len(U.sources), sum(1 for v in ret.values() if v)))
    seen_ent = set()
    for e in out:
        key = "U-RETURN|%s|%s" % (e["fn"].split("::{closure")[0], e["site"].split("@")[0].split("::")[-1])
        if key in seen_ent:
            continue
        seen_ent.add(key)
        R.violation("U-RETURN", e["where"], key, "RPC result of %s carries hash iteration order from %s" % (e["fn"], e["site"].split("@")[-1]))
    R.ok(len(entries), sample={"rule": "U-RETURN", "entries_checked": len(entries), "order_tainted": len(seen_ent)})
    for ev in U.events:
        R.violation(ev["kind"], ev["where"], "%s|%s|%s" % (ev["kind"], ev["fn"], ev["site"].split("@")[0].split("::")[-1]),
                    "%s in %s (order from %s)" % (ev["detail"], ev["fn"], ev["site"].split("@")[-1]))
    R.ok(1, sample={"rule": "U-STORE/U-PICK", "events": len(U.events)})
    loops_tbl = {r["key"]: r for r in ctx.table("unord_loops.json")["rows"]}
    for key, info in sorted(U.loops_seen.items()):
        fn = F.fns[key[0]]
        R.ob(not info["exits"], "U-EXIT", "%s:%s" % (fn.loc["f"], info["line"]), "U-EXIT|%s|line-independent" % fn.name,
             "a loop over a hash container in %s exits on an element-dependent condition: %s" % (fn.name, [e["cond"][:80] for e in info["exits"]]))
        for eff in info["effects"]:
            if eff["kind"] == "keyed-commutative":
                R.ok(1)
                continue
            k = "%s|%s" % (fn.name, eff["callee"])
            row = loops_tbl.get(k)
            R.ob(row is not None, "U-EFFECT", "%s:%s" % (fn.loc["f"], eff["line"]), "U-EFFECT|" + k,
                 "a loop driven by hash iteration order in %s calls %s with mutable state; not a reviewed commutative effect" % (fn.name, eff["callee"]),
                 sample={"rule": "U-EFFECT reviewed", "key": k[:120], "reason": row["reason"][:80] if row else None})
    # callbacks returning hash order to revm: reviewed rows
    for fid in cb:
        s = ret.get(fid)
        if s:
            k = "%s|return" % F.fns[fid].name
            row = loops_tbl.get(k)
            R.ob(row is not None, "U-RETURN", F.fns[fid].where(), "U-RETURN|callback|" + k, "callback %s returns hash iteration order to revm" % F.fns[fid].name,
                 sample={"rule": "U-RETURN callback reviewed", "key": k[:100], "reason": row["reason"][:80] if row else None})
    # ---- 2. NDET
    nd_tbl = {r["key"]: r for r in ctx.table("ndet.json")["rows"]}
    srcs = ndet.sources(F)
    # 31 on the pinned tree, 18 of them the `env::var` reads of Brc20ProgConfig::from_env, which a refactoring into
    # `env_string_or(key, default)`-style helpers folds into three or four; the floor guards against losing the facts wholesale
    R.floor("ndet_sources", len(srcs), 8)
    seen_keys = {}
    # A source is keyed by the top-level function it belongs to.  A *private helper* (extract-method) belongs to the functions
    # that call it: its body is read inside each caller's inlined view (so a clock value handed to the helper as an argument is
    # followed into it), and closures nested in it are keyed by those callers.
    import re as _re
    from facts import is_private_helper
    def root_of(f):
        r = F.fns.get(f.j.get("root")) if f.j.get("root") else None
        return r if r is not None else f
    hosts = {}                       # private helper name -> {host root name}
    inl_of = {}                      # root name -> names of the bodies read in place in its view
    units, covered = [], set()
    # sources whose own top-level function is a reviewed row (a constructor such as LastBlockInfo::new) stay that function's
    def _raw_key(f_, c_):
        return "%s|%s" % (_re.sub(r"(::\{closure#\d+\})+$", "", f_.name), (c_.target_path or "").split("::")[-2] + "::" + (c_.target_path or "").split("::")[-1])
    own = {(f_.id, c_.bb) for (f_, c_) in srcs if _raw_key(f_, c_) in nd_tbl}
    for (f_, c_) in srcs:
        if (f_.id, c_.bb) in own:
            # flows are followed in the body with its helpers read in place (the host's own blocks keep their numbers)
            v_ = F.inlined(f_, light=True)
            cc_ = [x for x in v_.calls() if x.bb == c_.bb and (x.target_path or "") == (c_.target_path or "")]
            units.append((_re.sub(r"(::\{closure#\d+\})+$", "", f_.name), v_ if cc_ else f_, cc_[0] if cc_ else c_, (f_.id, c_.bb)))
    covered |= own
    for f in F.body_fns():
        rt = root_of(f)
        if is_private_helper(rt):
            continue
        # methods of small record types are read in their callers too (`info.record_executed_tx(..)` is the caller's update)
        v = F.inlined(f, light=True)
        inl_of.setdefault(_re.sub(r"(::\{closure#\d+\})+$", "", f.name), set()).update(v.j.get("inlined", []))
        for nm in v.j.get("inlined", []):
            hosts.setdefault(nm, set()).add(_re.sub(r"(::\{closure#\d+\})+$", "", f.name))
        for c in v.calls():
            if not v.is_cleanup(c.bb) and ndet.SRC_RE.search(c.target_path or ""):
                pv = v.prov(c.bb)
                if pv in own:
                    continue
                covered.add(pv)
                units.append((_re.sub(r"(::\{closure#\d+\})+$", "", f.name), v, c, pv))
    for (f, c) in srcs:
        if (f.id, c.bb) in covered:
            continue
        rt = root_of(f)
        hs = sorted(hosts.get(rt.name, ())) if is_private_helper(rt) else []
        for h in (hs or [_re.sub(r"(::\{closure#\d+\})+$", "", f.name)]):
            units.append((h, f, c, (f.id, c.bb)))
    # a source that is seen inside some *other* function's view (its method was read in place there) belongs to those callers;
    # the unit of the method itself is dropped
    foreign = {}
    for (root_name, f, c, pv) in units:
        own_root = _re.sub(r"(::\{closure#\d+\})+$", "", (F.fns.get(pv[0]).name if F.fns.get(pv[0]) is not None else ""))
        if root_name != own_root:
            foreign.setdefault(pv, set()).add(root_name)
    units = [(rn, f, c, pv) for (rn, f, c, pv) in units
             if not (pv in foreign and pv not in own and rn == _re.sub(r"(::\{closure#\d+\})+$", "", (F.fns.get(pv[0]).name if F.fns.get(pv[0]) is not None else "")))]
    # ... and of several callers' views that see one source through each other (A reads B in place, B reads the helper in
    # place) the innermost one owns it: the source belongs to B
    seen_by = {}
    for (rn, f, c, pv) in units:
        seen_by.setdefault(pv, set()).add(rn)
    units = [(rn, f, c, pv) for (rn, f, c, pv) in units if not any(o != rn and o in inl_of.get(rn, ()) for o in seen_by[pv])]
    counted = set()
    for (root_name, f, c, pv) in units:
        key = "%s|%s" % (root_name, (c.target_path or "").split("::")[-2] + "::" + (c.target_path or "").split("::")[-1])
        if (key, pv) in counted:
            continue
        counted.add((key, pv))
        seen_keys[key] = seen_keys.get(key, 0) + 1
        row = nd_tbl.get(key)
        if row is None:
            R.violation("NDET", c.where(), "NDET|" + key, "nondeterminism source %s in %s is not a reviewed row of tables/ndet.json" % (c.target_path, f.name))
            continue
        sinks = ndet.forward_sinks(f, c.t["dest"]["l"])
        allowed = row.get("allowed_sinks", [])
        bad = []
        for s in sorted(sinks):
            txt = "|".join(str(x) for x in s)
            if not any(a in txt for a in allowed):
                bad.append(txt)
        if row.get("finding"):
            # a reviewed, *known* flow to an output: reported (matches known_findings.json) until the code changes
            R.violation("NDET", c.where(), "NDET|" + key, row["reason"])
            continue
        R.ob(not bad, "NDET", c.where(), "NDET|%s|flow" % key, "value of %s in %s flows to %s (allowed: %s)" % (c.target_path, f.name, bad[:4], allowed),
             sample={"rule": "NDET", "source": key[:100], "sinks": [("|".join(str(x) for x in s))[:60] for s in sorted(sinks)][:4]})
    for k, row in nd_tbl.items():
        if seen_keys.get(k, 0) > row.get("max", 1):
            R.violation("NDET", "crate", "NDET|%s|count" % k, "%d sources with key %s, %d reviewed" % (seen_keys[k], k, row.get("max", 1)))
    # ---- 3. purity
    LM = LockModel(F, CG)
    src_fns = {f.id for f, c in srcs}
    lock_fns = {s["fn"].id for s in LM.sites}
    for name in ("engine::utils::get_tx_hash", "engine::utils::get_gas_limit", "engine::utils::get_evm_address_from_pkscript", "engine::engine::generate_block_hash",
                 "engine::utils::get_inscription_byte_len", "engine::utils::get_contract_address"):
        f = F.fn_opt(name)
        if f is None:
            R.violation("PURE", "src/engine", "PURE|%s|missing" % name, "%s not found" % name)
            continue
        reach = CG.reachable_from([f.id])
        bad = sorted((reach & src_fns) | (reach & lock_fns))
        R.ob(not bad, "PURE", f.where(), "PURE|%s" % name, "%s can reach a lock/clock/env read (%s): no longer a pure function of the call" % (name, [F.fns[x].name for x in bad][:3]),
             sample={"rule": "PURE", "fn": name, "reachable_bodies": len(reach)})
    # ---- 3b. pinned derivations: values two builds of one protocol version must compute identically are, like the consensus
    # constants, part of what the version number promises.  The hash a signed transaction is known by is keccak256 of the
    # *inscribed bytes as received* (after the activation height) or the signing hash (before it) - not a hash of a re-encoding
    # of the decoded transaction, which differs for every payload the decoder accepts but would not produce itself
    import enginerules as ER2
    gi_ = ER2.engine_methods(F).get("get_info_from_raw_tx")
    frt = [f_ for f_ in F.fns.values() if f_.name.endswith("TxInfo::from_raw_transaction")]
    R.floor("signed_tx_hash_site", 1 if (gi_ is not None and frt) else 0, 1)
    if gi_ is not None and frt:
        pn_ = frt[0].j.get("param_names") or []
        for c_ in gi_.calls():
            if c_.target_id != frt[0].id or gi_.is_cleanup(c_.bb) or "tx_hash" not in pn_:
                continue
            th = origin(gi_, c_.args[pn_.index("tx_hash")])
            ks = [x for x in calls_in(th) if x[1].split("::")[-1] == "keccak256"]
            raw = [x for x in ks if x[2] and mentions(x[2][0], "raw_tx") and not any(y[1].split("::")[-1] not in ("deref", "as_slice", "as_ref", "borrow", "clone", "as_mut_slice")
                                                                                     for y in calls_in(x[2][0]))]
            sig = [x for x in ks if x[2] and mentions(x[2][0], "encoded_for_signing")] or [x for x in calls_in(th) if x[1].split("::")[-1] == "signature_hash"]
            other = [x[1].split("::")[-1] for x in calls_in(th) if x[1].split("::")[-1] in ("tx_hash", "trie_hash", "hash_slow", "encode_2718", "rlp_encode", "encoded_2718", "eip2718_encode", "rlp_encode_signed")]
            R.ob(bool(raw) and bool(sig) and not other, "DERIVE", c_.where(), "DERIVE|signed-tx-hash",
                 "the hash of a signed transaction is `%s`; the protocol pins keccak256(inscribed bytes) after the activation height and the signing hash "
                 "before it" % show(th)[:120], sample={"rule": "DERIVE", "value": "signed tx hash", "row": "keccak256(raw_tx) | signing hash, chosen by use_rlp_hash"})
    # which of the two derivations applies is decided by height: the inscribed-bytes hash from its activation height on
    import boundary
    ur = F.fn_opt("engine::hardforks::use_rlp_hash_for_tx_hash")
    R.floor("rlp_hash_selector", 1 if ur is not None else 0, 1)
    if ur is not None:
        ur = F.inlined(ur)
        hp = (ur.j.get("param_names") or ["block_number"])[0]
        for net, want_at, want_before in (("Bitcoin", {True}, {False}), ("Signet", {True}, None), ("Regtest", {True}, None)):      # None: active from height 0, nothing below it
            got_at, cmps = boundary.outcomes(F, ur, hp, net, "at")
            got_bf, _c = boundary.outcomes(F, ur, hp, net, "before")
            R.ob(got_at == want_at and (want_before is None or got_bf == want_before), "DERIVE", ur.where(), "DERIVE|signed-tx-hash|boundary:%s" % net,
                 "on %s the inscribed-bytes hash is selected %s at its activation height (must be %s) and %s at the height below (must be %s)" % (
                     net, sorted(got_at), sorted(want_at), sorted(got_bf), sorted(want_before) if want_before else "-"),
                 sample={"rule": "DERIVE (abstract execution)", "fn": "use_rlp_hash_for_tx_hash", "network": net, "at": sorted(got_at), "before": sorted(got_bf)})
    # the EVM rule set is selected by height the same way: two builds of one protocol version must switch at the same block
    gsp = F.fn_opt("engine::hardforks::get_evm_spec")
    R.floor("evm_spec_selector", 1 if gsp is not None else 0, 1)
    if gsp is not None:
        gsp = F.inlined(gsp)
        hp2 = (gsp.j.get("param_names") or ["block_number"])[0]
        for net, want_at, want_before in (("Bitcoin", {"PRAGUE"}, {"CANCUN"}), ("Signet", {"PRAGUE"}, {"CANCUN"}), ("Regtest", {"PRAGUE"}, None)):
            got_at, _c1 = boundary.outcomes(F, gsp, hp2, net, "at")
            got_bf, _c2 = boundary.outcomes(F, gsp, hp2, net, "before")
            R.ob(got_at == want_at and (want_before is None or got_bf == want_before), "DERIVE", gsp.where(), "DERIVE|evm-spec|boundary:%s" % net,
                 "on %s the rule set at the activation height is %s (pinned: %s) and at the height below it %s (pinned: %s): a replica of this build "
                 "executes one block under other rules than a reference replica of the same protocol version" % (
                     net, sorted(got_at), sorted(want_at), sorted(got_bf), sorted(want_before or [])),
                 sample={"rule": "DERIVE (abstract execution)", "fn": "get_evm_spec", "network": net, "at": sorted(got_at), "before": sorted(got_bf)})
    # ---- 4. CONST
    man = construle.manifest(F, ctx.repo)
    pinned = ctx.table(PINNED)
    pv = man.get("static global::config::PROTOCOL_VERSION")
    if pv != pinned["protocol_version"]:
        R.note("PROTOCOL_VERSION is %r, pinned manifest is for %r: constants not compared (a bumped version may change them)" % (pv, pinned["protocol_version"]))
        R.ok(1)
    else:
        def _moved(k, v):
            """a pinned integer whose *name* is gone but whose value is still a compile-time constant of the same module - as a
            renamed scalar, or as a field of a constant aggregate (`const PRAGUE: Heights = Heights { mainnet: .., signet: .. }`)"""
            if not isinstance(v, int) or isinstance(v, bool) or not k.startswith("const "):
                return False
            mod = k.split(" ", 1)[1].rsplit("::", 1)[0] + "::"
            for c_ in F.j["consts"]:
                if not c_["name"].startswith(mod) or c_.get("kind") != "const" or ("const " + c_["name"]) in pinned["constants"]:
                    continue
                if c_.get("v") == v and "v" in c_:
                    return True
                hx = (c_.get("indirect") or {}).get("hex")
                if hx and len(hx) % 16 == 0:
                    words = [int.from_bytes(bytes.fromhex(hx[i:i + 16]), "little") for i in range(0, len(hx), 16)]
                    if v in words:
                        return True
            return False
        for k, v in sorted(pinned["constants"].items()):
            R.ob(man.get(k) == v or (man.get(k) is None and _moved(k, v)), "CONST", "consensus manifest", "CONST|" + k,
                 "consensus constant %s is %r; protocol version %s pins %r — two builds reporting the same version would disagree" % (k, man.get(k), pv, v),
                 sample={"rule": "CONST", "name": k.split("::")[-1], "value": v} if k.endswith(("GAS_PER_BYTE", "PROTOCOL_VERSION", "bytecode")) else None)
        R.floor("pinned_constants", len(pinned["constants"]), 30)
    # ---- 5. sorted where required
    # (generate_block: its input is order-clean by UNORD — get_range returns key order — so an explicit sort is not required)
    ts = [f for f in F.fns.values() if f.name.startswith("engine::engine::BRC20ProgEngine::get_block_trace_string") and any((c.method or "") == "push_str" for c in f.calls())]
    for f in ts:
        srt = [c for c in f.calls() if (c.method or "").startswith("sort") and not f.is_cleanup(c.bb)]
        ps = [c for c in f.calls() if (c.method or "") == "push_str" and not f.is_cleanup(c.bb)]
        R.ob(bool(srt) and all(f.dominates(srt[0].bb, p.bb) for p in ps), "DOM-before", f.where(), "DOM-before|trace_string|sort", "block trace string is concatenated without sorting by transaction index first",
             sample={"rule": "DOM-before", "fn": "get_block_trace_string", "a": "sort_by_key(transaction_index)", "b": "push_str"})
    R.floor("trace_string_body", len(ts), 1)
    # replies depend on the call history only, not on what an abandoned block left in process memory: state that
    # survives brc20_clearCaches but not a restart makes two replicas (one of them restarted) disagree
    import enginerules as ER
    ER.clause_block_info_reset(R, F, owners=("clear_caches", "finalise_block"))
    # what a parked transaction runs with is a function of the call that carried it, not of the call that happens to unlock it
    ER.clause_drain_own_data(R, F)
    return R
