"""C08 — signed transactions execute once, in nonce order, via a bounded pending pool."""
from guards import edge_forms
from report import Report
import enginerules as ER
from tablerules import db_fn, error_blocks, _leads_to_error_only, must_pass_on_success
from terms import origin, show, calls_in, mentions, control_deps, bool_edge


def run(ctx):
    R = Report("C08", ctx.tier, "other", "GUARD normal forms of the pool windows; path counting on the drain loop; WIRE slices of drained transactions")
    F = ctx.facts()
    CG = ctx.cg()
    R.explanation = (
        "Window guards as linear normal forms: park iff 0 < nonce - account < 10; a drained entry executes iff "
        "parked_block + 10 > block, clear_txpool expires iff parked_block + 10 <= block — exact complements over the same "
        "linear form, each from the single constants MAX_FUTURE_TRANSACTION_NONCES / _BLOCKS; ignore paths return without a "
        "write; counting on the drain loop (#executed == #index increments == #receipts, nonce cursor +1, entry removed on "
        "every path); the chain-id filter dominates signature recovery and every write; a drained transaction runs with its own "
        "stored fields and its own stored op_return tx id; finalise_block always clears the pool. The global nonce-sequence "
        "invariant over arrival orders is NOT decided.")
    R.trusted = ["rustc resolution/MIR (A1)"]
    em = ER.engine_methods(F)
    fn = em["add_raw_tx_to_block"]

    def role(a):
        if mentions(a, "get_pending_tx") and mentions(a, ".block_number"):
            return "parked"
        if mentions(a, "get_pending_tx"):
            return None
        if mentions(a, "get_info_from_raw_tx") and mentions(a, ".nonce"):
            return "nonce"        # (tested first: `tx.nonce.filter(|n| *n != account_nonce)` mentions the account nonce in its closure)
        if mentions(a, "get_account_nonce"):
            return "acct"
        if a[0] == "param" and a[2] == "block_number" or (a[0] == "param" and a[1] == 5):
            return "block"
        return None
    rows = []
    for (b, s, fm, line) in edge_forms(fn):
        r, k, rel, bad = fm.roles(role)
        if bad:
            continue
        rows.append((b, s, r, k, rel, fm, line))
    # park window: the write (set_pending_tx) is control dependent on nonce - acct >= 1 and nonce - acct <= 9
    park = [c for c in fn.calls() if (c.method or "") == "write_fn" and not fn.is_cleanup(c.bb) and any(
        (x.method or "") == "set_pending_tx" for t in CG.site_targets(c) for x in F.fns[t].calls())]
    R.ob(len(park) == 1, "ANCHOR", fn.where(), "ANCHOR|park-site", "expected one park site, found %d" % len(park))
    if park:
        cd = control_deps(fn)
        deps = set()
        st = [park[0].bb]
        seen = set()
        while st:
            x = st.pop()
            if x in seen:
                continue
            seen.add(x)
            for (a, s) in cd.get(x, set()):
                deps.add((a, s))
                st.append(a)
        # a decision carried by a value: `match NonceDisposition::of(nonce, acct) { Park(n) => park, .. }` - the park site depends
        # on the discriminant of a local; a comparison edge counts as a dependency when the selected variant can be built past
        # that edge and cannot be built past its sibling
        from terms import variant_chains
        for (a, s_) in list(deps):
            t_ = fn.term(a)
            if t_["k"] != "switch" or "l" not in t_["discr"]:
                continue
            dd = [d_ for d_ in fn.defs().get(t_["discr"]["l"], []) if d_[2] == "assign" and d_[3]["rv"]["k"] == "discr"]
            if len(dd) != 1 or dd[0][3]["rv"]["place"].get("p"):
                continue
            D = dd[0][3]["rv"]["place"]["l"]
            names = {v_["val"]: v_["name"] for v_ in dd[0][3]["rv"].get("variants", [])}
            vals = [v for (v, tb) in t_.get("targets", []) if tb == s_]
            if len(vals) != 1 or vals[0] not in names:
                continue
            V = names[vals[0]]
            for (b, s2, r, k, rel, fm, line) in rows:
                sib = [x for x in fn.succ(b) if x != s2]
                if not sib:
                    continue
                here = {c_[0] for c_ in variant_chains(fn, s2, target_local=D, at=a)}
                there = {c_[0] for c_ in variant_chains(fn, sib[0], target_local=D, at=a)}
                if V in here and V not in there and "?" not in there:
                    deps.add((b, s2))
        have = set()
        consts = set()
        for (b, s, r, k, rel, fm, line) in rows:
            if (b, s) in deps and set(r) == {"acct", "nonce"}:
                have.add((tuple(sorted(r.items())), k, rel))
                consts |= fm.lin.consts
        lower = ((("acct", 1), ("nonce", -1)), 1, "<=") in have          # acct - nonce + 1 <= 0  <=> nonce > acct
        upper = ((("acct", -1), ("nonce", 1)), -9, "<=") in have         # nonce - acct - 9 <= 0  <=> nonce < acct + 10
        R.ob(lower, "GUARD", park[0].where(), "GUARD|park|lower", "parking is not conditional on `nonce > account nonce` (deps: %s)" % sorted(have),
             sample={"rule": "GUARD", "site": "park", "row": "acct - nonce + 1 <= 0"})
        R.ob(upper and any("MAX_FUTURE_TRANSACTION_NONCES" in c for c in consts), "GUARD", park[0].where(), "GUARD|park|upper",
             "parking window is not `nonce < account nonce + MAX_FUTURE_TRANSACTION_NONCES(=10)` (deps: %s)" % sorted(have),
             sample={"rule": "GUARD", "site": "park", "row": "nonce - acct - 9 <= 0"})
    # ignore path: nonce != acct and not parked => Ok(vec![]) with no write after
    # drain guard and expiry guard are complements
    drain = None
    for (b, s, r, k, rel, fm, line) in rows:
        if set(r) == {"parked", "block"} and rel == "<=":
            # the edge that reaches the in-loop add_tx_to_block
            dl = ER.drain_loop(F)
            if dl and any(c.bb in fn.reachable(s, avoid={dl[1]}) for c in dl[3]) and r == {"parked": -1, "block": 1}:
                drain = (r, k, fm)
    R.ob(drain is not None and drain[1] == -9 and any("MAX_FUTURE_TRANSACTION_BLOCKS" in c for c in drain[2].lin.consts), "GUARD", fn.where(),
         "GUARD|drain|window", "a parked transaction executes iff `%s`; expected `block - parked - 9 <= 0` (parked + 10 > block) from MAX_FUTURE_TRANSACTION_BLOCKS" % (
             drain[2].text(role) if drain else "absent"), sample={"rule": "GUARD", "site": "drain", "row": drain[2].text(role) if drain else None})
    ct = db_fn(F, "clear_txpool")

    def role2(a):
        if mentions(a, ".block_number"):
            return "parked"
        if a[0] == "param" and a[1] == 2:
            return "block"
        return None
    expiry = None
    rm = [c for c in ct.calls() if (c.method or "") == "remove_pending_tx" and not ct.is_cleanup(c.bb)]
    for (b, s, fm, line) in edge_forms(ct):
        r, k, rel, bad = fm.roles(role2)
        if not bad and set(r) == {"parked", "block"} and rel == "<=" and any(c.bb in ct.reachable(s) and not ct.dominates(c.bb, b) for c in rm):
            if r == {"parked": 1, "block": -1}:
                expiry = (r, k, fm)
        # the same test read off its complement: when the predicate is `match arrival { Some(n) => n + W <= block, None => true }`
        # the "expired" edge is a disjunction and has no single linear form, but the "keep" edge has: `block - parked - (W-1) <= 0`
        # must be exactly the edge that cannot reach the removal within the iteration, its sibling the one that does
        if expiry is None and not bad and r == {"parked": -1, "block": 1} and rel == "<=" and rm \
                and all(c.bb not in ct.reachable(s, avoid={b}) for c in rm) \
                and any(c.bb in ct.reachable(s2, avoid={b}) for c in rm for s2 in ct.succ(b) if s2 != s):
            neg = fm.negate()
            if neg is not None:
                r2, k2, rel2, bad2 = neg.roles(role2)
                if not bad2 and r2 == {"parked": 1, "block": -1} and rel2 == "<=":
                    expiry = (r2, k2, neg)
    if expiry is None:
        # the sweep as an iterator chain: `pending.into_iter().filter(|(_, tx)| tx.block_number.map_or(true, |n| n + W <= block))
        # .try_for_each(|(key, _)| self.remove_pending_tx(..))` - removed <=> the filter predicate, whose Some-arm is the window test
        from guards import return_form
        from terms import closures_in_term
        for A in ct.calls():
            if ct.is_cleanup(A.bb) or (A.method or "") not in ("try_for_each", "for_each"):
                continue
            body_cl = [F.fns.get(x) for x in ((A.func or {}).get("arg_cl") or [])]
            if not any(g_ is not None and any((x.method or "") == "remove_pending_tx" for x in g_.calls()) for g_ in body_cl):
                continue
            recv = origin(ct, A.args[0])
            fl = [x for x in calls_in(recv) if x[1].split("::")[-1] == "filter"]
            if len(fl) != 1 or any(x[1].split("::")[-1] in ("map", "filter_map", "skip", "take", "rev", "step_by", "skip_while", "take_while") for x in calls_in(recv)):
                continue
            for cid in closures_in_term(fl[0][2][1]) if len(fl[0][2]) > 1 else []:
                g1 = F.fns.get(cid)
                if g1 is None:
                    continue
                for m_ in g1.calls():
                    if g1.is_cleanup(m_.bb) or (m_.method or "") != "map_or" or len(m_.args) < 3:
                        continue
                    if not mentions(origin(g1, m_.args[0]), ".block_number"):
                        continue
                    dflt = origin(g1, m_.args[1])
                    if not (dflt[0] == "const" and dflt[1] is True):
                        continue
                    for cid2 in ((m_.func or {}).get("arg_cl") or []):
                        g2 = F.fns.get(cid2)
                        if g2 is None:
                            continue
                        def role_cl(a):
                            sa = show(a)
                            if "param" in sa:
                                return "parked"
                            if "upvar" in sa:
                                return "block"
                            return None
                        for fm2, line2 in return_form(g2):
                            r2, k2, rel2, bad2 = fm2.roles(role_cl)
                            if not bad2 and r2 == {"parked": 1, "block": -1} and rel2 == "<=":
                                expiry = (r2, k2, fm2)
                                role2 = role_cl
    R.ob(expiry is not None and expiry[1] == 10 and any("MAX_FUTURE_TRANSACTION_BLOCKS" in c for c in expiry[2].lin.consts), "GUARD", ct.where(),
         "GUARD|expiry|window", "a parked transaction expires iff `%s`; expected `parked - block + 10 <= 0`" % (expiry[2].text(role2) if expiry else "absent"),
         sample={"rule": "GUARD", "site": "clear_txpool", "row": expiry[2].text(role2) if expiry else None})
    # "otherwise it is dropped": the sweep looks at *every* pool entry - the pool is ordered by (sender, nonce), not by age, so
    # stopping at the first entry that is still inside its window leaves older entries behind it.  A hand-written loop that
    # holds the removal leaves only when its iterator is exhausted or an error is propagated
    import looprule as _LR
    n_sweep = 0
    eb_ct = set(error_blocks(ct))
    for (h_, body_, _bk) in _LR.natural_loops(ct):
        if not any(c.bb in body_ for c in rm):
            continue
        inner = [b2 for (h2, b2, _k2) in _LR.natural_loops(ct) if h2 != h_ and h2 in body_]
        n_sweep += 1
        for b_ in sorted(body_):
            if ct.is_cleanup(b_):
                continue
            for sx in ct.succ(b_):
                if sx in body_ or ct.is_cleanup(sx):
                    continue
                t_ = ct.term(b_)
                exhausted = False
                if t_["k"] == "switch":
                    dd = origin(ct, t_["discr"])
                    exhausted = dd[0] == "discr" and any(x[1].split("::")[-1] in ("next", "next_back") for x in calls_in(dd))
                is_err = sx in eb_ct or _leads_to_error_only(ct, sx)
                R.ob(exhausted or is_err, "LOOP", "%s:%s" % (ct.loc["f"], (t_.get("loc") or {}).get("l")), "LOOP|clear_txpool|sweep-complete",
                     "the expiry sweep can leave its loop before the pool is exhausted (an exit that is neither the end of the iteration nor a "
                     "propagated error): entries after that point are never examined", sample={"rule": "LOOP exits", "fn": "clear_txpool", "exit": "iterator exhausted" if exhausted else "error"})
    R.counts["expiry_sweep_loops"] = n_sweep
    if drain and expiry:
        # complement: not(parked - block + 10 <= 0)  ==  block - parked - 10 + 1 <= 0
        R.ob(drain[1] == -(expiry[1]) + 1, "GUARD", fn.where(), "GUARD|drain-expiry|complement",
             "drain window (k=%d) and expiry window (k=%d) are not exact complements: an entry can be both skipped by the drain and kept by "
             "the expiry, or neither" % (drain[1], expiry[1]), sample={"rule": "GUARD pair", "relation": "complement", "drain_k": drain[1], "expiry_k": expiry[1]})
    # entries without a block number are expired
    # counting
    ER.clause_drain_pairing(R, F)
    # chain id filter dominates recovery
    gi = em["get_info_from_raw_tx"]
    rec = [c for c in gi.calls() if (c.method or "") == "recover_address_from_prehash" and not gi.is_cleanup(c.bb)]
    chain = None
    for b in range(len(gi.blocks)):
        t = gi.term(b)
        if t["k"] == "switch":
            d = origin(gi, t["discr"])
            if mentions(d, "chain_id") and (mentions(d, "ne") or mentions(d, "eq")):
                chain = b
    R.ob(chain is not None and bool(rec) and all(gi.sdominates(chain, c.bb) for c in rec), "DOM-before", gi.where(), "DOM-before|chain-id<recover",
         "the chain-id filter does not dominate signature recovery", sample={"rule": "DOM-before", "a": "chain id check", "b": "recover_address_from_prehash"})
    if chain is not None:
        d = origin(gi, gi.term(chain)["discr"])
        R.ob(mentions(d, "CONFIG") or mentions(d, "config"), "WIRE", gi.where(), "WIRE|chain-id|config", "chain id is not compared with the configured one")
    dec = [c for c in gi.calls() if (c.method or "") == "rlp_decode_with_signature" and not gi.is_cleanup(c.bb)]
    R.ob(bool(dec) and ER.err_propagated(gi, dec[0]), "ERR-prop", gi.where(), "ERR-prop|rlp-decode", "an undecodable transaction is not refused with Err")
    gcall = [c for c in fn.calls() if (c.method or "") == "get_info_from_raw_tx" and not fn.is_cleanup(c.bb)]
    wr = [c for c in fn.calls() if (c.method or "") in ("write_fn", "add_tx_to_block") and not fn.is_cleanup(c.bb)]
    R.ob(bool(gcall) and all(fn.sdominates(gcall[0].bb, w.bb) for w in wr) and ER.err_propagated(fn, gcall[0]), "DOM-before", fn.where(),
         "DOM-before|decode<write", "decoding/filtering does not dominate every write in add_raw_tx_to_block")
    # WIRE: drained transaction runs with its own stored fields
    dl = ER.drain_loop(F)
    if dl:
        c = dl[3][0]
        ti = origin(fn, c.args[2])
        for fld in ("from", "to", "input", "nonce", "hash", ".r", ".s"):
            R.ob(mentions(ti, fld) and mentions(ti, "get_pending_tx"), "WIRE", c.where(), "WIRE|drain|%s" % fld.strip("."),
                 "the drained transaction is not executed with its own stored `%s`" % fld.strip("."), sample=None)
        R.ok(1, sample={"rule": "WIRE", "site": "drain", "tx_info": show(ti)[:200]})
        opr = origin(fn, c.args[8])
        R.ob(mentions(opr, "get_pending_tx_op_return_tx_id") and not (opr[0] == "param"), "WIRE", c.where(), "WIRE|drain|op_return",
             "a drained transaction sees `%s` as current op_return tx id, not the one stored with it" % show(opr)[:100],
             sample={"rule": "WIRE", "site": "drain", "op_return": show(opr)[:120]})
        oid = [x for x in fn.calls() if (x.method or "") == "get_pending_tx_op_return_tx_id" and x.bb in dl[2]]
        for x in oid:
            a = origin(fn, x.args[1])
            R.ob(mentions(a, "get_pending_tx") and mentions(a, ".hash"), "WIRE", x.where(), "WIRE|drain|op_return-key",
                 "stored op_return tx id is looked up by `%s`, not by the pending transaction's own hash" % show(a)[:80])
        gl = origin(fn, c.args[7])
        R.ob(mentions(gl, "get_inscription_byte_len") and mentions(gl, ".gas"), "WIRE", c.where(), "WIRE|drain|byte-len",
             "drained transaction's gas allowance is not derived from its stored gas")
        for i, nm in ((1, "timestamp"), (4, "block_number"), (5, "block_hash")):
            a = origin(fn, c.args[i])
            R.ob(mentions(a, nm), "WIRE", c.where(), "WIRE|drain|%s" % nm, "drained transaction executes with %s = `%s`" % (nm, show(a)[:60]))
    ER.clause_drain_own_data(R, F)
    ER.clause_park_rows_together(R, F)
    # finalise always clears the pool
    fin = ER.operation_bodies_calling(F, "finalise_block", "clear_txpool")
    R.ob(bool(fin) and all(must_pass_on_success(g, [c.bb for c in g.calls() if (c.method or "") == "clear_txpool"]) for g in fin), "DOM-all",
         "engine", "DOM-all|finalise|clear_txpool", "finalise_block does not always clear expired pool entries",
         sample={"rule": "DOM-all", "fn": "finalise_block", "step": "clear_txpool"})
    # the pending pool's two tables follow the chain (reorg / clear_caches / commit visit both)
    import tablerules as T
    pool_tables = T.fields_touched(F, ["get_pending_tx", "get_all_pending_txes", "get_all_pending_txes_from", "get_pending_tx_op_return_tx_id"])
    R.floor("pool_tables", len(pool_tables), 2)
    for dm in ("reorg", "clear_caches", "commit_changes"):
        T.clause_tables(R, F, dm, only_fields=pool_tables)
    # what the pool shows is what waits: the pool is read through latest / get_range / all of the versioned table; an entry
    # removed since the last commit must not reappear from the persisted rows (txpool_content, clear_txpool's expiry scan)
    T.clause_read_merge(R, F, scans=("get_range", "all"))
    return R
