"""C14 — the storage encoding is lossless, self-delimiting and order-preserving.

Structural induction over the Encode/Decode pairs: a concatenation of
self-delimiting, round-tripping components decoded in the same order, each
value bound to the field it was written from, with every decode consuming the
offset returned by the previous one, round-trips and is self-delimiting."""
import re

from codec import (codec_impls, encode_seq, decode_seq, decode_field_map, returned_offset_count, count_decodes, ENC_TRAIT, DEC_TRAIT)
from guards import edge_forms
from report import Report
from terms import origin, show, mentions, calls_in
import roles

COMPOSITE_MIN_FIELDS = 2
FLOOR_PAIRS = 21


def flatten(ci, seq, depth=0):
    """inline components whose type only has a forwarding encoder (&str, &T): what is written is what that encoder writes"""
    out = []
    for x in seq:
        ty = x["ty"]
        if depth < 3 and ty in ci and "dec" not in ci[ty] and ty.startswith("&") and ty != "&T":
            out += flatten(ci, encode_seq(ci[ty]["enc"], raw=True), depth + 1)
        else:
            out.append(x)
    return out


def norm_ty(t):
    return re.sub(r"\s+", "", t or "")


def split_top(s):
    """split a type list at top-level commas"""
    out, depth, cur = [], 0, ""
    for ch in s:
        if ch in "<([":
            depth += 1
        elif ch in ">)]":
            depth -= 1
        if ch == "," and depth == 0:
            out.append(cur)
            cur = ""
        else:
            cur += ch
    if cur:
        out.append(cur)
    return out


def canon_types(ts):
    """canonical component list: `Vec<X>` is a u32 count followed by X elements; an element written by a generic helper
    (its type is the helper's type parameter) matches any element type"""
    out = []
    for t in ts:
        m = re.match(r"^(?:std::vec::)?Vec<(.+)>$", t)
        if t.startswith("(") and t.endswith(")") and len(split_top(t[1:-1])) > 1:
            # a tuple is its components in order (the tuple impls write / read `.0` then `.1` ...; checked as their own pair)
            out += canon_types([x.lstrip("&") for x in split_top(t[1:-1])])
        elif m:
            out += ["u32", m.group(1) + "*"]
        elif out and out[-1] == "u32" and (re.match(r"^&?[A-Z][A-Za-z0-9]*$", t) or "::Item" in t):
            out.append("ANY*")
        else:
            out.append(t)
    return out


def _plain_decoded(t):
    """the term is a decoded value reached through conversions only (casts, references, `?`, into / from / try_into, tuple
    projections): no arithmetic, no min / max / saturating adjustment"""
    k = t[0]
    if k in ("cast", "ref", "deref", "field"):
        return _plain_decoded(t[1])
    if k == "call":
        m = t[1].split("::")[-1]
        if t[1].endswith("Decode::decode") or t[1].endswith("Decode>::decode"):
            return True
        if m in ("branch", "into", "from", "try_into", "try_from", "unwrap", "expect", "clone", "deref") and t[2]:
            return _plain_decoded(t[2][0])
        return False
    return False


def same_components(a, b):
    a, b = canon_types(a), canon_types(b)
    if len(a) != len(b):
        return False
    for i, (x, y) in enumerate(zip(a, b)):
        if x == y:
            continue
        # the repeated element of a length-prefixed sequence: `Vec<X>` reads as u32, X*; a generic helper instantiated at X
        # writes u32, X
        if i > 0 and a[i - 1] == "u32" and b[i - 1] == "u32" and x.rstrip("*") == y.rstrip("*"):
            continue
        if x == "ANY*" and y.endswith("*") or y == "ANY*" and x.endswith("*"):
            continue
        return False
    return True


def run(ctx):
    R = Report("C14", ctx.tier, "proof", "structural induction over Encode/Decode impl pairs on MIR (field/type/order/offset-chain agreement)")
    F = ctx.facts()
    R.explanation = (
        "For every type with both an Encode and a Decode impl: the ordered list of component encode calls (type, source field) "
        "equals the ordered list of component decode calls (type), each decoded value flows to the field of the same name in the "
        "constructed value (struct literal, or constructor whose parameter flows to that field), placeholder components bind to "
        "nothing, every decode call takes the offset returned by the previous one (k-th call depends on exactly k-1 earlier "
        "calls) and the returned offset depends on all of them; base cases are pairing rows (big-endian fixed-width integers of "
        "the same width both ways, u32 length prefix driving the read loop, Option tag 1 <=> payload, limbs most significant "
        "first); key types of range-scanned tables are built only from fixed-width big-endian components. Value-level round "
        "trip of leaf codecs is NOT decided beyond these rows.")
    R.trusted = ["rustc resolution/type inference of each Decode::decode call's Self type (A1)", "base-case pairing rows"]
    ci = codec_impls(F)
    pairs = {t: d for t, d in ci.items() if "enc" in d and "dec" in d}
    R.floor("codec_pairs", len(pairs), FLOOR_PAIRS)
    enc_only = sorted(t for t, d in ci.items() if "dec" not in d)
    dec_only = sorted(t for t, d in ci.items() if "enc" not in d)
    R.ob(not dec_only, "CODEC", "src/db/types", "CODEC|decode-only|%s" % ",".join(dec_only), "types with Decode but no Encode: %s" % dec_only)
    # reference forwarding impls (&T, &str) must write what the owned type writes: &str like String
    for t in enc_only:
        if t == "&str" and "std::string::String" in pairs:
            a = [norm_ty(x["ty"]) for x in encode_seq(ci[t]["enc"], raw=True)]
            b = [norm_ty(x["ty"]) for x in decode_seq(pairs["std::string::String"]["dec"])]
            # String's encoder may forward to &str: resolve one level
            R.ob(same_components(a, b), "CODEC", ci[t]["enc"].where(), "CODEC|&str|component-types",
                 "&str is written as %s but String is read as %s" % ([x.split("::")[-1] for x in a], [x.split("::")[-1] for x in b]),
                 sample={"rule": "CODEC", "type": "&str", "components": a})
        R.ob(t.startswith("&"), "CODEC", "src/db/types", "CODEC|encode-only|%s" % t, "type %s has Encode but no Decode (only reference forwarding impls may)" % t)
    n_fields = 0
    for ty, d in sorted(pairs.items()):
        e, dd = flatten(ci, encode_seq(d["enc"], raw=True)), decode_seq(d["dec"])
        short = ty.split("::")[-1]
        et = [norm_ty(x["ty"]) for x in e]
        dt = [norm_ty(x["ty"]) for x in dd]
        # --- sequence of component types
        if ty.split("<")[0].endswith("FixedBytesED"):
            # reviewed base row: writes the N raw bytes (extend_from_slice(self.bytes)), reads [u8; N] = N raw bytes
            ok = [x for x in et if x != "bytes*"] == [] and len(dt) == 1 and dt[0].startswith("[u8;") and any((c.method or "") == "extend_from_slice" and
                 mentions(origin(d["enc"], c.args[1]), "bytes") for c in d["enc"].calls())
            R.ob(ok, "CODEC", d["enc"].where(), "CODEC|%s|raw-bytes" % short, "FixedBytesED no longer writes its N bytes raw / reads [u8; N]",
                 sample={"rule": "CODEC base", "type": short, "row": "N raw bytes <-> [u8; N]"})
            continue
        if ty == "std::option::Option<T>":
            et = ["u8"] + et if any((c.method or "") == "push" for c in d["enc"].calls()) else et   # the tag byte is pushed directly
        R.ob(et == dt or same_components(et, dt), "CODEC", d["dec"].where(), "CODEC|%s|component-types" % short,
             "%s: components written %s but read %s" % (short, [x.split("::")[-1] for x in et], [x.split("::")[-1] for x in dt]),
             sample={"rule": "CODEC", "type": short, "components": len(et)})
        # --- offset chain
        for i, x in enumerate(dd):
            k = count_decodes(x["term"])
            # inside loops the chain count is not positional; only straight-line bodies are checked positionally
            if _straight(d["dec"]):
                R.ob(k == i + 1, "CODEC", x["call"].where(), "CODEC|%s|offset-chain:%d" % (short, i + 1),
                     "%s: the %d-th decode does not take the offset returned by the %d-th (it depends on %d earlier decodes): a stale "
                     "offset re-reads or skips bytes" % (short, i + 1, i, k - 1))
        if _straight(d["dec"]) and dd and ty != "std::option::Option<T>":
            ro = returned_offset_count(d["dec"])
            R.ob(ro == len(dd) or (ro == "forwarded" and len(dd) == 1), "CODEC", d["dec"].where(), "CODEC|%s|returned-offset" % short,
                 "%s: the returned offset depends on %s of %d decodes (not self-delimiting)" % (short, ro, len(dd)),
                 sample={"rule": "CODEC offset", "type": short, "decodes": len(dd)})
            if len(dd) >= COMPOSITE_MIN_FIELDS and all(x["ty"] not in ("u8", "u32") for x in dd):
                from codec import returned_offset_is_computed
                R.ob(not returned_offset_is_computed(d["dec"]), "CODEC", d["dec"].where(), "CODEC|%s|returned-offset-exact" % short,
                     "%s: the returned offset is computed from, not equal to, the offset the last component decode returned" % short)
        # --- a count prefix drives its read loop unchanged: every `0..n` range whose bound comes from a decoded value uses exactly that
        # value (conversions only) - `n.min(k)`, `n - 1`, `n / 2` read fewer (or more) elements than were written
        for b_ in d["dec"].blocks:
            if b_.get("cleanup"):
                continue
            for s_ in b_["stmts"]:
                if s_["k"] == "assign" and s_["rv"]["k"] == "agg" and (s_["rv"].get("adt") or "").endswith("Range") and len(s_["rv"]["ops"]) == 2:
                    from terms import rvalue_origin as _rvo
                    t_ = _rvo(d["dec"], s_["rv"], 0, frozenset(), 60)
                    up = t_[2][1]
                    if count_decodes(up) >= 1:
                        R.ob(_plain_decoded(up) and t_[2][0][0] == "const" and t_[2][0][1] == 0, "CODEC", d["dec"].where(), "CODEC|%s|loop-count" % short,
                             "%s: the read loop does not run over `0..<the decoded count>` (bound is `%s`): it reads a different number of elements than the "
                             "writer wrote" % (short, show(up)[:100]), sample={"rule": "CODEC", "type": short, "row": "read loop 0..count"})
        # --- field agreement (composite types)
        fmap, how = decode_field_map(F, d["dec"], ty)
        if fmap is not None and len(e) >= 1 and any(x["field"] for x in e) and _straight(d["dec"]) or (fmap and short == "RawBlock"):
            for i, x in enumerate(e):
                fld = x["field"]
                if fld is None:
                    # placeholder / derived source: its decoded value must not be bound to a field written elsewhere
                    if short == "RawBlock":
                        want = {0: "block", 1: "receipts"}[i]
                        R.ob(fmap.get(want) == i + 1 and mentions(origin(d["enc"], x["call"].args[0]), "raw_" + ("block" if i == 0 else "receipts")),
                             "CODEC", d["dec"].where(), "CODEC|RawBlock|%s" % want, "RawBlock.%s is not rebuilt from component %d" % (want, i + 1),
                             sample={"rule": "CODEC field", "type": short, "field": want, "component": i + 1})
                        n_fields += 1
                        continue
                    bound = [f for f, k in fmap.items() if k == i + 1]
                    R.ob(not bound, "CODEC", d["dec"].where(), "CODEC|%s|placeholder:%d" % (short, i + 1),
                         "%s: component %d is written from `%s` (not a field) but its decoded value is stored in %s" % (short, i + 1, x["src"], bound))
                    n_fields += 1
                    continue
                if fld in ("0", "1") or fld.startswith("s "):
                    continue
                n_fields += 1
                got = fmap.get(fld)
                legacy = got == 0 or got is None
                if legacy:
                    # a field that is written but reconstructed on read (legacy placeholder): allowed only if nothing else takes its slot
                    bound = [f for f, k in fmap.items() if k == i + 1]
                    R.ob(not bound, "CODEC", d["dec"].where(), "CODEC|%s|field:%s" % (short, fld),
                         "%s: component %d written from field `%s` is read back into %s" % (short, i + 1, fld, bound),
                         sample={"rule": "CODEC field", "type": short, "field": fld, "read": "ignored (legacy), field reconstructed"})
                else:
                    R.ob(got == i + 1, "CODEC", d["dec"].where(), "CODEC|%s|field:%s" % (short, fld),
                         "%s: field `%s` is written as component %d but read from component %s: two same-typed fields are swapped on one "
                         "side" % (short, fld, i + 1, got), sample={"rule": "CODEC field", "type": short, "field": fld, "component": i + 1})
            # fields neither written nor read: reconstructed; list
            rec = sorted(f for f, k in (fmap or {}).items() if k == 0 and f not in [x["field"] for x in e])
            if rec:
                R.samples.append({"rule": "CODEC reconstructed", "type": short, "fields": rec})
    R.floor("codec_field_obligations", n_fields, 70)
    _base_cases(R, F, pairs)
    _key_order(R, F, pairs)
    _serde_symmetry(R, F, ctx)
    _loop_scratch_buffers(R, F)
    return R


def _loop_scratch_buffers(R, F):
    """An RLP / codec `encode(&mut buf)` *appends* to its buffer (trusted: alloy_rlp::Encodable, the repo's own Encode).  Inside a
    loop that produces one encoding per element, the buffer handed to it must be new for every element: created inside the loop
    body, or cleared there before the call.  A buffer hoisted out of the loop makes element i carry elements 0..i - and a
    lenient decoder (first RLP item, rest ignored) hides it: everything decodes as element 0."""
    import looprule as LR

    def place_root(f, op):
        """the local a `&mut buf` argument points into: through copies, reborrows and the unsizing cast to `&mut dyn BufMut`"""
        seen = set()
        while isinstance(op, dict) and "l" in op and op["l"] not in seen:
            seen.add(op["l"])
            ds = [d for d in f.defs().get(op["l"], []) if not f.is_cleanup(d[0]) and d[2] in ("assign", "call")]
            if len(ds) != 1 or ds[0][2] != "assign":
                break
            rv = ds[0][3]["rv"]
            if rv["k"] in ("use", "cast") and rv.get("ops") and "l" in rv["ops"][0]:
                op = {"l": rv["ops"][0]["l"]}
            elif rv["k"] == "ref" and rv.get("place") is not None:
                op = {"l": rv["place"]["l"]}
            else:
                break
        return (op.get("l") if isinstance(op, dict) else None), []
    n = 0
    for f in list(F.body_fns()):
        if not (f.name.startswith("db::types::") or f.name.startswith("api::types::")) or "::tests::" in f.name:
            continue
        loops = LR.natural_loops(f)
        if not loops:
            continue
        for c in f.calls():
            if f.is_cleanup(c.bb) or (c.method or "") not in ("encode", "encode_2718", "rlp_encode", "encode_fields", "encode_with_envelope"):
                continue
            inner = [(h, bd) for (h, bd, _bk) in loops if c.bb in bd]
            if not inner:
                continue
            h, body = min(inner, key=lambda x: len(x[1]))
            for a in c.args[1:]:
                if "l" not in a:
                    continue
                ty = f.local_ty(a["l"])
                if not (ty.startswith("&mut") and ("Vec<u8>" in ty or "BufMut" in ty or "BytesMut" in ty)):
                    continue
                root, _pr = place_root(f, a)
                if root is None:
                    continue
                ds = [d for d in f.defs().get(root, []) if not f.is_cleanup(d[0]) and d[2] in ("assign", "call")]
                if not ds or (1 <= root <= f.argc):
                    continue          # the caller's buffer: appending is the contract of this function
                n += 1
                fresh = all(d[0] in body for d in ds)
                cleared = any((x.method or "") in ("clear",) and x.bb in body and not f.is_cleanup(x.bb) and x.args and place_root(f, x.args[0])[0] == root
                              and f.dominates(x.bb, c.bb) for x in f.calls())
                R.ob(fresh or cleared, "CODEC", c.where(), "CODEC|%s|loop-scratch-buffer" % f.name.split("::{closure")[0].split("::", 2)[-1],
                     "the buffer `%s` that %s appends to is created outside the loop and not cleared in it: the encoding of element i "
                     "carries the encodings of all elements before it" % (f.local_name(root) or "_%d" % root, c.method),
                     sample={"rule": "CODEC loop scratch buffer", "fn": f.name[-50:], "buffer": f.local_name(root) or "_%d" % root, "fresh_per_element": fresh, "cleared": cleared})
    R.counts["loop_scratch_buffers"] = n


def _straight(fn):
    """no loops (no back edges)"""
    dom = fn.dominators()
    for b in dom:
        for s in fn.succ(b):
            if s in dom[b]:
                return False
    return True


def _base_cases(R, F, pairs):
    # integers: to_be_bytes <-> from_be_bytes on the same type
    for ty in ("u32", "u64"):
        d = pairs.get(ty)
        if not d:
            R.violation("CODEC", "encode_decode.rs", "CODEC|%s|missing" % ty, "no codec pair for %s" % ty)
            continue
        enc = [c for c in d["enc"].calls() if (c.method or (c.target_path or "").split("::")[-1]) == "to_be_bytes"]
        dec = [c for c in d["dec"].calls() if (c.method or (c.target_path or "").split("::")[-1]) == "from_be_bytes"]
        dec = dec or [c for g in F.descendants(d["dec"].id) for c in g.calls() if (c.method or (c.target_path or "").split("::")[-1]) == "from_be_bytes"]
        ok = bool(enc) and bool(dec) and ("impl %s>::to_be_bytes" % ty) in enc[0].target_path and ("impl %s>::from_be_bytes" % ty) in dec[0].target_path
        R.ob(ok, "CODEC", d["enc"].where(), "CODEC|%s|big-endian" % ty, "%s is not written with to_be_bytes and read with from_be_bytes of the same width" % ty,
             sample={"rule": "CODEC base", "type": ty, "row": "to_be_bytes <-> from_be_bytes"})
    # Vec<T>: u32 length prefix drives the read loop
    d = pairs.get("std::vec::Vec<T>")
    if d:
        e, dd = encode_seq(d["enc"]), decode_seq(d["dec"])
        R.ob(e and e[0]["ty"] == "u32" and mentions(origin(d["enc"], e[0]["call"].args[0]), "len"), "CODEC", d["enc"].where(), "CODEC|Vec|length-prefix",
             "Vec is not written with a u32 length prefix", sample={"rule": "CODEC base", "type": "Vec<T>", "row": "u32 len prefix"})
        rng = False
        for b in d["dec"].blocks:
            for s in b["stmts"]:
                if s["k"] == "assign" and s["rv"]["k"] == "agg" and (s["rv"].get("adt") or "").endswith("Range"):
                    from terms import rvalue_origin
                    t = rvalue_origin(d["dec"], s["rv"], 0, frozenset(), 60)
                    if t[2][0][0] == "const" and t[2][0][1] == 0 and count_decodes(t[2][1]) == 1:
                        rng = True
        R.ob(rng, "CODEC", d["dec"].where(), "CODEC|Vec|loop-count", "Vec's read loop is not `0..<decoded length>`",
             sample={"rule": "CODEC base", "type": "Vec<T>", "row": "read loop 0..len"})
    # Option<T>: tag 1 <=> payload
    d = pairs.get("std::option::Option<T>")
    if d:
        consts = set()
        for c in d["enc"].calls():
            if (c.method or "") == "push" and not d["enc"].is_cleanup(c.bb):
                t = origin(d["enc"], c.args[1])
                if t[0] == "const":
                    consts.add(t[1])
        R.ob(consts == {0, 1}, "CODEC", d["enc"].where(), "CODEC|Option|tags", "Option tags written are %s; expected {0, 1}" % sorted(consts),
             sample={"rule": "CODEC base", "type": "Option<T>", "row": "tag 1 = Some, 0 = None"})
        ok = False
        for (b, s, fm, line) in edge_forms(d["dec"]):
            if fm.rel == "==" and fm.lin.k == -1 and len(fm.lin.terms) == 1:
                reach = d["dec"].reachable(s)
                payload = [c for c in d["dec"].calls() if c.trait == DEC_TRAIT and c.self_ty == "T"]
                if payload and payload[0].bb in reach:
                    other = [x for x in d["dec"].succ(b) if x != s]
                    if other and payload[0].bb not in d["dec"].reachable(other[0]):
                        ok = True
        R.ob(ok, "CODEC", d["dec"].where(), "CODEC|Option|tag-read", "Option's payload is not read exactly when the tag equals 1",
             sample={"rule": "CODEC base", "type": "Option<T>", "row": "tag == 1 => payload"})
    # UintED: most significant limb first both ways
    for ty, d in pairs.items():
        if ty.split("<")[0].endswith("UintED"):
            # ruint stores limbs least significant first; "most significant first" on the wire is therefore exactly one order
            # reversal on each side: `.rev()` on the limb iterator, a count-down index, `reverse()` of the filled array, or an
            # index counted from LIMBS
            from panicrule import _countdown_index
            e_marks = [c.method for c in d["enc"].calls() if (c.method or "") in ("rev", "reverse") and not d["enc"].is_cleanup(c.bb)]
            e_marks += ["count-down index" for bi, b in enumerate(d["enc"].blocks) if not b.get("cleanup") and b["term"]["k"] == "assert"
                        and b["term"].get("msg") == "BoundsCheck" and _countdown_index(d["enc"], bi, b["term"])]
            d_marks = [c.method for c in d["dec"].calls() if (c.method or "") in ("rev", "reverse") and not d["dec"].is_cleanup(c.bb)]
            d_marks += ["index from LIMBS" for c in d["dec"].calls() if (c.method or "") == "index_mut" and mentions(origin(d["dec"], c.args[0]), "LIMBS")]
            er, dr = len(e_marks) == 1, len(d_marks) == 1
            R.ob(er and dr, "CODEC", d["enc"].where(), "CODEC|UintED|limb-order", "UintED limbs are not written most-significant first and reversed back on read (write rev=%s, read rev=%s)" % (er, dr),
                 sample={"rule": "CODEC base", "type": "UintED", "row": "limbs MSB first"})
    # BlockHistoryCacheData: u32 count, then (u64, Option<V>) in ascending BTreeMap order both sides
    for ty, d in pairs.items():
        if ty.split("<")[0].endswith("BlockHistoryCacheData"):
            ins = [c for c in d["dec"].calls() if (c.method or "") == "insert" and "BTreeMap" in (c.target_path or "")]
            R.ob(bool(ins), "CODEC", d["dec"].where(), "CODEC|History|btreemap", "history entries are not rebuilt into an ordered map",
                 sample={"rule": "CODEC base", "type": "BlockHistoryCacheData", "row": "u32 n, n x (u64, Option<V>)"})


def _key_order(R, F, pairs):
    """key types of tables that are range scanned / last_key'd: fixed-width big-endian components only"""
    tf = roles.table_fields(F)
    db = roles.database_struct(F)
    scanned = set()
    for fn in F.fns.values():
        if fn.j.get("self_ty") != db["name"]:
            continue
        for c in fn.calls():
            if (c.method or "") in ("get_range",) and not fn.is_cleanup(c.bb):
                from tablerules import self_fields
                fl = self_fields(origin(fn, c.args[0]))
                if fl:
                    scanned.add(fl[0])
    R.floor("range_scanned_tables", len(scanned), 2)
    for (fld, ttype, full) in tf:
        if fld not in scanned:
            continue
        m = re.match(r"^std::option::Option<[A-Za-z0-9_:]+<(.*)>>$", full)
        inner = m.group(1) if m else ""
        # first generic argument = key type (balanced split)
        key = _first_arg(inner)
        bad = _var_width(key, pairs, set())
        R.ob(not bad, "CODEC-KEY", "src/db/brc20_prog_database.rs", "CODEC-KEY|%s" % fld,
             "table %s is range scanned but its key type %s contains variable-width component(s) %s: encoded byte order is not value order" % (fld, key, bad),
             sample={"rule": "CODEC-KEY", "table": fld, "key": key, "fixed_width_big_endian": True})
    # BlockDatabase keys: u64 via U64ED big-endian (last_key uses IteratorMode::End, checked in C03)


def _first_arg(s):
    depth = 0
    for i, ch in enumerate(s):
        if ch in "<(":
            depth += 1
        elif ch in ">)":
            depth -= 1
        elif ch == "," and depth == 0:
            return s[:i].strip()
    return s.strip()


def _var_width(ty, pairs, seen):
    ty = ty.strip()
    if ty in seen:
        return []
    seen.add(ty)
    if ty.startswith("(") and ty.endswith(")"):
        out = []
        depth = 0
        cur = ""
        for ch in ty[1:-1]:
            if ch in "<(":
                depth += 1
            if ch in ">)":
                depth -= 1
            if ch == "," and depth == 0:
                out += _var_width(cur, pairs, seen)
                cur = ""
            else:
                cur += ch
        if cur.strip():
            out += _var_width(cur, pairs, seen)
        return out
    base = ty.split("<")[0]
    if base in ("std::string::String", "std::vec::Vec", "std::option::Option", "str"):
        return [ty]
    if base in ("u8", "u32", "u64") or base.startswith("[u8"):
        return []
    for pt, d in pairs.items():
        if pt.split("<")[0] == base:
            out = []
            for x in encode_seq(d["enc"]):
                out += _var_width(x["ty"], pairs, seen)
            return out
    return []


def _serde_symmetry(R, F, ctx):
    """JSON clause: every API type deriving both Serialize and Deserialize has symmetric field attributes, and every
    hand-written Serialize impl has a hand-written Deserialize partner (and vice versa)"""
    import serdescan
    reviewed = {r["key"]: r for r in ctx.table("serde_reviewed.json")["rows"]}
    structs = [s_ for s_ in serdescan.scan(ctx.repo) if {"Serialize", "Deserialize"} <= s_["derives"]]
    R.floor("serde_derived_structs", len(structs), 8)
    nf = 0
    for st in structs:
        for f in st["fields"]:
            a = f["serde"]
            nf += 1
            loc = "%s (%s.%s)" % (st["file"], st["name"], f["name"])
            key = "%s.%s" % (st["name"], f["name"])
            skip_s = bool(a.get("skip_serializing") or a.get("skip"))
            skip_d = bool(a.get("skip_deserializing") or a.get("skip"))
            # read-skipped but written: the reader drops what the writer emits.  write-skipped but read: fine iff absence is readable
            ok_skip = (skip_s == skip_d) or (skip_s and not skip_d and ("default" in a or f["ty"].startswith("Option<")))
            R.ob(ok_skip, "SERDE", loc, "SERDE|%s|skip" % key,
                 "%s is skipped on one side only (serializing=%s, deserializing=%s) and its absence is not readable: "
                 "serialise->deserialise->serialise changes the JSON" % (key, skip_s, skip_d))
            if "skip_serializing_if" in a:
                ok = "default" in a or f["ty"].startswith("Option<")
                R.ob(ok, "SERDE", loc, "SERDE|%s|skip_serializing_if" % key,
                     "%s may be omitted when written but has neither `default` nor an Option type: reading the writer's own output fails" % key,
                     sample={"rule": "SERDE", "field": key, "attrs": sorted(a)})
            sw, dw = a.get("serialize_with"), a.get("deserialize_with")
            if (sw is None) != (dw is None) and "with" not in a:
                k2 = "%s|%s" % (key, "serialize_with" if sw else "deserialize_with")
                R.ob(k2 in reviewed, "SERDE", loc, "SERDE|" + k2,
                     "%s has %s without its counterpart and is not a reviewed row of tables/serde_reviewed.json" % (key, "serialize_with" if sw else "deserialize_with"),
                     sample={"rule": "SERDE reviewed", "key": k2, "reason": reviewed.get(k2, {}).get("reason", "")[:80]})
            rn = a.get("rename")
            if isinstance(rn, dict):
                R.ob(rn.get("serialize") == rn.get("deserialize"), "SERDE", loc, "SERDE|%s|rename" % key, "%s is renamed differently for writing and reading: %s" % (key, rn))
    R.floor("serde_fields", nf, 80)
    # hand-written impl pairs
    ser = {}
    de = {}
    for im in F.impls:
        tr = im.get("trait") or ""
        if tr.endswith("::Serialize") and "serde" in tr:
            ser[im["self_ty"].split("<")[0]] = im
        if tr.endswith("::Deserialize") and "serde" in tr:
            de[im["self_ty"].split("<")[0]] = im
    # derived impls are generated inside `const _: () = {..}` blocks: their impl ids contain `::_::`
    hand_ser = {t for t, im in ser.items() if not im["loc"].get("x") and t and "::_::" not in t}
    hand_de = {t for t, im in de.items() if not im["loc"].get("x") and t and "::_::" not in t}
    R.floor("hand_written_serde_types", len(hand_ser), 6)
    # kind agreement of the hand-written pairs: what the writer emits (a string, a string or null, or whatever an inner type's
    # own Serialize emits) is what the reader asks for (String, Option<String>, the same inner type's Deserialize)
    def serde_kinds(fn, writing):
        kinds = set()
        for c in fn.calls():
            if fn.is_cleanup(c.bb):
                continue
            tr = (c.trait or "")
            if writing and tr.endswith("::Serializer"):
                kinds.add({"serialize_str": "str", "serialize_none": "null", "serialize_unit": "null", "serialize_some": "some"}.get(c.method or "", "other:" + (c.method or "?")))
            if writing and tr.endswith("::Serialize") and (c.method or "") == "serialize":
                kinds.add("delegate:" + (c.self_ty or "?").split("<")[0].split("::")[-1])
            if not writing and tr.endswith("::Deserialize") and (c.method or "") == "deserialize":
                st = (c.self_ty or "?")
                if st == "std::string::String":
                    kinds.add("str")
                    # `let Ok(s) = String::deserialize(d) else { return Ok(empty) }`: anything that is not a string (null included)
                    # is read as the empty value instead of being an error
                    from enginerules import err_propagated
                    if not err_propagated(fn, c):
                        kinds.add("null")
                elif st.startswith("std::option::Option<std::string::String"):
                    kinds |= {"str", "null"}
                else:
                    kinds.add("delegate:" + st.split("<")[0].split("::")[-1])
        return kinds
    impl_fns = {}
    for f in F.body_fns():
        tr = f.j.get("trait") or ""
        if "serde" in tr and (tr.endswith("::Serialize") or tr.endswith("::Deserialize")) and not f.loc.get("x") and "::_::" not in (f.j.get("self_ty") or ""):
            impl_fns.setdefault((f.j.get("self_ty") or "").split("<")[0], {})["w" if tr.endswith("::Serialize") else "r"] = f
    n_kinds = 0
    for t, pr in sorted(impl_fns.items()):
        if "w" not in pr or "r" not in pr:
            continue
        n_kinds += 1
        wk, rk = serde_kinds(pr["w"], True), serde_kinds(pr["r"], False)
        wd = {k for k in wk if k.startswith("delegate:")}
        rd = {k for k in rk if k.startswith("delegate:")}
        if (wd or rd) and wd != rd:
            # one side hands over to another type's own (de)serialisation and the other does not: what that type reads or writes is
            # outside this crate (A3) - not decided here
            R.ok(1, sample={"rule": "SERDE hand-written pair kinds", "type": t.split("::")[-1], "writes": sorted(wk), "reads": sorted(rk), "status": "not decided (foreign delegate on one side)"})
            continue
        ok = bool(wk) and bool(rk) and (wk - {"some"}) <= rk and not any(k.startswith("other:") for k in wk)
        # a writer that emits null needs a reader that accepts null; a reader may accept more than the writer emits
        R.ob(ok, "SERDE", pr["w"].where(), "SERDE|kinds|%s" % t.split("::")[-1],
             "%s is written as %s but read as %s: the JSON the type produces is not what its own Deserialize asks for" % (t.split("::")[-1], sorted(wk), sorted(rk)),
             sample={"rule": "SERDE hand-written pair kinds", "type": t.split("::")[-1], "writes": sorted(wk), "reads": sorted(rk)})
    R.floor("hand_written_serde_pairs_with_kinds", n_kinds, 6)
    for t in sorted(hand_ser | hand_de):
        R.ob(t in hand_ser and t in hand_de, "SERDE", "src", "SERDE|pair|%s" % t, "%s has a hand-written %s but no hand-written %s" % (t, "Serialize" if t in hand_ser else "Deserialize", "Deserialize" if t in hand_ser else "Serialize"),
             sample={"rule": "SERDE pair", "type": t.split("::")[-1]})
