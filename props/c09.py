"""C09 — no request can crash, hang or wedge the server."""
import json
import os
import re

from effects import Effects
from lockrule import LockModel
from pairrule import slot_windows, unpaired_exits, window_blocks
from report import Report
import looprule as L
import panicrule as P
import roles
from terms import origin, show


from facts import is_private_helper


def _is_local_helper(g):
    """non-public, non-trait function or method (module privacy: all its callers are in this crate's module tree) - the name may
    collide with a word some rule mentions, which is irrelevant for reading its panic sites in its callers"""
    return is_private_helper(g) or (g is not None and bool(g.blocks) and g.kind in ("fn", "method") and not g.j.get("trait") and not g.j.get("in_trait")
                                    and (g.j.get("vis") or "") != "Public" and not (g.j.get("vis") or "").startswith("Restricted(DefId(0:0 "))


def _host_sites(F, reach, h, s):
    """[(caller's inlined view, the same site inside it)] for a site of private helper (or closure of one) h"""
    out = []
    root = F.fns.get(h.j.get("root")) or h
    for fid in sorted(reach):
        g = F.fns[fid]
        if not g.blocks or g.id == h.id:
            continue
        if _is_local_helper(F.fns.get(g.j.get("root")) or g) and g.kind in ("fn", "method"):
            continue        # an intermediate helper: its own callers' views contain this site (two levels are inlined)
        v = F.inlined(g, light=False, also_types=(root.id,))      # opened up even if its name happens to be one a rule mentions
        if root.name not in (v.j.get("inlined") or []):
            continue
        if h.id != root.id:
            continue      # a closure of the helper is not copied into the caller: keep its own key
        for s2 in P.sites(F, v):
            if v.prov(s2["bb"]) == (h.id, s["bb"]) and s2["kind"] == s["kind"]:
                out.append((v, s2))
    return out


def run(ctx):
    R = Report("C09", ctx.tier, "other", "reachable panic-site inventory with exact discharge + reviewed ledger; all-paths pairing; loop-bound slices")
    F = ctx.facts()
    CG = ctx.cg()
    R.explanation = (
        "PANIC: every panic-capable MIR site (bounds/zero-division asserts, unwrap/expect, panic!, indexing, slice/Bytes APIs "
        "that panic, Duration/Instant subtraction) in a body reachable from a request entry (handlers, precompile entry points, "
        "revm Database/DatabaseCommit/PrecompileProvider callbacks, Deserialize impls, the auth middleware) is discharged by a "
        "recognised guard idiom or is a reviewed row of tables/panic_ledger.json (per-key counts); anything else is a violation. "
        "PAIR: the database moved out with mem::take is swapped back on every normal path to a return. LOOP: no loop bound built "
        "from a request integer through a subtraction that no controlling comparison proves non-negative (wraps in the shipped "
        "profile: overflow-checks off); request-proportional numeric bounds are reviewed rows. Termination of EVM execution and "
        "panics inside dependencies are NOT decided.")
    R.trusted = ["rustc MIR assert/call terminators are the complete set of local panic sources (A1)", "call-graph closure (A2)",
                 "tables/panic_ledger.json (reviewed rows, one reason each)"]
    R.assumptions = ["Cargo.toml [profile.release] panic = 'abort': any remaining panic terminates the server",
                     "loss of the Bitcoin node is excluded by the statement"]
    # release profile
    with open(os.path.join(ctx.repo, "Cargo.toml")) as fh:
        cargo = fh.read()
    m = re.search(r"\[profile\.release\]([^\[]*)", cargo)
    prof = m.group(1) if m else ""
    abort = "abort" in prof
    ovf = re.search(r"overflow-checks\s*=\s*true", prof) is not None
    R.note("release profile: panic=%s, overflow-checks=%s" % ("abort" if abort else "unwind", "on" if ovf else "off (default)"))
    roots = P.entry_set(F, CG)
    reach = CG.reachable_from(roots)
    R.floor("request_entry_roots", len(roots), 70)
    R.floor("request_reachable_bodies", len(reach), 700)
    dbname = roles.database_struct(F)["name"]
    tfn = {f for f, _, _ in roles.table_fields(F)} | {"db_global_values"}
    ledger = {r["key"]: r for r in ctx.table("panic_ledger.json")["rows"]}
    used = {}
    n_sites = n_dis = n_led = n_ovf = 0
    site_index = {}   # fn id -> [(site, status)]
    leftovers = []
    for fid in sorted(reach):
        fn = F.fns[fid]
        if not fn.blocks:
            continue
        for s in P.sites(F, fn):
            if s["kind"].startswith("Overflow"):
                n_ovf += 1
                continue
            n_sites += 1
            why = P.discharge(F, fn, s, dbname, tfn)
            if why:
                n_dis += 1
                R.ok(1, sample={"rule": "PANIC discharged", "fn": fn.name[-60:], "site": P.descriptor(fn, s)[:80], "by": why} if n_dis % 12 == 1 else None)
                site_index.setdefault(fid, []).append((s, "discharged"))
                continue
            key = P.site_key(fn, s)
            row = ledger.get(key)
            if row is None or used.get(key, 0) >= row["max"]:
                # same function, same kind of site, same operation (`Option::expect(`) with reviewed capacity left: the
                # expression feeding a reviewed `expect` was rewritten (`values().last().cloned()` -> `last_key_value()`); an
                # *additional* site of that shape still exceeds the reviewed count
                stem = key.split("(")[0] + "("
                alt = [k_ for k_, r_ in ledger.items() if k_.startswith(stem) and used.get(k_, 0) < r_["max"]]
                if alt and s["kind"] == "Call":
                    key = alt[0]
                    row = ledger[key]
            used[key] = used.get(key, 0) + 1
            if row and used[key] <= row["max"]:
                n_led += 1
                R.ok(1, sample={"rule": "PANIC ledger", "key": key[:120], "reason": row["reason"][:100]} if n_led % 6 == 1 else None)
                site_index.setdefault(fid, []).append((s, "ledger"))
                continue
            # a site inside a private helper (extract-method) is the callers' site: read it in each caller's inlined view, where
            # the caller's guards dominate it and the ledger row reviewed for the caller names it
            hv = _host_sites(F, reach, fn, s) if _is_local_helper(F.fns.get(fn.j.get("root")) or fn) else []
            if not hv and fn.kind == "closure" and is_private_helper(F.fns.get(fn.j.get("root")) or fn):
                # a closure written inside a private helper is not copied into the callers' views; it is the callers' closure all
                # the same: the ledger row reviewed for `<caller>::{closure}` names it
                rootf = F.fns.get(fn.j.get("root"))
                done = False
                for hn in sorted(F.hosts_of(fn)):
                    k2 = key.replace(rootf.name, hn, 1)
                    if k2 in ledger and used.get(k2, 0) < ledger[k2]["max"]:
                        used[k2] = used.get(k2, 0) + 1
                        used[key] -= 1
                        n_led += 1
                        R.ok(1, sample={"rule": "PANIC (closure of a private helper, keyed by the caller)", "helper": fn.name[-50:], "key": k2[:100]})
                        site_index.setdefault(fid, []).append((s, "ledger"))
                        done = True
                        break
                if done:
                    continue
            if hv:
                res = []
                for (v, s2) in hv:
                    why2 = P.discharge(F, v, s2, dbname, tfn)
                    k2 = P.site_key(v, s2)
                    if why2:
                        res.append("discharged")
                    elif k2 in ledger and used.get(k2, 0) < ledger[k2]["max"]:
                        used[k2] = used.get(k2, 0) + 1
                        res.append("ledger")
                    else:
                        res.append(None)
                if all(res):
                    n_led += 1
                    used[key] -= 1
                    R.ok(1, sample={"rule": "PANIC (site in a private helper, read in its callers)", "helper": fn.name[-50:], "callers": [v.name[-50:] for v, _ in hv][:3],
                                    "by": res[:3]})
                    site_index.setdefault(fid, []).append((s, "ledger"))
                    continue
            leftovers.append((fid, fn, s, key, row))
    # second pass: a reviewed `x.expect(..)` / `x.unwrap()` rewritten as `let Some(v) = x else { panic!(..) }` (or back) is the
    # same stop in other clothes - an unmatched site of one of those two kinds takes a row of the other kind that belongs to the
    # same owner (type or module) and matched nothing at all in this run; an additional stop still finds no free row
    for (fid, fn, s, key, row) in leftovers:
        owner = P.panic_owner(fn)
        is_bang = key.endswith("|panic!")
        is_unwrap = s["kind"] == "Call" and any(x in key for x in ("::expect(", "::unwrap("))
        taken = None
        if is_bang or is_unwrap:
            for k2, r2 in ledger.items():
                if used.get(k2, 0) != 0:
                    continue
                k2_owner = k2.split("|")[0]
                k2_bang = k2.endswith("|panic!")
                k2_unwrap = "|Call|" in k2 and any(x in k2 for x in ("::expect(", "::unwrap("))
                same_owner = k2_owner == owner or k2_owner.startswith(owner + "::") or k2_owner.rsplit("::", 1)[0] == owner
                if same_owner and ((is_bang and k2_unwrap) or (is_unwrap and k2_bang)):
                    taken = k2
                    break
        if taken is not None:
            used[taken] = used.get(taken, 0) + 1
            used[key] = used.get(key, 1) - 1
            n_led += 1
            R.ok(1, sample={"rule": "PANIC ledger (expect <-> explicit panic of the same owner)", "site": key[:100], "row": taken[:100]})
            site_index.setdefault(fid, []).append((s, "ledger"))
            continue
        site_index.setdefault(fid, []).append((s, "violation"))
        R.violation("PANIC", "%s:%d" % (fn.loc["f"], s["line"]), "PANIC|" + key,
                    "panic-capable site `%s` in %s is reachable from a request entry, is not discharged by a guard idiom and is not a "
                    "reviewed ledger row%s" % (P.descriptor(fn, s), fn.name, " (%d sites share this key, %d reviewed)" % (used[key], row["max"]) if row else ""),
                    path=_path(CG, roots, fid))
    R.count("panic_sites", n_sites)
    R.count("discharged_by_idiom", n_dis)
    R.count("ledger_rows_used", n_led)
    R.count("overflow_advisory_sites", n_ovf)
    # 190 on the pinned tree, about 60 of them the repeated `.expect(DB_MUTEX_ERROR)` slot sentinel that one accessor helper
    # replaces; the floor guards against the site inventory collapsing, not against de-duplication
    R.floor("panic_sites", n_sites, 80)
    for key, row in ledger.items():
        if key not in used:
            R.note("ledger row no longer matches any site (stale): %s" % key[:120])
    # PAIR + panic-in-window
    LM = LockModel(F, CG)
    E = Effects(F, CG, LM)
    windows = slot_windows(F, E)
    R.floor("slot_windows", len(windows), 2)      # 3 on the pinned tree; the two simulation windows may share one take/swap frame
    for (fn, takes, swaps, owner) in windows:
        bad = unpaired_exits(fn, takes, swaps)
        R.ob(not bad, "PAIR", fn.where(), "PAIR|%s|take-swap" % fn.name,
             "the database taken with mem::take is not swapped back on every path to a return (%s): the slot is left holding an empty "
             "Default database and every later request panics on its sentinel" % ", ".join("line %s" % fn.term(b)["loc"]["l"] for a, b in bad),
             sample={"rule": "PAIR", "fn": fn.name[-60:], "takes": len(takes), "swaps": len(swaps)})
        wb = window_blocks(fn, takes, swaps)
        inner = set()
        for c in fn.calls():
            if c.bb in wb and not fn.is_cleanup(c.bb):
                inner |= CG.reachable_from(CG.site_targets(c))
        bad_sites = []
        for fid in inner:
            for (s, status) in site_index.get(fid, []):
                if status == "violation":
                    bad_sites.append("%s:%d" % (F.fns[fid].loc["f"], s["line"]))
        R.ob(not bad_sites, "PANIC-WINDOW", fn.where(), "PANIC-WINDOW|%s" % fn.name,
             "unreviewed panic sites are reachable while the database is moved out of its slot: %s" % sorted(set(bad_sites)),
             sample={"rule": "PANIC-WINDOW", "fn": fn.name[-60:], "bodies_reachable_inside": len(inner)})
    # LOOP
    loop_ledger = {r["key"]: r for r in ctx.table("loop_ledger.json")["rows"]}
    n_loops = 0
    for fid in sorted(reach):
        fn = F.fns[fid]
        if not fn.blocks or is_private_helper(fn):
            continue                      # a private helper's loops are seen in the bodies it is inlined into
        fn = F.inlined(fn)
        for (kind, bound, line, bb, bop) in L.loop_bounds(F, fn):
            n_loops += 1
            bad = L.unguarded_subs(F, fn, bound, bop)
            for (st, blocks) in bad:
                R.violation("LOOP", "%s:%s" % (fn.loc["f"], line), "LOOP|%s|wrapped-bound" % fn.name,
                            "loop bound `%s` contains `%s`, a subtraction on a request-derived integer that no controlling comparison proves "
                            "non-negative: with overflow-checks off it wraps to ~2^64 iterations (debug builds panic)" % (show(bound)[:100], show(st)[:80]))
            if L.proportional(fn, bound):
                # key: the function and the request parameters the trip count is taken from (not the expression's spelling)
                from terms import leaves as _leaves
                pnames = sorted({str(x[1]) for x in _leaves(bound) if x[0] in ("param", "upvar")})
                key = "%s|%s" % (re.sub(r"(::\{closure#\d+\})+$", "", fn.name), ",".join(pnames))
                row = loop_ledger.get(key)
                R.ob(row is not None, "LOOP", "%s:%s" % (fn.loc["f"], line), "LOOP|proportional|" + key,
                     "loop trip count `%s` is a request integer used as given; not a reviewed row of tables/loop_ledger.json" % show(bound)[:100],
                     sample={"rule": "LOOP proportional (reviewed)", "key": key, "reason": row["reason"] if row else None})
            else:
                R.ok(1)
    R.count("range_loops_in_request_reachable_code", n_loops)
    # LOOP-PROGRESS: loops no iterator drives
    n_hand = 0
    for fid in sorted(reach):
        fn = F.fns[fid]
        if not fn.blocks:
            continue
        for i, (h, body, backs) in enumerate(L.hand_written_loops(fn)):
            n_hand += 1
            ok, desc, cyc = L.loop_progress(fn, h, body)
            lines = sorted({fn.blocks[b]["term"].get("loc", {}).get("l") for b in cyc if fn.blocks[b]["term"].get("loc")})
            R.ob(ok, "LOOP-PROGRESS", "%s:%s" % (fn.loc["f"], fn.blocks[h]["term"].get("loc", {}).get("l")), "LOOP-PROGRESS|%s|#%d" % (fn.name, i),
                 "a `loop`/`while` that no iterator drives can go round without progress: there is a cycle through its head (lines %s) that neither steps a "
                 "counter its exit test depends on nor shrinks a collection it depends on (progress found elsewhere in the loop: %s): the request never returns"
                 % (lines[:8], desc or "none"),
                 sample={"rule": "LOOP-PROGRESS", "fn": fn.name[-60:], "progress": desc})
    # 6 on the pinned tree; rewriting a `while` as an iterator chain (which LOOP then bounds) lowers the count, so the floor only
    # guards against the loop detector finding nothing at all
    R.floor("hand_written_loops_in_request_reachable_code", n_hand, 1)
    # a deadlock is a request that never returns and wedges the write path: the lock discipline (no re-entry, acyclic order,
    # no guard across await) is part of "no request can hang"
    import c11
    c11.rules(R, F, CG)
    # the ledger row for `log.topics[idx]` in get_logs is reviewed as "guarded by idx < len": that guard is re-checked here on
    # every run (the same obligation C18 records) - an off-by-one in it turns an unauthenticated eth_getLogs into a panic,
    # which under the shipped `panic = abort` profile stops the server
    try:
        import c18 as _c18
        from tablerules import db_fn as _db_fn
        gl = _db_fn(F, "get_logs")
        n_ti = 0
        if gl is not None:
            for g2 in [gl] + F.descendants(gl.id):
                for c in g2.calls():
                    if g2.is_cleanup(c.bb) or not (c.trait or "").endswith("Index") or (c.method or "") != "index" or "SingleOrVec" in (c.self_ty or ""):
                        continue
                    if "FixedBytesED" not in (c.self_ty or "") and "LogED" not in (c.self_ty or "") and "topics" not in show(origin(g2, c.args[0])):
                        continue
                    n_ti += 1
                    R.ob(_c18._guarded_index(F, gl, g2, c), "GUARD", c.where(), "GUARD|get_logs|topic-index:%s" % ("closure" if g2 is not gl else "body"),
                         "log.topics[idx] is reached without `idx < log.topics.len()` on the path: a filter position at or beyond the log's topic count "
                         "panics (the reviewed ledger row for this site assumes the guard)", sample={"rule": "GUARD", "fn": g2.name[-50:], "index": "log.topics[idx]", "guard": "idx < len"})
        R.counts["get_logs_topic_index_sites"] = n_ti
    except ImportError:
        R.note("c18 not importable: topic-index guard not re-checked under C09")
    return R


def _path(CG, roots, fid):
    for r in sorted(roots):
        p = CG.path(r, lambda x: x == fid)
        if p:
            return [x.replace("brc20_prog::", "") for x in p][:10]
    return []
