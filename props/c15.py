"""C15 — inscription payload decoding is lossless, bounded and encoding-independent."""
from guards import edge_forms
from report import Report
from terms import origin, show, mentions, calls_in, control_deps, bool_edge, rvalue_origin
import panicrule as P
import roles


def run(ctx):
    R = Report("C15", ctx.tier, "other", "writer/reader prefix-table agreement, limit WIRE/DOM rules and PANIC inventory on the decode path")
    F = ctx.facts()
    CG = ctx.cg()
    R.explanation = (
        "The published encoder is the reference for the decoder: the prefix byte pushed before each payload kind "
        "({0: raw, 1: nada, 2: zstd}) equals the decoder's switch arms with the matching decompressor, any other prefix yields "
        "None, both sides use the same base64 engine constant. Every arm is bounded by the single constant CALLDATA_LIMIT: raw "
        "by a length comparison on the path to Some, nada by decode_with_limit's limit argument, zstd by a frame-size pre-check "
        "and a fixed CALLDATA_LIMIT-sized output buffer. Padding is stripped before decoding on the only decode path; deploy, "
        "call and transact all obtain their bytes from select_bytes and only the returned bytes flow on. No unreviewed panic "
        "site on the decode path. That decoded bytes equal the original (compressor correctness) is NOT decided.")
    R.trusted = ["rustc resolution/MIR (A1)", "nada::decode_with_limit never returns more than its limit; zstd_safe::decompress writes only into the given slice (A3)"]
    enc = [f for f in F.fns.values() if f.name.endswith("Base64Bytes::from_bytes")]
    dec = [f for f in F.fns.values() if f.name.endswith("api::types::decode_bytes_from_inscription_data")]
    R.floor("encoder", len(enc), 1)
    R.floor("decoder", len(dec), 1)
    if not enc or not dec:
        return R
    e, d = F.inlined(enc[0]), F.inlined(dec[0])     # private helpers of the encoder / decoder are part of them
    # ---- writer table: prefix const -> payload source
    wt = {}
    ext = [c for c in e.calls() if (c.method or "") == "extend_from_slice" and not e.is_cleanup(c.bb)]
    # the prefix write: `insert(0, tag)`, or a `push(tag)` that precedes every payload write
    ins = [c for c in e.calls() if (c.method or "") == "insert" and "Vec" in (c.target_path or "") and not e.is_cleanup(c.bb)]
    ins += [c for c in e.calls() if (c.method or "") == "push" and "Vec" in (c.target_path or "") and not e.is_cleanup(c.bb)
            and ext and all(e.sdominates(c.bb, x.bb) and c.bb != x.bb for x in ext)]
    from terms import paired_alternatives
    for c in ins:
        # the extend_from_slice reached from this insert without passing another insert
        reach = e.reachable(c.bb, avoid={x.bb for x in ins if x is not c})
        srcs = [x for x in ext if x.bb in reach]
        if not srcs:
            v = origin(e, c.args[-1])
            if v[0] == "const":
                wt[v[1]] = "?"
            continue
        for v, t in paired_alternatives(e, c.args[-1], srcs[0].args[1]):
            if v[0] != "const":
                continue
            kind = "?"
            if mentions(t, "nada"):
                kind = "nada"
            elif mentions(t, "zstd") or mentions(t, "compress") or mentions(t, "from_elem"):
                kind = "zstd"
            elif mentions(t, "bytes"):
                kind = "raw"
            wt[v[1]] = kind
    R.ob(wt == {0: "raw", 1: "nada", 2: "zstd"}, "CODEC", e.where(), "CODEC|inscription|writer-table", "encoder prefix table is %s; expected {0: raw, 1: nada, 2: zstd}" % wt,
         sample={"rule": "CODEC prefix table", "side": "writer", "table": {str(k): v for k, v in wt.items()}})
    # every text the encoder hands out is base64(prefix ++ payload): each Ok return carries the result of the base64 engine, and
    # that call is dominated by a prefix insert (an extra success path - a shortcut for some class of payloads - produces a
    # text the decoder has no arm for)
    from tablerules import _return_values
    b64 = [c for c in e.calls() if (c.method or "") == "encode" and "Engine" in (c.trait or c.target_path or "") and not e.is_cleanup(c.bb)]
    R.ob(len(b64) >= 1, "CODEC", e.where(), "CODEC|inscription|writer-base64", "the encoder never calls the base64 engine")
    rvals = _return_values(e)
    R.floor("encoder_ok_returns", len(rvals), 1)
    for rv in rvals:
        R.ob(mentions(rv, "Engine::encode") or any(mentions(rv, (c.target_path or "~").split("::")[-1]) and mentions(rv, "Engine") for c in b64),
             "CODEC", e.where(), "CODEC|inscription|writer-every-return-is-base64",
             "the encoder has a success path whose text is `%s`, not base64(prefix ++ payload): the decoder has no arm for it, so that payload "
             "does not decode to itself and differs from the same bytes sent through the hex field" % show(rv)[:80],
             sample={"rule": "CODEC writer", "return": show(rv)[:60]})
    for c in b64:
        R.ob(bool(ins) and c.bb not in e.reachable(0, avoid={i.bb for i in ins}),
             "CODEC", c.where(), "CODEC|inscription|writer-prefix-before-base64", "the base64 text can be produced without a prefix byte having been inserted",
             sample={"rule": "CODEC writer", "row": "prefix insert on every path to the base64 call"})
    # ---- reader table: switch on the first byte
    rt = {}
    sw = None
    for b in range(len(d.blocks)):
        t = d.term(b)
        if t["k"] == "switch" and t["ty"] == "u8" and len(t["targets"]) >= 2:
            sw = b
    R.ob(sw is not None, "CODEC", d.where(), "CODEC|inscription|reader-switch", "decoder has no switch on the prefix byte")
    if sw is not None:
        t = d.term(sw)
        disc = origin(d, t["discr"])
        R.ob(mentions(disc, "first") or mentions(disc, "index") or (disc[0] in ("deref", "field")), "WIRE", d.where(), "WIRE|inscription|prefix-source",
             "prefix switch is on `%s`" % show(disc)[:80])
        others = {tb for _, tb in t["targets"]}
        for v, tb in t["targets"]:
            reach = d.reachable(tb, avoid=(others - {tb}))
            cs = [c for c in d.calls() if c.bb in reach and not d.is_cleanup(c.bb)]
            paths = " ".join((c.target_path or "") for c in cs)
            if "nada::decode_with_limit" in paths:
                rt[v] = "nada"
            elif "zstd" in paths:
                rt[v] = "zstd"
            elif "to_vec" in paths or "Bytes" in paths:
                rt[v] = "raw"
            else:
                rt[v] = "?"
        R.ob(rt == {0: "raw", 1: "nada", 2: "zstd"}, "CODEC", d.where(), "CODEC|inscription|reader-table", "decoder prefix table is %s; expected {0: raw, 1: nada, 2: zstd}" % rt,
             sample={"rule": "CODEC prefix table", "side": "reader", "table": {str(k): v for k, v in rt.items()}})
        R.ob(wt == rt, "CODEC", d.where(), "CODEC|inscription|tables-agree", "encoder and decoder disagree on the prefix table: %s vs %s" % (wt, rt))
        # otherwise -> None
        ob = t["otherwise"]
        reach = d.reachable(ob, avoid=others)
        somes = _some_blocks(d)
        R.ob(not (reach & somes), "GUARD", d.where(), "GUARD|inscription|unknown-prefix", "an unknown prefix byte can produce Some(..)",
             sample={"rule": "GUARD", "row": "unknown prefix => None"})
        # per-arm bounds
        somes_by_arm = {}
        for v, tb in t["targets"]:
            reach = d.reachable(tb, avoid=(others - {tb}))
            kind = rt.get(v)
            if kind == "raw":
                ok = False
                for (b2, s2, fm, line) in edge_forms(d):
                    if b2 in reach and fm.rel == "<=" and any("CALLDATA_LIMIT" in c for c in fm.lin.consts) and any("len(" in show(a) for a in fm.lin.terms):
                        # edge on which len <= LIMIT must be the only way to Some
                        pass
                    if b2 in reach and fm.rel == "<=" and any("CALLDATA_LIMIT" in c for c in fm.lin.consts):
                        ok = True
                # every Some in this arm is control dependent on the limit comparison
                arm_somes = reach & somes
                guarded = True
                for sb in arm_somes:
                    g = False
                    for (a, s) in control_deps(d).get(sb, set()):
                        tt = origin(d, d.term(a)["discr"]) if d.term(a)["k"] == "switch" else None
                        if tt is not None and mentions(tt, "CALLDATA_LIMIT") and mentions(tt, "len"):
                            g = True
                    guarded = guarded and g
                R.ob(ok and guarded and bool(arm_somes), "GUARD", d.where(), "GUARD|inscription|raw-limit", "the uncompressed arm can return more than CALLDATA_LIMIT bytes (no length comparison on the path to Some)",
                     sample={"rule": "GUARD", "arm": "raw", "bound": "len <= CALLDATA_LIMIT on the path to Some"})
            elif kind == "nada":
                cs = [c for c in d.calls() if c.bb in reach and (c.target_path or "").endswith("nada::decode_with_limit")]
                ok = bool(cs) and all(_is_limit(origin(d, c.args[1])) for c in cs)
                R.ob(ok, "WIRE", d.where(), "WIRE|inscription|nada-limit", "nada decoding is not limited by CALLDATA_LIMIT", sample={"rule": "WIRE", "arm": "nada", "bound": "decode_with_limit(.., CALLDATA_LIMIT)"})
            elif kind == "zstd":
                fs = [c for c in d.calls() if c.bb in reach and (c.target_path or "").endswith("get_frame_content_size")]
                pre = False
                for (b2, s2, fm, line) in edge_forms(d):
                    if b2 in reach and any("CALLDATA_LIMIT" in c for c in fm.lin.consts):
                        pre = True
                # the comparison may be stored in a boolean first (`let fits = size <= LIMIT; if !fits { return None }`)
                for bi in reach:
                    for st in d.blocks[bi]["stmts"]:
                        if st["k"] == "assign" and st["rv"]["k"] == "bin" and st["rv"]["op"] in ("Lt", "Le", "Gt", "Ge"):
                            tt = rvalue_origin(d, st["rv"], 0, frozenset(), 30)
                            if mentions(tt, "CALLDATA_LIMIT") and mentions(tt, "get_frame_content_size"):
                                pre = True
                R.ob(bool(fs) and pre, "GUARD", d.where(), "GUARD|inscription|zstd-frame-size", "the zstd arm lost its frame-size pre-check against CALLDATA_LIMIT",
                     sample={"rule": "GUARD", "arm": "zstd", "bound": "frame content size <= CALLDATA_LIMIT"})
                zf = [f for f in F.fns.values() if f.name.endswith("api::types::decode_zstd_into_bytes")]
                R.ob(len(zf) == 1 and any(c.bb in reach and c.target_id == zf[0].id for c in d.calls()), "WIRE", d.where(), "WIRE|inscription|zstd-helper", "zstd arm does not go through the bounded-buffer helper")
                for z in zf:
                    dc = [c for c in z.calls() if (c.target_path or "").endswith("zstd_safe::decompress")]
                    ok = bool(dc)
                    for c in dc:
                        buf = origin(z, c.args[0])
                        ok = ok and mentions(buf, "from_elem") and mentions(buf, "CALLDATA_LIMIT")
                    R.ob(ok, "WIRE", z.where(), "WIRE|inscription|zstd-buffer", "zstd output is not written into a fixed CALLDATA_LIMIT-sized buffer",
                         sample={"rule": "WIRE", "arm": "zstd", "bound": "decompress(&mut [0u8; CALLDATA_LIMIT], ..)"})
    # same base64 engine constant
    eb = [c for c in e.calls() if (c.method or "") == "encode" and "base64" in (c.target_path or "").lower() + (c.trait or "").lower()]
    db_ = [c for c in d.calls() if (c.method or "") == "decode" and "base64" in (c.target_path or "").lower() + (c.trait or "").lower()]
    e_eng = {show(origin(e, c.args[0]))[:60] for c in eb}
    d_eng = {show(origin(d, c.args[0]))[:60] for c in db_}
    R.ob(bool(eb) and bool(db_) and e_eng == d_eng and len(e_eng) == 1, "WIRE", d.where(), "WIRE|inscription|base64-engine",
         "encoder uses %s, decoder %s" % (sorted(e_eng), sorted(d_eng)), sample={"rule": "WIRE", "row": "base64 engine", "writer": sorted(e_eng), "reader": sorted(d_eng)})
    # padding stripped before decode
    so = [c for c in d.calls() if (c.method or "") == "split_once" and not d.is_cleanup(c.bb)]
    R.ob(bool(so) and bool(db_) and all(d.sdominates(so[0].bb, c.bb) for c in db_) and (origin(d, so[0].args[1])[0] == "const" and origin(d, so[0].args[1])[1] in (61, "=")), "DOM-before", d.where(), "DOM-before|inscription|padding<decode",
         "'=' padding is not stripped before base64 decoding", sample={"rule": "DOM-before", "a": "split_once('=')", "b": "base64 decode"})
    # only one decode path: decode_bytes_from_inscription_data is called only by Base64Bytes::value
    callers = [(f, c) for f in F.body_fns() for c in f.calls() if c.target_id == d.id]
    R.ob(all(f.name.endswith("Base64Bytes::value") or f.name.startswith("api::types::Base64Bytes::value") for f, c in callers) and callers, "WHO", d.where(), "WHO|inscription|decode-callers",
         "the inscription decoder is called from %s" % sorted({f.name for f, c in callers}), sample={"rule": "WHO", "callers": sorted({f.name for f, c in callers})})
    # handlers converge on select_bytes
    sb = [f for f in F.fns.values() if f.name.endswith("api::types::select_bytes")]
    for name, ms, handlers, creg in roles.rpc_methods(F):
        if name in ("brc20_deploy", "brc20_call", "brc20_transact"):
            ok = False
            for h in handlers:
                for dd in F.descendants(h):
                    if any(sb and c.target_id == sb[0].id for c in dd.calls()):
                        ok = True
            R.ob(ok, "SIBLING", "src/server/rpc_server.rs", "SIBLING|%s|select_bytes" % name, "%s does not obtain its bytes from select_bytes" % name,
                 sample={"rule": "SIBLING", "handler": name, "bytes": "select_bytes(raw, base64)"})
    # REJECT-CAUSES: the decoder says None only for a reason the format gives: undecodable base64, no prefix byte, an unknown
    # prefix, a payload over the limit, or a decompressor error.  Any other guard that leads to None refuses some text the
    # published encoder produces (e.g. the prefix-only text of the empty payload).
    def none_blocks(fn):
        out = set()
        rets = {0} | set(fn.j.get("ret_locals", []))
        for bi, b in enumerate(fn.blocks):
            t = b["term"]
            if t["k"] == "call":
                pth = (t["func"].get("fn") or {}).get("path", "")
                if pth.endswith("FromResidual::from_residual") and t["dest"]["l"] in rets and not t["dest"].get("p"):
                    out.add(bi)
            for st in b["stmts"]:
                if st["k"] == "assign" and st["lhs"]["l"] in rets and not st["lhs"].get("p") and st["rv"]["k"] == "agg" and st["rv"].get("variant") == "None":
                    out.add(bi)
        return out

    n_rej = 0
    helpers = [f for f in F.fns.values() if f.name.endswith("api::types::decode_zstd_into_bytes")]
    for fn in [d] + helpers:
        nb = none_blocks(fn)
        if not nb:
            continue

        def none_only(sx):
            reach = fn.reachable(sx, avoid=nb)
            return not any(b in reach for b in fn.return_blocks())
        for b in range(len(fn.blocks)):
            t = fn.term(b)
            if t["k"] != "switch" or fn.is_cleanup(b):
                continue
            succs = [sx for sx in fn.succ(b) if fn.term(sx)["k"] != "unreachable"]
            rej = [sx for sx in succs if sx in nb or none_only(sx)]
            if not rej or len(rej) == len(succs):
                continue
            n_rej += 1
            disc = origin(fn, t["discr"])
            forms = [fm for (bb, sx, fm, line) in edge_forms(fn) if bb == b]
            ok = False
            why = ""
            if any(any(c.endswith("CALLDATA_LIMIT") for c in fm.lin.consts) for fm in forms):
                ok, why = True, "over the limit"
            elif t.get("ty") == "u8" and len(t["targets"]) >= 2:
                ok, why = True, "unknown prefix"
            elif mentions(disc, "Engine::decode") and mentions(disc, "branch") and not mentions(disc, "len"):
                ok, why = True, "undecodable base64 / no prefix byte"
            elif mentions(disc, "first") and mentions(disc, "branch"):
                ok, why = True, "no prefix byte"
            elif mentions(disc, "get_frame_content_size") or mentions(disc, "decompress") or mentions(disc, "decode_with_limit"):
                ok, why = True, "decompressor error / declared size"
            R.ob(ok, "GUARD", "%s:%s" % (fn.loc["f"], t.get("loc", {}).get("l")), "GUARD|decoder|unexpected-reject",
                 "the decoder returns None on a condition the format does not give (`%s`): some text the published encoder produces is refused "
                 "(allowed causes: undecodable base64, no prefix byte, unknown prefix, over the limit, decompressor error)" % show(disc)[:90],
                 sample={"rule": "GUARD decoder reject causes", "cause": why})
    R.floor("decoder_reject_decisions", n_rej, 5)
    # LIMIT-DOMAIN: the call-data limit bounds *decoded bytes*.  Every guard anywhere in the crate that compares a length
    # directly with CALLDATA_LIMIT measures a byte buffer (base64-decoded data, a frame size, a decompressed length), never
    # the length of the encoded text: base64 text is a third longer than what it carries, so a text-length test refuses
    # payloads that are within the limit (and only through the base64 field: the two encodings stop agreeing).
    n_lim = 0
    limit_value = None
    for c in F.j["consts"]:
        if c["name"].endswith("CALLDATA_LIMIT") and isinstance(c.get("v"), int):
            limit_value = c["v"]
    R.ob(limit_value is not None, "ANCHOR", "(whole crate)", "ANCHOR|CALLDATA_LIMIT", "constant CALLDATA_LIMIT not found")

    def const_eval(t):
        """value of a term built from integer constants only, else None"""
        if t[0] == "const" and isinstance(t[1], int):
            return t[1]
        if t[0] == "cast":
            return const_eval(t[1])
        if t[0] == "field" and t[2] == ".0":
            return const_eval(t[1])
        if t[0] == "bin":
            a, b2 = const_eval(t[2]), const_eval(t[3])
            if a is None or b2 is None:
                return None
            op = t[1]
            if op.startswith("Add"):
                return a + b2
            if op.startswith("Sub"):
                return a - b2
            if op.startswith("Mul"):
                return a * b2
            if op.startswith("Div") and b2:
                return a // b2
            if op.startswith("Shl"):
                return a << b2
            if op.startswith("Shr"):
                return a >> b2
        return None

    def is_text_len(t):
        return t[0] == "call" and (t[1].endswith("String::len") or t[1].endswith("str>::len") or t[1].endswith("str::len"))

    sbx = [f for f in F.fns.values() if f.name.endswith("api::types::select_bytes")]
    b64_path = CG.reachable_from([x.id for x in sbx]) if sbx else set()
    for f in F.body_fns():
        if "::tests::" in f.name:
            continue
        for (b, sx, fm, line) in edge_forms(f):
            has_limit = any(c.endswith("CALLDATA_LIMIT") for c in fm.lin.consts) or any(mentions(t, "CALLDATA_LIMIT") for t in fm.lin.terms)
            on_path = f.id in b64_path and "api::types" in f.name
            if not (has_limit or on_path):
                continue
            if has_limit:
                n_lim += 1
            text = [(t, c) for t, c in fm.lin.terms.items() if is_text_len(t) and abs(c) == 1]
            if not text or limit_value is None:
                continue
            rest = 0
            evaluable = True
            for t, c in fm.lin.terms.items():
                if is_text_len(t):
                    continue
                v = const_eval(t)
                if v is None:
                    evaluable = False
                    break
                rest += c * v
            if not evaluable:
                continue
            split = abs(rest + fm.lin.k)
            need = ((limit_value + 1) * 4 + 2) // 3
            R.ob(split >= need - 1, "LIMIT", "%s:%s" % (f.loc["f"], line), "LIMIT|domain|%s" % f.name,
                 "%s tests the length of encoded *text* (`%s`) against %d, but CALLDATA_LIMIT bounds decoded bytes: base64 text of a payload "
                 "within the limit is up to %d characters long, so such payloads are refused when they arrive base64-encoded (and accepted "
                 "through the hex field)" % (f.name, show(text[0][0])[:60], split, need),
                 sample={"rule": "LIMIT domain", "fn": f.name[-50:], "text_length_split_at": split, "needed_at_least": need})
    R.floor("guards_against_the_calldata_limit", n_lim, 6)
    # PANIC on the decode path
    dbname = roles.database_struct(F)["name"]
    ledger = {r["key"]: r for r in ctx.table("panic_ledger.json")["rows"]}
    used = {}
    roots = [x.id for x in sb] + [f.id for f in F.fns.values() if (f.j.get("trait") or "").endswith("::Deserialize") and "api::types" in f.name]
    decode_path = CG.reachable_from(roots)
    R.floor("decode_path_bodies", len(decode_path), 5)
    for fid in sorted(decode_path):
        f = F.fns[fid]
        if not f.blocks or "api::types" not in f.name:
            continue
        for s in P.sites(F, f):
            if s["kind"].startswith("Overflow"):
                continue
            if P.discharge(F, f, s, dbname, set()):
                R.ok(1)
                continue
            key = P.site_key(f, s)
            used[key] = used.get(key, 0) + 1
            row = ledger.get(key)
            R.ob(row is not None and used[key] <= row["max"], "PANIC", "%s:%d" % (f.loc["f"], s["line"]), "PANIC|" + key,
                 "panic-capable site `%s` on the inscription decode path is neither guarded nor reviewed" % P.descriptor(f, s),
                 sample={"rule": "PANIC (decode path)", "site": P.descriptor(f, s)[:60], "status": "ledger"})
    # "hex and base64 submissions produce identical transactions": the two request fields are read from the JSON text the same
    # way.  A borrowed `&str` (or `&[u8]`) can only be produced by a JSON parser when the literal has no escape sequence - a
    # legal spelling such as "\/" or "\u003d" then fails to deserialize, and the field's fallback turns it into "absent"
    des = {}
    for f_ in F.fns.values():
        if not (f_.j.get("trait") or "").endswith("::Deserialize") or (f_.j.get("method") or "") != "deserialize" or not f_.blocks:
            continue
        st_ = (f_.j.get("self_ty") or f_.name)
        for nm_ in ("RawBytes", "Base64Bytes"):
            if st_.split("<")[0].endswith(nm_) or ("::" + nm_ + " as ") in f_.name or f_.name.startswith("<api::types::%s as" % nm_):
                tys = set()
                for g_ in [f_] + F.descendants(f_.id):
                    for c_ in g_.calls():
                        if not g_.is_cleanup(c_.bb) and (c_.method or "") == "deserialize" and (c_.trait or "").endswith("Deserialize"):
                            tys.add((c_.self_ty or "?"))
                des[nm_] = (f_, tys)
    R.floor("payload_field_deserializers", len(des), 2)
    if len(des) == 2:
        (fa, ta), (fb, tb) = des["RawBytes"], des["Base64Bytes"]
        borrowed = sorted(t for t in (ta | tb) if t.startswith("&"))
        R.ob(ta == tb and not borrowed, "SIBLING", fb.where(), "SIBLING|payload-fields|deserialize-as",
             "the hex field is read from JSON as %s and the base64 field as %s%s: the two encodings of one payload are not accepted for the same "
             "request texts" % (sorted(ta), sorted(tb), " (a borrowed string rejects every literal that contains an escape)" if borrowed else ""),
             sample={"rule": "SIBLING", "hex_field": sorted(ta), "base64_field": sorted(tb)})
    return R


def _is_limit(t):
    return t[0] == "const" and len(t) > 2 and t[2] and t[2].endswith("CALLDATA_LIMIT")


def _some_blocks(fn):
    """blocks that produce the function's `Some(..)` result - directly, or as the result of a virtually inlined helper whose
    value is handed on"""
    out = set()
    rets = {0} | set(fn.j.get("ret_locals", []))
    for bi, b in enumerate(fn.blocks):
        for s in b["stmts"]:
            if s["k"] == "assign" and s["lhs"]["l"] in rets and not s["lhs"].get("p") and s["rv"]["k"] == "agg" and s["rv"].get("variant") == "Some":
                out.add(bi)
        t = b["term"]
        if t["k"] == "call" and t["dest"]["l"] in rets and not t["dest"].get("p"):
            p = (t["func"].get("fn") or {}).get("path", "")
            if not p.endswith("from_residual"):
                out.add(bi)
    return out
