"""C19 — contracts see exactly the block context the indexer supplied."""
from report import Report
from terms import origin, show, mentions, calls_in, control_deps, bool_edge, leaves
import wire as W
import enginerules as ER
import roles
from guards import edge_forms


def _pidx(fn, name):
    names = fn.j.get("param_names") or []
    return names.index(name) + 1 if name in names else None


def run(ctx):
    R = Report("C19", ctx.tier, "other", "WIRE origin tables (backward slices with captures resolved) from handler parameters to EVM environment fields")
    F = ctx.facts()
    CG = ctx.cg()
    R.explanation = (
        "A wiring table, one row per item of the statement: each EVM environment field assigned in get_evm slices back to the "
        "parameter (by position) or constant the statement names; the execution path hands get_evm its own block number, hash, "
        "timestamp and op_return tx id (captures resolved into add_tx_to_block's parameters); tx.caller/kind/data/nonce/gas_limit "
        "come from the TxInfo and derived values; handlers pass their RPC parameters and get_next_block_height(); deposits, "
        "withdrawals and genesis use a zero txid; the provider hands the precompile the txid stored in the provider; the multi-call "
        "simulation sets it per call; the current-txid helper is registered only on the `spec >= PRAGUE` edge; BLOCKHASH is served "
        "by the cache-first block-hash table. revm's mapping from environment to opcodes is NOT decided.")
    R.trusted = ["rustc resolution/MIR (A1)", "revm maps BlockEnv/CfgEnv/TxEnv fields to the corresponding opcodes (A3)"]
    ge = F.inlined(F.fn_opt("engine::evm::get_evm"))
    if ge is None:
        R.violation("ANCHOR", "src/engine/evm.rs", "ANCHOR|get_evm", "get_evm not found")
        return R
    st = W.field_stores(ge)
    P = {n: _pidx(ge, n) for n in ("block_number", "block_hash", "timestamp", "db", "gas_limit", "current_op_return_tx_id", "precompile_data")}

    def row(path, pred, want):
        vals = st.get(path, [])
        ok = len(vals) >= 1 and all(pred(W.strip(t), t) for _, t in vals)
        R.ob(ok, "WIRE", ge.where(), "WIRE|get_evm|%s" % path,
             "EVM environment field %s is wired to `%s`; expected %s" % (path, "; ".join(show(t)[:80] for _, t in vals) or "(not assigned)", want),
             sample={"rule": "WIRE", "sink": "get_evm" + path, "origin": [show(t)[:80] for _, t in vals], "expected": want})
    isparam = lambda n: (lambda s, t: s[0] == "param" and s[1] == P[n])
    isconst = lambda v: (lambda s, t: s[0] == "const" and (s[1] == v or (isinstance(s[1], str) and s[1].startswith("alloc:") and set(s[1][6:]) <= {"0"} and v == 0)))
    row(".block.number", isparam("block_number"), "the block_number parameter")
    row(".block.timestamp", isparam("timestamp"), "the timestamp parameter")
    row(".block.prevrandao", isparam("block_hash"), "Some(block_hash parameter)")
    row(".block.basefee", isconst(0), "0")
    row(".block.difficulty", isconst(0), "zero")
    row(".block.gas_limit", lambda s, t: mentions(t, "unwrap_or") and mentions(t, "gas_limit"), "gas_limit.unwrap_or(u64::MAX)")
    row(".cfg.chain_id", lambda s, t: mentions(t, "chain_id") and mentions(t, "CONFIG"), "CONFIG.chain_id")
    row(".tx.chain_id", lambda s, t: mentions(t, "chain_id") and mentions(t, "CONFIG"), "Some(CONFIG.chain_id)")
    row(".cfg.spec", lambda s, t: s[0] == "call" and s[1].endswith("get_evm_spec") and W.strip(s[2][0])[0] == "param" and W.strip(s[2][0])[1] == P["block_number"], "get_evm_spec(block_number)")
    row(".tx.gas_price", isconst(0), "0")
    row(".tx.value", isconst(0), "zero")
    R.ob(not any("beneficiary" in p for p in st), "WIRE", ge.where(), "WIRE|get_evm|.block.beneficiary", "coinbase is assigned (must stay the default zero address)",
         sample={"rule": "WIRE", "sink": "get_evm.block.beneficiary", "origin": "never assigned (default zero)"})
    # provider construction
    pn = [c for c in ge.calls() if c.path and c.path.endswith("BRC20Precompiles::new") and not ge.is_cleanup(c.bb)]
    R.ob(len(pn) == 1, "WIRE", ge.where(), "WIRE|get_evm|provider", "get_evm does not build exactly one BRC20Precompiles")
    for c in pn:
        a = [W.strip(origin(ge, x)) for x in c.args]
        R.ob(a[0][0] == "call" and a[0][1].endswith("get_evm_spec"), "WIRE", c.where(), "WIRE|get_evm|provider-spec", "precompile spec is `%s`, not get_evm_spec(block_number)" % show(a[0])[:80],
             sample={"rule": "WIRE", "sink": "BRC20Precompiles::new.spec", "origin": show(a[0])[:80]})
        R.ob(a[1][0] == "param" and a[1][1] == P["current_op_return_tx_id"], "WIRE", c.where(), "WIRE|get_evm|provider-txid", "provider txid is `%s`, not the current_op_return_tx_id parameter" % show(a[1])[:80],
             sample={"rule": "WIRE", "sink": "BRC20Precompiles::new.op_return_tx_id", "origin": show(a[1])[:80]})
    cn = [c for c in ge.calls() if c.path and c.path.endswith("::new") and "Context" in c.path and not ge.is_cleanup(c.bb)]
    for c in cn:
        a = W.strip(origin(ge, c.args[0]))
        R.ob(a[0] == "param" and a[1] == P["db"], "WIRE", c.where(), "WIRE|get_evm|context-db", "the EVM context is built over `%s`, not the database passed in" % show(a)[:60])
    # ---- execution path: add_tx_to_block
    em = ER.engine_methods(F)
    atb = em["add_tx_to_block"]
    AP = {n: _pidx(atb, n) for n in ("timestamp", "tx_info", "tx_idx", "block_number", "block_hash", "inscription_id", "inscription_byte_len", "op_return_tx_id")}
    bodies = [g for g in F.descendants(atb.id)]
    ge_calls = [(g, c) for g in bodies for c in g.calls() if c.target_id == ge.id and not g.is_cleanup(c.bb)]
    R.ob(len(ge_calls) == 1, "WIRE", atb.where(), "WIRE|add_tx_to_block|get_evm", "add_tx_to_block does not build exactly one EVM")
    for g, c in ge_calls:
        names = ge.j.get("param_names")
        want = {"block_number": "block_number", "block_hash": "block_hash", "timestamp": "timestamp", "current_op_return_tx_id": "op_return_tx_id"}
        for i, a in enumerate(c.args):
            pn_ = names[i]
            if pn_ not in want:
                continue
            t = W.resolve(F, g, origin(g, a))
            s = W.strip(t)
            # block_hash is a `mut` parameter: param or the generated hash when zero
            ok = (s[0] == "param" and s[1] == AP[want[pn_]]) or (pn_ == "block_hash" and s[0] == "phi" and any(x[0] == "param" and x[1] == AP["block_hash"] for x in s[1])
                                                                   and all(x[0] == "param" or mentions(x, "generate_block_hash") for x in s[1]))
            R.ob(ok, "WIRE", c.where(), "WIRE|add_tx_to_block|get_evm.%s" % pn_,
                 "the executing EVM's %s is `%s`, not add_tx_to_block's %s parameter" % (pn_, show(t)[:80], want[pn_]),
                 sample={"rule": "WIRE", "sink": "add_tx_to_block -> get_evm.%s" % pn_, "origin": show(t)[:80]})
        gl = W.strip(origin(g, c.args[names.index("gas_limit")]))
        R.ob(gl[0] == "agg" and gl[1].endswith("Option::None"), "WIRE", c.where(), "WIRE|add_tx_to_block|get_evm.gas_limit", "block gas limit override on the execution path: %s" % show(gl)[:60])
    # tx env of the three set-up sites is C17; here the execution path rows
    for g in bodies:
        fs = W.field_stores(g)
        if ".caller" in fs:
            rows = {".caller": ("tx_info", ".from"), ".kind": ("tx_info", ".to"), ".data": ("tx_info", ".data")}
            for path, (pname, fld) in rows.items():
                for _, t in fs.get(path, []):
                    rt = W.resolve(F, g, t)
                    ok = mentions(rt, fld) and W.leaf_params(rt, g.name) == {(atb.name, AP["tx_info"])}
                    R.ob(ok, "WIRE", g.where(), "WIRE|add_tx_to_block|tx%s" % path, "tx%s is `%s`, not tx_info%s" % (path, show(rt)[:80], fld),
                         sample={"rule": "WIRE", "sink": "tx" + path, "origin": show(rt)[:80]})
            for _, t in fs.get(".gas_limit", []):
                rt = W.resolve(F, g, t)
                R.ob(mentions(rt, "get_gas_limit"), "WIRE", g.where(), "WIRE|add_tx_to_block|tx.gas_limit", "tx.gas_limit is `%s`, not get_gas_limit(inscription_byte_len)" % show(rt)[:80],
                     sample={"rule": "WIRE", "sink": "tx.gas_limit", "origin": show(rt)[:80]})
            for _, t in fs.get(".nonce", []):
                rt = W.resolve(F, g, t)
                R.ob(mentions(rt, "get_account_nonce") or mentions(rt, ".nonce"), "WIRE", g.where(), "WIRE|add_tx_to_block|tx.nonce", "tx.nonce is `%s`" % show(rt)[:80],
                     sample={"rule": "WIRE", "sink": "tx.nonce", "origin": show(rt)[:80]})
    # ---- handlers
    hp = {"brc20_deploy": True, "brc20_call": True, "brc20_deposit": False, "brc20_withdraw": False, "brc20_transact": True}
    for name, ms, handlers, creg in roles.rpc_methods(F):
        if name not in hp:
            continue
        for h in handlers:
            hf = F.fns[h]
            for d in F.descendants(h):
                for c in d.calls():
                    if c.target_id in (atb.id, em["add_raw_tx_to_block"].id) and not d.is_cleanup(c.bb):
                        callee = F.fns[c.target_id]
                        cn_ = callee.j.get("param_names")
                        argmap = {cn_[i]: W.resolve(F, d, origin(d, a)) for i, a in enumerate(c.args)}
                        for pn_, hn in (("timestamp", "timestamp"), ("tx_idx", "tx_idx"), ("block_hash", "hash"), ("inscription_id", "inscription_id")):
                            t = argmap[pn_]
                            hi = _pidx(hf, hn)
                            got = W.leaf_params(t, d.name)
                            R.ob(got == {(hf.name, hi)}, "WIRE", c.where(), "WIRE|%s|%s" % (name, pn_),
                                 "%s passes `%s` as %s; expected its own `%s` parameter" % (name, show(t)[:70], pn_, hn),
                                 sample={"rule": "WIRE", "sink": "%s -> %s" % (name, pn_), "origin": show(t)[:70]})
                        bn = argmap["block_number"]
                        R.ob(mentions(bn, "get_next_block_height") and not mentions(bn, "get_latest_block_height"), "WIRE", c.where(), "WIRE|%s|block_number" % name,
                             "%s executes at `%s`, not at the height being built" % (name, show(bn)[:70]), sample={"rule": "WIRE", "sink": name + " -> block_number", "origin": show(bn)[:70]})
                        opr = argmap["op_return_tx_id"]
                        if hp[name]:
                            hi = _pidx(hf, "op_return_tx_id")
                            got = W.leaf_params(opr, d.name)
                            R.ob(got == {(hf.name, hi)}, "WIRE", c.where(), "WIRE|%s|op_return_tx_id" % name, "%s passes `%s` as current txid" % (name, show(opr)[:70]),
                                 sample={"rule": "WIRE", "sink": name + " -> op_return_tx_id", "origin": show(opr)[:70]})
                        else:
                            s = W.strip(opr)
                            zero = (s[0] == "repeat" and W.strip(s[1])[0] == "const" and W.strip(s[1])[1] == 0) or (s[0] == "const" and isinstance(s[1], str) and set(s[1].replace("alloc:", "")) <= {"0"})
                            R.ob(zero, "WIRE", c.where(), "WIRE|%s|op_return_tx_id" % name, "%s must run with a zero txid, passes `%s`" % (name, show(opr)[:70]),
                                 sample={"rule": "WIRE", "sink": name + " -> op_return_tx_id", "origin": "zero"})
                            ti = argmap["tx_info"]
                            R.ob(mentions(ti, "load_brc20_mint_tx") or mentions(ti, "load_brc20_burn_tx"), "WIRE", c.where(), "WIRE|%s|tx_info" % name, "%s tx_info is `%s`" % (name, show(ti)[:70]))
    # a parked transaction executed later inside another call sees the txid stored with it, never the outer call's
    dl = ER.drain_loop(F)
    R.ob(dl is not None, "WIRE", "engine", "WIRE|drain|anchor", "pending-pool drain loop not found")
    if dl:
        fn_, h_, body_, calls_ = dl
        c = calls_[0]
        opr = origin(fn_, c.args[atb.j["param_names"].index("op_return_tx_id")])
        R.ob(mentions(opr, "get_pending_tx_op_return_tx_id") and W.strip(opr)[0] != "param", "WIRE", c.where(), "WIRE|drain|op_return",
             "a drained (parked-then-executed) transaction sees `%s` as its Bitcoin transaction id, not the one stored with it" % show(opr)[:100],
             sample={"rule": "WIRE", "sink": "drain -> op_return_tx_id", "origin": show(opr)[:100]})
    ER.clause_park_rows_together(R, F)
    # the tables the block context is read from (block hashes for BLOCKHASH, the parked transaction and its stored txid)
    # follow the chain: a reorg / clear_caches / commit visits each of them, so a drained transaction never sees a txid
    # written in an orphaned block
    import tablerules as T
    ctx_tables = T.fields_touched(F, ["get_pending_tx_op_return_tx_id", "get_pending_tx", "get_block_hash"])
    R.floor("tables_behind_block_context", len(ctx_tables), 3)
    for dm in ("reorg", "clear_caches", "commit_changes"):
        T.clause_tables(R, F, dm, only_fields=ctx_tables)
    # "block number = the height being built": the height comes from the cached chain tip, which must not outlive its blocks
    T.clause_derived_caches_coherent(R, F)
    # ... and from the block tables' last key, which must look at committed *and* uncommitted rows (the larger wins): with only
    # one source consulted a reorg into an uncommitted suffix deletes nothing and the next height is derived from an orphan
    T.clause_read_merge(R, F, scans=())
    # controller loaders use the indexer address as sender
    for ln in ("load_brc20_mint_tx", "load_brc20_burn_tx", "load_brc20_deploy_tx"):
        lf = [f for f in F.fns.values() if f.name.endswith("brc20_controller::" + ln)]
        for f in lf:
            f = F.inlined(f)      # the three loaders may share a private `controller_call_tx(calldata)` builder
            fi = [c for c in f.calls() if c.path and c.path.endswith("TxInfo::from_inscription")]
            R.ob(bool(fi) and all(mentions(origin(f, c.args[0]), "INDEXER_ADDRESS") for c in fi), "WIRE", f.where(), "WIRE|%s|from" % ln,
                 "%s does not run as the indexer address" % ln, sample={"rule": "WIRE", "sink": ln + ".from", "origin": "INDEXER_ADDRESS"})
    # ---- provider: txid handed to the precompile, Prague gating
    run = [f for f in F.fns.values() if (f.j.get("trait") or "").endswith("PrecompileProvider") and f.j.get("method") == "run"]
    for f0 in run:
        f = f0
        ok = False
        # the call context may be built in the provider itself, in a private helper of it, or in a closure (`.map(|p| ..)`)
        for g_ in [F.inlined(f0)] + list(F.descendants(f0.id)):
          for b in g_.blocks:
            for s in b["stmts"]:
                if s["k"] == "assign" and s["rv"]["k"] == "agg" and (s["rv"].get("adt") or "").endswith("PrecompileCall"):
                    t = W.resolve(F, g_, W.rvalue_origin(g_, s["rv"], 0, frozenset(), 30))
                    m = dict(zip(t[3], t[2]))
                    ok = mentions(m.get("current_op_return_tx_id", ("x",)), "op_return_tx_id") and mentions(m["current_op_return_tx_id"], "self")
                    ok2 = mentions(m.get("block_height", ("x",)), "number")
                    R.ob(ok2, "WIRE", f.where(), "WIRE|provider.run|block_height", "precompile block height is not ctx.block().number()")
        R.ob(ok, "WIRE", f.where(), "WIRE|provider.run|txid", "the precompile call does not receive the provider's op_return_tx_id",
             sample={"rule": "WIRE", "sink": "PrecompileCall.current_op_return_tx_id", "origin": "self.op_return_tx_id"})
    pnew = [F.inlined(f) for f in F.fns.values() if f.name.endswith("BRC20Precompiles::new")]
    for f in pnew:
        ins = [c for c in f.calls() if (c.method or "") == "insert" and "HashMap" in (c.target_path or "") and not f.is_cleanup(c.bb)
               and mentions(origin(f, c.args[1]), "GET_OP_RETURN_TX_ID_PRECOMPILE_ADDRESS")]
        R.ob(len(ins) == 1, "GUARD", f.where(), "GUARD|provider.new|helper-insert", "current-txid helper registered %d times" % len(ins))
        for c in ins:
            okg = False
            for (a, s) in control_deps(f).get(c.bb, set()):
                be = bool_edge(f, a, s)
                if be and be[1] is True and mentions(be[0], "ge") and mentions(be[0], "PRAGUE"):
                    okg = True
            R.ob(okg, "GUARD", c.where(), "GUARD|provider.new|prague", "the current-txid helper is registered on a path not guarded by `spec >= PRAGUE`",
                 sample={"rule": "GUARD", "site": "custom_precompiles.insert(GET_OP_RETURN_TX_ID)", "guard": "precompile_spec >= PRAGUE"})
        # field op_return_tx_id <- parameter
        for b in f.blocks:
            for s in b["stmts"]:
                if s["k"] == "assign" and s["rv"]["k"] == "agg" and (s["rv"].get("adt") or "").endswith("BRC20Precompiles"):
                    t = W.rvalue_origin(f, s["rv"], 0, frozenset(), 30)
                    m = dict(zip(t[3], t[2]))
                    v = W.strip(m["op_return_tx_id"])
                    R.ob(v[0] == "param" and v[1] == _pidx(f, "op_return_tx_id"), "WIRE", f.where(), "WIRE|provider.new|txid", "provider stores `%s` as txid" % show(v)[:60],
                         sample={"rule": "WIRE", "sink": "BRC20Precompiles.op_return_tx_id", "origin": show(v)[:60]})
    # multi-call: per-call txid from precompile_data.op_return_tx_ids[idx]
    rcm = [g for g in F.fns.values() if g.name.startswith("engine::engine::BRC20ProgEngine::read_contract_multi")
           and any(k.endswith(".op_return_tx_id") for k in W.field_stores(g))]
    R.ob(len(rcm) == 1, "WIRE", "engine", "WIRE|read_contract_multi|per-call-txid", "the multi-call simulation no longer sets the txid per call")
    for g in rcm:
        for _, t in [x for k, v in W.field_stores(g).items() if k.endswith(".op_return_tx_id") for x in v]:
            rt = W.resolve(F, g, t)
            from terms import mentions_deep
            R.ob(mentions(rt, "precompile_data") and mentions_deep(F, t, "get") and mentions_deep(F, t, "cloned"), "WIRE", g.where(), "WIRE|read_contract_multi|txid-source", "per-call txid is `%s`" % show(rt)[:80],
                 sample={"rule": "WIRE", "sink": "evm.precompiles.op_return_tx_id", "origin": show(rt)[:80]})
    # BLOCKHASH
    bh = [f for f in F.fns.values() if f.j.get("trait") == "revm::Database" and f.j.get("method") == "block_hash"]
    for f in bh:
        c = [x for x in f.calls() if (x.method or "") == "get_block_hash"]
        R.ob(bool(c) and W.strip(origin(f, c[0].args[1]))[0] == "param", "WIRE", f.where(), "WIRE|Database::block_hash", "BLOCKHASH is not served by get_block_hash(number)",
             sample={"rule": "WIRE", "sink": "Database::block_hash", "origin": "get_block_hash(number) (cache-first table, C03)"})
    gbh = [f for f in F.fns.values() if f.name.endswith("Brc20ProgDatabase::get_block_hash")]
    for f in gbh:
        c = [x for x in f.calls() if (x.method or "") == "get" and "BlockDatabase" in (x.self_ty or x.target_path or "")]
        from tablerules import self_fields
        R.ob(bool(c) and self_fields(origin(f, c[0].args[0]))[:1] == ["db_block_number_to_hash"], "WIRE", f.where(), "WIRE|get_block_hash|table", "block hashes are not read from the number->hash table")
    # spec selection
    gs = F.inlined(F.fn_opt("engine::hardforks::get_evm_spec"))
    if gs:
        forms = edge_forms(gs)
        consts = set()
        for (b, s, fm, line) in forms:
            consts |= {c.split("::")[-1] for c in fm.lin.consts}
            # the activation height may reach the comparison through a helper's `Some(CONST)` alternatives
            for a in fm.lin.terms:
                for lf in leaves(a):
                    if lf[0] == "const" and isinstance(lf[1], str):
                        consts.add(lf[1].split("::")[-1])
        # comparisons whose result is returned rather than branched on (a predicate helper read in place)
        for b_ in gs.blocks:
            if b_.get("cleanup"):
                continue
            for s_ in b_["stmts"]:
                if s_["k"] == "assign" and s_["rv"]["k"] == "bin" and s_["rv"].get("op") in ("Ge", "Gt", "Le", "Lt"):
                    for o_ in s_["rv"]["ops"]:
                        for lf in leaves(origin(gs, o_)):
                            if lf[0] == "const" and isinstance(lf[1], str):
                                consts.add(lf[1].split("::")[-1])
        ok_heights = {"PRAGUE_ACTIVATION_HEIGHT_MAINNET", "PRAGUE_ACTIVATION_HEIGHT_SIGNET"} <= consts
        if not ok_heights:
            # the two heights as fields of one constant aggregate (`const PRAGUE: Heights = Heights { mainnet, signet }`): the
            # comparison must reach a constant that holds both pinned values
            try:
                pins = ctx.table("consensus_v2.json")["constants"]
                want = {pins["const engine::hardforks::PRAGUE_ACTIVATION_HEIGHT_MAINNET"], pins["const engine::hardforks::PRAGUE_ACTIVATION_HEIGHT_SIGNET"]}
            except Exception:
                want = None
            by_name = {c_["name"]: c_ for c_ in F.j["consts"]}
            import re as _re
            for nm in list(consts):
                mh = _re.search(r"alloc:([0-9a-f]+)", nm)
                if mh and len(mh.group(1)) % 16 == 0 and want:
                    words = {int.from_bytes(bytes.fromhex(mh.group(1)[i:i + 16]), "little") for i in range(0, len(mh.group(1)), 16)}
                    if want <= words:
                        ok_heights = True
            for nm in list(consts):
                for full, c_ in by_name.items():
                    if full.split("::")[-1] == nm:
                        hx = (c_.get("indirect") or {}).get("hex")
                        if hx and len(hx) % 16 == 0 and want:
                            words = {int.from_bytes(bytes.fromhex(hx[i:i + 16]), "little") for i in range(0, len(hx), 16)}
                            if want <= words:
                                ok_heights = True
        R.ob(ok_heights, "GUARD", gs.where(), "GUARD|get_evm_spec|heights",
             "spec selection no longer compares the height with both activation constants (%s)" % sorted(consts), sample={"rule": "GUARD", "fn": "get_evm_spec", "consts": sorted(consts)})
        # "where the Prague rules are in force, and only there": in force from the activation height on - at that height, not
        # at the one below (abstract execution per network, comparisons with the height decided by the scenario)
        import boundary
        hp = (gs.j.get("param_names") or ["block_number"])[0]
        for net, want_at, want_before in (("Bitcoin", {"PRAGUE"}, {"CANCUN"}), ("Signet", {"PRAGUE"}, {"CANCUN"}), ("Regtest", {"PRAGUE"}, None), ("Testnet4", {"PRAGUE"}, None)):
            got_at, cmps = boundary.outcomes(F, gs, hp, net, "at")
            got_bf, _c = boundary.outcomes(F, gs, hp, net, "before")
            # (None: the rules are in force from height 0 on that network - there is no height below it to look at)
            R.ob(got_at == want_at and (want_before is None or got_bf == want_before), "GUARD", gs.where(), "GUARD|get_evm_spec|boundary:%s" % net,
                 "on %s the spec at the activation height is %s (must be %s) and at the height below it %s (must be %s): the Prague rules "
                 "(and the current-txid helper) start one block off" % (net, sorted(got_at), sorted(want_at), sorted(got_bf), sorted(want_before or [])),
                 sample={"rule": "GUARD (abstract execution)", "fn": "get_evm_spec", "network": net, "at": sorted(got_at), "before": sorted(got_bf), "comparisons": cmps})
    return R
