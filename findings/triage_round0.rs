#![cfg(test)]
use std::panic::{catch_unwind, AssertUnwindSafe};

use alloy::consensus::transaction::RlpEcdsaEncodableTx;
use alloy::consensus::{SignableTransaction, TxLegacy};
use alloy::primitives::{Bytes, B256, U256};
use alloy_signer::SignerSync;
use alloy_signer_local::PrivateKeySigner;
use revm::primitives::TxKind;
use tempfile::TempDir;

use crate::db::cached_database::{BlockCachedDatabase, BlockHistoryCacheData};
use crate::db::types::{B256ED, U128ED};
use crate::db::Brc20ProgDatabase;
use crate::engine::BRC20ProgEngine;
use crate::engine::TxInfo;
use crate::global::CONFIG;

fn engine() -> (TempDir, BRC20ProgEngine) {
    let d = TempDir::new().unwrap();
    let db = Brc20ProgDatabase::new(d.path()).unwrap();
    (d, BRC20ProgEngine::new(db))
}

fn raw(signer: &PrivateKeySigner, nonce: u64) -> Vec<u8> {
    let tx = TxLegacy {
        chain_id: Some(CONFIG.read().chain_id),
        nonce,
        gas_price: 0,
        gas_limit: 0,
        to: TxKind::Call([0x11u8; 20].into()),
        value: U256::ZERO,
        input: Bytes::from(vec![1, 2, 3]),
    };
    let sig = signer.sign_hash_sync(&tx.signature_hash()).unwrap();
    let mut buf = Vec::new();
    tx.rlp_encode_signed(&sig, &mut buf);
    buf
}

#[test]
fn f1_get_range_uncommitted() {
    let d = TempDir::new().unwrap();
    let mut db = BlockCachedDatabase::<U128ED, B256ED, BlockHistoryCacheData<B256ED>>::new(d.path(), "t").unwrap();
    for i in 0..40u128 {
        db.set(1, &i.into(), [i as u8; 32].into()).unwrap();
    }
    // one key beyond the range so that an early break can trigger
    for i in 100..140u128 {
        db.set(1, &i.into(), [i as u8; 32].into()).unwrap();
    }
    let r = db.get_range(&0u128.into(), &50u128.into()).unwrap();
    let sorted = r.windows(2).all(|w| w[0].0 < w[1].0);
    println!("F1 uncommitted: got {} of 40, sorted={}", r.len(), sorted);
    db.commit(2).unwrap();
    let r2 = db.get_range(&0u128.into(), &50u128.into()).unwrap();
    let sorted2 = r2.windows(2).all(|w| w[0].0 < w[1].0);
    println!("F1 committed: got {} of 40, sorted={}", r2.len(), sorted2);
}

#[test]
fn f3_empty_base64() {
    let r = catch_unwind(|| crate::api::types::decode_bytes_from_inscription_data(""));
    println!("F3 empty string -> panic={}", r.is_err());
    let r = catch_unwind(|| crate::api::types::decode_bytes_from_inscription_data("===="));
    println!("F3 padding only -> panic={}", r.is_err());
}

#[test]
fn f5_mine_zero() {
    let (_d, e) = engine();
    let r = catch_unwind(AssertUnwindSafe(|| e.mine_blocks(0, 1)));
    println!("F5 mine_blocks(0) on empty db -> panic={} (debug profile; release wraps to u64::MAX iterations)", r.is_err());
}

#[test]
fn f6_max_block_not_monotone() {
    let (_d, e) = engine();
    e.mine_blocks(101, 1).unwrap(); // blocks 0..=100
    // touch a key at several heights so histories get pruned against 100
    e.commit_to_db().unwrap();
    println!("F6 height={}", e.get_latest_block_height().unwrap());
    e.reorg(95).unwrap();
    e.mine_blocks(1, 1).unwrap(); // block 96
    println!("F6 height after reorg+1={}", e.get_latest_block_height().unwrap());
    let r = catch_unwind(AssertUnwindSafe(|| e.reorg(86)));
    match r {
        Ok(Ok(())) => println!("F6 reorg(86) ACCEPTED although highest ever finalised is 100 (14 deep); height={}", e.get_latest_block_height().unwrap()),
        Ok(Err(err)) => println!("F6 reorg(86) refused: {}", err),
        Err(_) => println!("F6 reorg(86) PANICKED"),
    }
}

#[test]
fn f7_trace_survives_reorg() {
    CONFIG.write_fn_unchecked(|c| c.evm_record_traces = true);
    let (_d, e) = engine();
    e.mine_blocks(1, 1).unwrap(); // block 0
    let ti = TxInfo::from_inscription([9u8; 20].into(), TxKind::Create, Bytes::from(vec![0x60, 0x00, 0x60, 0x00, 0xf3]));
    let rc = e.add_tx_to_block(5, &ti, 0, 1, B256::ZERO, "i1".into(), 1000, B256::ZERO).unwrap();
    e.finalise_block(5, 1, B256::ZERO, 1).unwrap();
    let h = rc.transaction_hash.bytes;
    println!("F7 before reorg: trace={} receipt={}", e.get_trace(h).unwrap().is_some(), e.get_transaction_receipt(h).unwrap().is_some());
    e.reorg(0).unwrap();
    println!("F7 after reorg(0): trace={} receipt={} tx={}", e.get_trace(h).unwrap().is_some(), e.get_transaction_receipt(h).unwrap().is_some(), e.get_transaction_by_hash(h).unwrap().is_some());
}

#[test]
fn f8_drain_idx() {
    let (_d, e) = engine();
    let s = PrivateKeySigner::random();
    e.mine_blocks(1, 1).unwrap(); // block 0
    // block 1: park nonce 1
    let r = e.add_raw_tx_to_block(1, raw(&s, 1), 0, 1, B256::ZERO, "n1".into(), 1000, B256::ZERO).unwrap();
    println!("F8 park n1 -> {} receipts", r.len());
    e.finalise_block(1, 1, B256::ZERO, 0).unwrap();
    e.mine_blocks(4, 1).unwrap(); // 2..5
    // block 6: park nonce 2
    let r = e.add_raw_tx_to_block(1, raw(&s, 2), 0, 6, B256::ZERO, "n2".into(), 1000, B256::ZERO).unwrap();
    println!("F8 park n2 -> {} receipts", r.len());
    e.finalise_block(1, 6, B256::ZERO, 0).unwrap();
    e.mine_blocks(4, 1).unwrap(); // 7..10
    println!("F8 height={} pool={:?}", e.get_latest_block_height().unwrap(), e.get_all_pending_transactions().unwrap().values().map(|m| m.keys().cloned().collect::<Vec<_>>()).collect::<Vec<_>>());
    // block 11: nonce 0 arrives; n1 parked at block 1 is exactly expired (1+10 > 11 false), n2 parked at 6 is live
    let r = e.add_raw_tx_to_block(1, raw(&s, 0), 0, 11, B256::ZERO, "n0".into(), 1000, B256::ZERO);
    match r {
        Ok(v) => println!("F8 transact n0 -> Ok {} receipts, idx={:?}", v.len(), v.iter().map(|x| x.transaction_index.to_string()).collect::<Vec<_>>()),
        Err(err) => println!("F8 transact n0 -> Err({}) ; nonce now {} ; block tx count so far {}", err, e.get_transaction_count(s.address(), 0).unwrap(), e.get_block_transaction_count_by_number(11).unwrap()),
    }
}

#[test]
fn f9_park_without_validation() {
    let (_d, e) = engine();
    let s = PrivateKeySigner::random();
    e.mine_blocks(1, 1).unwrap();
    let before = e.get_all_pending_transactions().unwrap().len();
    // wrong tx_idx (7 instead of 0)
    let r = e.add_raw_tx_to_block(1, raw(&s, 3), 7, 1, B256::ZERO, "x".into(), 1000, B256::ZERO);
    let after = e.get_all_pending_transactions().unwrap().len();
    println!("F9 transact future nonce with tx_idx=7 -> ok={} pool {}->{}", r.is_ok(), before, after);
}

#[test]
fn d14_genesis_stamp() {
    let (_d, e) = engine();
    let _ = e.initialise(B256::ZERO, 1, 0); // bitcoin rpc check fails after genesis is created
    let ctrl = *crate::brc20_controller::BRC20_CONTROLLER_ADDRESS;
    println!("D14 after initialise: height={} controller code present={}", e.get_latest_block_height().unwrap(), e.get_contract_bytecode(ctrl).unwrap().is_some());
    e.mine_blocks(1, 1).unwrap();
    e.reorg(0).unwrap();
    println!("D14 after mine 1 + reorg(0): height={} controller code present={}", e.get_latest_block_height().unwrap(), e.get_contract_bytecode(ctrl).unwrap().is_some());
}
