#![cfg(test)]
//! Throwaway demonstrations (not registered checks) for the lock-discipline findings.
//! Placed as `mod triage1;` in src/engine/precompiles/mod.rs of a scratch copy.
use std::collections::HashMap;
use std::panic::{catch_unwind, AssertUnwindSafe};
use std::sync::atomic::{AtomicBool, AtomicU64, Ordering};
use std::sync::Arc;
use std::time::{Duration, Instant};

use alloy::primitives::{Bytes, B256, U256};
use alloy::sol_types::{sol, SolCall};
use revm::primitives::TxKind;
use tempfile::TempDir;

use crate::db::Brc20ProgDatabase;
use crate::engine::{BRC20ProgEngine, TxInfo};
use crate::global::CONFIG;

fn engine() -> (TempDir, Arc<BRC20ProgEngine>) {
    let d = TempDir::new().unwrap();
    let db = Brc20ProgDatabase::new(d.path()).unwrap();
    (d, Arc::new(BRC20ProgEngine::new(db)))
}

/// runs two closures on two threads for at most `secs`; reports whether both kept making progress
fn race(name: &str, secs: u64, a: impl Fn() + Send + 'static, b: impl Fn() + Send + 'static) {
    let stop = Arc::new(AtomicBool::new(false));
    let ca = Arc::new(AtomicU64::new(0));
    let cb = Arc::new(AtomicU64::new(0));
    let (s1, c1) = (stop.clone(), ca.clone());
    let ta = std::thread::spawn(move || { while !s1.load(Ordering::Relaxed) { a(); c1.fetch_add(1, Ordering::Relaxed); } });
    let (s2, c2) = (stop.clone(), cb.clone());
    let tb = std::thread::spawn(move || { while !s2.load(Ordering::Relaxed) { b(); c2.fetch_add(1, Ordering::Relaxed); } });
    let t0 = Instant::now();
    let mut last = (0, 0);
    let mut stuck_for = 0;
    while t0.elapsed() < Duration::from_secs(secs) {
        std::thread::sleep(Duration::from_millis(500));
        let now = (ca.load(Ordering::Relaxed), cb.load(Ordering::Relaxed));
        if now == last { stuck_for += 1; } else { stuck_for = 0; }
        last = now;
        if stuck_for >= 6 { break; }
    }
    stop.store(true, Ordering::Relaxed);
    if stuck_for >= 6 {
        println!("{name}: DEADLOCK - no progress on either thread for 3 s after A={} B={} iterations ({:?})", last.0, last.1, t0.elapsed());
        // threads are stuck forever; leak them
        std::mem::forget(ta); std::mem::forget(tb);
    } else {
        let _ = ta.join(); let _ = tb.join();
        println!("{name}: no deadlock in {secs}s (A={} B={})", last.0, last.1);
    }
}

#[test]
fn f2_get_block_by_hash_vs_writer() {
    let (_d, e) = engine();
    e.mine_blocks(3, 1).unwrap();
    let h = e.get_block_by_number(1, false).unwrap().unwrap().hash.bytes;
    let (e1, e2) = (e.clone(), e.clone());
    race("F2 get_block_by_hash || clear_caches", 40,
        move || { let _ = e1.get_block_by_hash(h, false); },
        move || { let _ = e2.commit_to_db(); });
}

#[test]
fn f13_add_tx_double_read_vs_clear_caches() {
    let (_d, e) = engine();
    e.mine_blocks(1, 1).unwrap();
    let (e1, e2) = (e.clone(), e.clone());
    let ti = TxInfo::from_inscription([9u8; 20].into(), TxKind::Call([7u8; 20].into()), Bytes::new());
    race("F13 add_tx_to_block || clear_caches", 60,
        move || {
            let n = e1.get_next_block_height().unwrap_or(1);
            let _ = e1.add_tx_to_block(5, &ti, 0, n, B256::ZERO, "i".into(), 1000, B256::ZERO);
        },
        move || { let _ = e2.clear_caches(); });
}

#[test]
fn f10_retry_holds_client_guard() {
    CONFIG.write_fn_unchecked(|c| { c.bitcoin_rpc_url = "http://127.0.0.1:1".into(); c.bitcoin_rpc_network = "regtest".into(); });
    let done = Arc::new(AtomicBool::new(false));
    let d2 = done.clone();
    let a = std::thread::spawn(move || {
        let r = catch_unwind(AssertUnwindSafe(|| super::btc_utils::get_transaction_with_overrides(&B256::ZERO, &HashMap::new())));
        d2.store(true, Ordering::Relaxed);
        println!("F10 reader finished: panicked={}", r.is_err());
    });
    std::thread::sleep(Duration::from_millis(400));
    let d3 = Arc::new(AtomicBool::new(false));
    let d4 = d3.clone();
    let b = std::thread::spawn(move || {
        CONFIG.write_fn_unchecked(|c| { c.bitcoin_rpc_url = "http://127.0.0.1:2".into(); });
        let _ = super::btc_utils::validate_bitcoin_rpc_status();
        d4.store(true, Ordering::Relaxed);
    });
    std::thread::sleep(Duration::from_secs(12));
    println!("F10 after 12 s (5 retries x 1 s would have ended): reader done={} writer done={}", done.load(Ordering::Relaxed), d3.load(Ordering::Relaxed));
    if !done.load(Ordering::Relaxed) { println!("F10 DEADLOCK: retry re-acquired BTC_CLIENT.read() behind the queued writer"); std::mem::forget(a); std::mem::forget(b); }
}

sol! { function getLockedPkscript(bytes pkscript, uint256 lock_block_count) returns (bytes locked_pkscript); }

#[test]
fn f4_short_pkscript() {
    for n in 0..3usize {
        let call = getLockedPkscriptCall { pkscript: Bytes::from(vec![0x51u8; n]), lock_block_count: U256::from(1) };
        let pc = super::PrecompileCall { bytes: Bytes::from(call.abi_encode()), gas_limit: 1_000_000, block_height: U256::ZERO,
            current_op_return_tx_id: B256::ZERO, btc_tx_hexes_data: HashMap::new() };
        let r = catch_unwind(AssertUnwindSafe(|| super::get_locked_pkscript_precompile(&pc)));
        println!("F4 pkscript of {} byte(s) -> panic={}", n, r.is_err());
    }
}
