#![cfg(test)]
//! Throwaway demonstration (not a registered check) for finding F11: eth_call simulates with the server's wall clock.
//! Placed as `#[cfg(test)] mod triage2;` in src/lib.rs of a scratch copy.
use alloy::primitives::{Bytes, B256};
use revm::primitives::TxKind;
use tempfile::TempDir;

use crate::db::Brc20ProgDatabase;
use crate::engine::{BRC20ProgEngine, TxInfo};

#[tokio::test(flavor = "multi_thread", worker_threads = 2)]
async fn f11_eth_call_reads_wall_clock() {
    let d = TempDir::new().unwrap();
    let e = BRC20ProgEngine::new(Brc20ProgDatabase::new(d.path()).unwrap());
    e.mine_blocks(1, 1).unwrap(); // block 0
    // init code: copy the 9-byte runtime `TIMESTAMP PUSH1 0 MSTORE PUSH1 32 PUSH1 0 RETURN` and return it
    let init = vec![0x60, 0x09, 0x60, 0x0c, 0x60, 0x00, 0x39, 0x60, 0x09, 0x60, 0x00, 0xf3,
                    0x42, 0x60, 0x00, 0x52, 0x60, 0x20, 0x60, 0x00, 0xf3];
    let from = [9u8; 20].into();
    let ti = TxInfo::from_inscription(from, TxKind::Create, Bytes::from(init));
    let rc = e.add_tx_to_block(5, &ti, 0, 1, B256::ZERO, "i1".into(), 1000, B256::ZERO).unwrap();
    e.finalise_block(5, 1, B256::ZERO, 1).unwrap();
    let addr = rc.contract_address.clone().expect("deployed").address;
    let call = TxInfo::from_inscription(from, TxKind::Call(addr), Bytes::new());
    let a = e.read_contract(&call, None, None).await.unwrap();
    std::thread::sleep(std::time::Duration::from_millis(1100));
    let b = e.read_contract(&call, None, None).await.unwrap();
    println!("F11 same state (height {}), same call, 1.1 s apart:", e.get_latest_block_height().unwrap());
    println!("F11   first  = {:?}", a.output);
    println!("F11   second = {:?}", b.output);
    println!("F11 differ = {}", format!("{:?}", a.output) != format!("{:?}", b.output));
}
